#!/usr/bin/env python3
"""C12 (and C02): pull the table-shaped part of the glif parser out of norad's src/glyph/parse.rs (and the identity
transform of src/glyph/mod.rs) and regenerate lean/Norad/Generated/GlifParser.lean (DESIGN 3.5 / 11.8).

Sections (each falls back to the committed pinned copy tools/pinned/GlifParser.lean when its anchor in the source is
not found - a refactor is never an alarm; the result then says `extraction: pinned`):

  attrs_<el>        the attribute names the loop of `parse_<el>` (`start` for `glyph`) accepts: the `b"..."` arms of its
                    `match attr.key.as_ref()`, in source order, without repetitions
  required_<el>     the attributes without which the element is refused (`match (x, y) { (Some(x), Some(y)) => ..`,
                    `match base { Some(..)`, `name.ok_or(..)`), with the error variant of the refusal;
                    for `guideline` the table of accepted shapes `(Some(x), None, None) => ..`
  dispatch_body     the element names of the `Event::Start` / `Event::Empty` arms of `parse_body`, which of them carry a
                    `version == VERSION_1` refusal, which a once-only guard (a `seen_*` flag or `self.glyph.<f>.is_some()`),
                    the default error of each of the three matches, whether comments are skipped
  dispatch_outline  the same for `parse_outline` (plus the error at end of input)
  dispatch_contour  the same for `parse_contour`
  dispatch_start    what `start` skips before the root and the error for anything else
  defaults          `typ`/`smooth` of a point, width/height of the advance, format numbers, the identity transform
                    (bit patterns of the doubles)
  errors            the error variant for an attribute the element does not know, per element
  accessors         WHICH name every comparison looks at: per function the quick-xml accessor of each element-name
                    comparison (`x.name().as_ref()` = the tag as written, `x.local_name().as_ref()` = the part behind a
                    namespace prefix) and per attribute loop the accessor of each `match` on the attribute key
                    (`attr.key.as_ref()` = `key`, `attr.key.local_name().as_ref()` = `key.local_name`).  The table
                    sections above accept either accessor, so that a change of accessor is REPORTED here (and fails
                    `source_dispatch_on_full_name`) instead of hiding behind a pinned fallback.  An accessor that is
                    neither, or a function with another number of comparison sites than the transcription knows, is a
                    refactor: pinned.

The tie theorems of Norad/Props/C12.lean (`source_*`, by `decide`) compare these with the tables of the model
(`Lemmas/GlifTables.lean`, each proved to characterise the model function it belongs to) and of the specification
(`Spec/C12.lean`), set-wise where the order of independent arms is not part of the property.
"""
import os
import re
import struct
import sys

ROOT = os.path.dirname(os.path.dirname(os.path.abspath(__file__)))
OUT = os.path.join(ROOT, "lean", "Norad", "Generated", "GlifParser.lean")
PINNED = os.path.join(ROOT, "tools", "pinned", "GlifParser.lean")


class NotFound(Exception):
    pass


def strip_comments(src):
    src = re.sub(r"/\*.*?\*/", "", src, flags=re.S)
    return re.sub(r"//[^\n]*", "", src)


OPEN = {"{": "}", "(": ")", "[": "]"}
CLOSE = {"}", ")", "]"}


def match_close(src, i):
    """index after the bracket that closes the one at src[i] (string literals are skipped)"""
    depth, j = 0, i
    while j < len(src):
        c = src[j]
        if c == '"':
            j += 1
            while j < len(src) and src[j] != '"':
                j += 2 if src[j] == "\\" else 1
        elif c == "'" and j + 2 < len(src) and (src[j + 2] == "'" or (src[j + 1] == "\\" and j + 3 < len(src) and src[j + 3] == "'")):
            j += 3 if src[j + 2] == "'" else 4
            continue
        elif c in OPEN:
            depth += 1
        elif c in CLOSE:
            depth -= 1
            if depth == 0:
                return j + 1
        j += 1
    raise NotFound("unbalanced bracket")


def block_after(src, start):
    i = src.find("{", start)
    if i < 0:
        raise NotFound("block")
    return src[i:match_close(src, i)]


def fn_block(src, name):
    m = re.search(r"\bfn\s+" + re.escape(name) + r"\b", src)
    if not m:
        raise NotFound("fn " + name)
    return block_after(src, m.end())


def match_block(src, scrutinee_re, start=0):
    m = re.compile(r"\bmatch\s+" + scrutinee_re + r"\s*\{").search(src, start)
    if not m:
        raise NotFound("match " + scrutinee_re)
    i = m.end() - 1
    return src[i:match_close(src, i)], m.start()


def arms(block):
    """[(pattern, body)] of a `{ pat => body, ... }` match block"""
    s = block.strip()
    assert s[0] == "{" and s[-1] == "}"
    s = s[1:-1]
    out, i, n = [], 0, len(s)
    while True:
        while i < n and s[i] in " \t\r\n,":
            i += 1
        if i >= n:
            break
        # pattern: up to `=>` at bracket depth 0
        j, depth = i, 0
        while j < n:
            c = s[j]
            if c == '"':
                j += 1
                while j < n and s[j] != '"':
                    j += 2 if s[j] == "\\" else 1
            elif c in OPEN:
                depth += 1
            elif c in CLOSE:
                depth -= 1
            elif c == "=" and depth == 0 and s[j:j + 2] == "=>":
                break
            j += 1
        if j >= n:
            raise NotFound("arm without =>")
        pat = s[i:j].strip()
        j += 2
        while j < n and s[j] in " \t\r\n":
            j += 1
        if j < n and s[j] == "{":
            k = match_close(s, j)
            body = s[j:k]
            # `match x {..}` bodies etc. are followed directly by the next arm
        else:
            k, depth = j, 0
            while k < n:
                c = s[k]
                if c == '"':
                    k += 1
                    while k < n and s[k] != '"':
                        k += 2 if s[k] == "\\" else 1
                elif c in OPEN:
                    depth += 1
                elif c in CLOSE:
                    depth -= 1
                elif c == "," and depth == 0:
                    break
                k += 1
            body = s[j:k]
        out.append((pat, body.strip()))
        i = k
    return out


def names_of(pat):
    return re.findall(r'b"([^"\\]*)"', pat)


def lean_str(s):
    if not re.fullmatch(r"[A-Za-z0-9_.\-]*", s):
        raise NotFound("unexpected characters in literal " + repr(s))
    return "[" + ", ".join("'" + c + "'" for c in s) + "]"


def lean_strs(xs):
    return "[" + ", ".join(lean_str(x) for x in xs) + "]"


def dedupe(xs):
    out = []
    for x in xs:
        if x not in out:
            out.append(x)
    return out


def bits(lit):
    lit = lit.replace("_", "")
    if not re.fullmatch(r"-?[0-9]+(\.[0-9]*)?(f64)?", lit):
        raise NotFound("float literal " + lit)
    return struct.unpack(">Q", struct.pack(">d", float(lit.replace("f64", ""))))[0]


# ---------------------------------------------------------------- attribute loops

ELEMENT_FN = [("glyph", "start"), ("advance", "parse_advance"), ("unicode", "parse_unicode"), ("anchor", "parse_anchor"),
              ("guideline", "parse_guideline"), ("image", "parse_image"), ("point", "parse_point"),
              ("component", "parse_component"), ("contour", "parse_contour")]


ATTR_KEY = r"attr\.key(?:\.local_name\(\))?\.as_ref\(\)"
EL_NAME = r"\w+\.(?:name|local_name)\(\)\.as_ref\(\)"


def attr_match(ps, fn):
    body = fn_block(ps, fn)
    blk, _ = match_block(body, ATTR_KEY)
    return body, blk


def sec_attrs(el, fn):
    def f(ps, md):
        _, blk = attr_match(ps, fn)
        ns = dedupe(n for pat, _ in arms(blk) for n in names_of(pat))
        if not ns:
            raise NotFound("no attribute arm in " + fn)
        return "def %sAttrs : List (List Char) :=\n  %s\n" % (el, lean_strs(ns))
    return f


def var_of_attr(blk):
    """attribute name -> the accumulator variable its arm sets with `v = Some(..)`"""
    out = {}
    for pat, body in arms(blk):
        ns = names_of(pat)
        m = re.search(r"(?<![A-Za-z0-9_.])(?<!let )(?<!let mut )([a-z_][a-z0-9_]*)\s*=\s*Some\(", body)
        if m:
            for n in ns:
                out.setdefault(n, m.group(1))
    return out


def sec_required(el, fn):
    def f(ps, md):
        body, blk = attr_match(ps, fn)
        v2a = {}
        for a, v in var_of_attr(blk).items():
            v2a.setdefault(v, a)
        after = body[body.find(blk) + len(blk):]
        if el in ("anchor", "point"):
            m = re.search(r"match\s*\(\s*(\w+)\s*,\s*(\w+)\s*\)\s*\{\s*\(\s*Some\(\w+\)\s*,\s*Some\(\w+\)\s*\)\s*=>", after)
            if not m:
                raise NotFound("match (x, y) in " + fn)
            vs = [m.group(1), m.group(2)]
        elif el in ("component", "image"):
            m = re.search(r"match\s+(\w+)\s*\{\s*Some\(", after)
            if not m:
                raise NotFound("match <required> in " + fn)
            vs = [m.group(1)]
        elif el == "glyph":
            m = re.search(r"\b(\w+)\.ok_or\(\s*ErrorKind::(\w+)", after)
            if not m:
                raise NotFound("ok_or in start")
            vs = [m.group(1)]
        else:
            raise NotFound(el)
        try:
            req = [v2a[v] for v in vs]
        except KeyError as ex:
            raise NotFound("no attribute sets " + str(ex))
        m = re.search(r"ErrorKind::(\w+)", after)
        if not m:
            raise NotFound("refusal error of " + fn)
        return ("def %sRequired : List (List Char) :=\n  %s\ndef %sMissingError : List Char := %s\n"
                % (el, lean_strs(req), el, lean_str(m.group(1))))
    return f


def sec_guideline_shapes(ps, md):
    body, blk = attr_match(ps, "parse_guideline")
    v2a = {}
    for a, v in var_of_attr(blk).items():
        v2a.setdefault(v, a)
    after = body[body.find(blk) + len(blk):]
    m = re.search(r"match\s*\(([^)]*)\)\s*\{", after)
    if not m:
        raise NotFound("match (x, y, angle)")
    vs = [v.strip() for v in m.group(1).split(",")]
    mb = after[m.end() - 1:match_close(after, m.end() - 1)]
    shapes, err = [], None
    for pat, b in arms(mb):
        pm = re.fullmatch(r"\(\s*(.*)\s*\)", pat, flags=re.S)
        if not pm:
            e = re.search(r"ErrorKind::(\w+)", b)
            if e:
                err = e.group(1)
            continue
        parts = [p.strip() for p in re.split(r",(?![^()]*\))", pm.group(1))]
        if len(parts) != len(vs):
            raise NotFound("shape arity")
        present = []
        for v, p in zip(vs, parts):
            if p.startswith("Some("):
                present.append(v2a[v])
            elif p != "None":
                raise NotFound("shape pattern " + p)
        shapes.append(present)
    if not shapes or err is None:
        raise NotFound("guideline shapes")
    return ("def guidelineShapes : List (List (List Char)) :=\n  [" + ",\n   ".join(lean_strs(s) for s in shapes) +
            "]\ndef guidelineShapeError : List Char := %s\n" % lean_str(err))


# ---------------------------------------------------------------- element dispatch

def default_error(arm_list):
    for pat, body in arm_list:
        if re.fullmatch(r"_\w*", pat):
            m = re.search(r"ErrorKind::(\w+)", body)
            if m:
                return m.group(1)
    raise NotFound("default arm")


def classify(arm_list):
    """names, names refused in format 1, names guarded by a seen-flag, names guarded by `<field>.is_some()`"""
    names, v1, flag, content = [], [], [], []
    for pat, _ in arm_list:
        ns = names_of(pat)
        guard = pat.split(" if ", 1)[1] if " if " in pat else ""
        for n in ns:
            if n not in names:
                names.append(n)
            if re.search(r"version\s*==\s*VERSION_1", guard):
                v1.append(n)
            elif re.search(r"\bseen_\w+", guard):
                flag.append(n)
            elif re.search(r"\.is_some\(\)", guard):
                content.append(n)
    return names, dedupe(v1), dedupe(flag), dedupe(content)


def once_flags(arm_list, guarded):
    """The once-only guard by a `seen_*` flag is translated only in its exact known text: a guard arm
    `b"x" if seen_f => return Err(..)` and, in the unguarded arm of the same name, the statement `seen_f = true;`.
    Any other mention of a `seen_*` variable inside the dispatch (`&mut seen_f` handed to a helper, `mem::replace`, a
    compound guard) is an unknown shape => NotFound => pinned section.  A name with the guard but without the
    assignment, or with the assignment but without the guard, is the known shape with different content: it is not
    listed, and the tie theorem fails."""
    guard_of, set_of = {}, {}
    for pat, body in arm_list:
        ns = names_of(pat)
        guard = pat.split(" if ", 1)[1].strip() if " if " in pat else ""
        if re.search(r"\bseen_\w+", guard):
            if not re.fullmatch(r"seen_\w+", guard):
                raise NotFound("compound seen-flag guard: " + guard)
            if not re.search(r"return\s+Err\(", body):
                raise NotFound("seen-flag guard arm does not return an error")
            for n in ns:
                guard_of[n] = guard
            rest = body
        else:
            rest = body
            for m in re.finditer(r"(?<![\w.&])(seen_\w+)\s*=\s*true\s*;", body):
                if guard == "":
                    for n in ns:
                        set_of[n] = m.group(1)
            rest = re.sub(r"(?<![\w.&])seen_\w+\s*=\s*true\s*;", "", body)
        if re.search(r"\bseen_\w+", rest):
            raise NotFound("seen-flag used outside the known guard/assignment text")
    return [n for n in guarded if guard_of.get(n) is not None and set_of.get(n) == guard_of.get(n)]


def event_arms(fnbody):
    blk, _ = match_block(fnbody, r"reader\.read_event_into\(buf\)\?")
    return arms(blk)


def inner_name_match(body):
    blk, _ = match_block(body if body.startswith("{") else "{" + body + "}", EL_NAME)
    return arms(blk)


def sec_dispatch_body(ps, md):
    ev = event_arms(fn_block(ps, "parse_body"))
    start = empty = None
    for pat, body in ev:
        if re.match(r"Event::Start\(", pat):
            start = inner_name_match(body)
        elif re.match(r"Event::Empty\(", pat):
            empty = inner_name_match(body)
    if start is None or empty is None:
        raise NotFound("Start/Empty arms of parse_body")
    sn, sv1, sflag, scont = classify(start)
    en, ev1, eflag, econt = classify(empty)
    sflag = once_flags(start, sflag)
    eflag = once_flags(empty, eflag)
    comment = any(re.match(r"Event::Comment", p) and b in ("()", "{}") for p, b in ev)
    return ("def bodyStartNames : List (List Char) := %s\n"
            "def bodyEmptyNames : List (List Char) := %s\n"
            "def v1RefusedStart : List (List Char) := %s\n"
            "def v1RefusedEmpty : List (List Char) := %s\n"
            "/-- elements refused the second time by a `seen_*` flag -/\n"
            "def onceByFlag : List (List Char) := %s\n"
            "/-- elements refused the second time because the glyph field they fill is already set -/\n"
            "def onceByContent : List (List Char) := %s\n"
            "def bodyStartDefaultError : List Char := %s\n"
            "def bodyEmptyDefaultError : List Char := %s\n"
            "def bodyOtherError : List Char := %s\n"
            "def bodySkipsComments : Bool := %s\n"
            % (lean_strs(sn), lean_strs(en), lean_strs(sv1), lean_strs(ev1), lean_strs(dedupe(sflag + eflag)),
               lean_strs(dedupe(scont + econt)), lean_str(default_error(start)), lean_str(default_error(empty)),
               lean_str(default_error(ev)), str(comment).lower()))


def eof_error(ev):
    for pat, body in ev:
        if re.match(r"Event::Eof", pat):
            m = re.search(r"ErrorKind::(\w+)", body)
            if m:
                return m.group(1)
    raise NotFound("Eof arm")


def sec_dispatch_outline(ps, md):
    ev = event_arms(fn_block(ps, "parse_outline"))
    start = empty = None
    for pat, body in ev:
        if re.match(r"Event::Start\(", pat):
            start = inner_name_match(body)
        elif re.match(r"Event::Empty\(", pat):
            empty = inner_name_match(body)
    if start is None or empty is None:
        raise NotFound("Start/Empty arms of parse_outline")
    comment = any(re.match(r"Event::Comment", p) and b in ("()", "{}") for p, b in ev)
    ignored = [n for pat, b in empty for n in names_of(pat) if b in ("()", "{}")]
    return ("def outlineStartNames : List (List Char) := %s\n"
            "def outlineEmptyNames : List (List Char) := %s\n"
            "/-- self-closed elements that are accepted and ignored (`<contour/>`) -/\n"
            "def outlineEmptyIgnored : List (List Char) := %s\n"
            "def outlineStartDefaultError : List Char := %s\n"
            "def outlineEmptyDefaultError : List Char := %s\n"
            "def outlineOtherError : List Char := %s\n"
            "def outlineEofError : List Char := %s\n"
            "def outlineSkipsComments : Bool := %s\n"
            % (lean_strs(classify(start)[0]), lean_strs(classify(empty)[0]), lean_strs(ignored),
               lean_str(default_error(start)), lean_str(default_error(empty)), lean_str(default_error(ev)),
               lean_str(eof_error(ev)), str(comment).lower()))


def sec_dispatch_contour(ps, md):
    ev = event_arms(fn_block(ps, "parse_contour"))
    empties = []
    for pat, body in ev:
        m = re.match(r"Event::Empty\(.*?\)\s*if\s+" + EL_NAME + r"\s*==\s*b\"(\w+)\"", pat, flags=re.S)
        if m:
            empties.append(m.group(1))
    if not empties:
        raise NotFound("Empty point arm of parse_contour")
    comment = any(re.match(r"Event::Comment", p) and b in ("()", "{}") for p, b in ev)
    return ("def contourEmptyNames : List (List Char) := %s\n"
            "def contourOtherError : List Char := %s\n"
            "def contourEofError : List Char := %s\n"
            "def contourSkipsComments : Bool := %s\n"
            % (lean_strs(empties), lean_str(default_error(ev)), lean_str(eof_error(ev)), str(comment).lower()))


def sec_dispatch_start(ps, md):
    body = fn_block(ps, "start")
    ev = event_arms(body.replace("reader.read_event_into(buf)?", "reader.read_event_into(buf)?"))
    skipped = [re.match(r"Event::(\w+)", p).group(1) for p, b in ev if re.match(r"Event::(Comment|Decl)\(", p) and b in ("()", "{}")]
    root = None
    for pat, _ in ev:
        m = re.match(r"Event::Start\(.*?\)\s*if\s+" + EL_NAME + r"\s*==\s*b\"(\w+)\"", pat, flags=re.S)
        if m:
            root = m.group(1)
    if root is None:
        raise NotFound("root arm of start")
    m = re.search(r"version\s*!=\s*VERSION_1\s*&&\s*version\s*!=\s*VERSION_2", body)
    if not m:
        raise NotFound("version test")
    vs = []
    for c in ("VERSION_1", "VERSION_2"):
        mm = re.search(r"const\s+" + c + r"\s*:\s*Version\s*=\s*\(\s*(\d+)\s*,\s*(\d+)\s*\)", ps)
        if not mm:
            raise NotFound(c)
        vs.append("(%s, %s)" % (mm.group(1), mm.group(2)))
    e = re.search(r"ErrorKind::(Unsupported\w+)", body)
    if not e:
        raise NotFound("unsupported-version error")
    return ("def rootName : List Char := %s\n"
            "def startSkips : List (List Char) := %s\n"
            "def startOtherError : List Char := %s\n"
            "def supportedVersions : List (Nat × Nat) := [%s]\n"
            "def unsupportedVersionError : List Char := %s\n"
            % (lean_str(root), lean_strs(sorted(skipped)), lean_str(default_error(ev)), ", ".join(vs), lean_str(e.group(1))))


# ---------------------------------------------------------------- defaults and error variants

def sec_defaults(ps, md):
    pt = fn_block(ps, "parse_point")
    m1 = re.search(r"let\s+mut\s+typ\s*=\s*PointType::(\w+)\s*;", pt)
    m2 = re.search(r"let\s+mut\s+smooth\s*=\s*(true|false)\s*;", pt)
    if not (m1 and m2):
        raise NotFound("point defaults")
    adv = fn_block(ps, "parse_advance")
    w = re.search(r"let\s+mut\s+width\s*:\s*f64\s*=\s*([0-9._f]+)\s*;", adv)
    h = re.search(r"let\s+mut\s+height\s*:\s*f64\s*=\s*([0-9._f]+)\s*;", adv)
    if not (w and h):
        raise NotFound("advance defaults")
    st = fn_block(ps, "start")
    fa = re.search(r"let\s+mut\s+format_major\s*=\s*(\d+)\s*;", st)
    fi = re.search(r"let\s+mut\s+format_minor\s*=\s*(\d+)\s*;", st)
    if not (fa and fi):
        raise NotFound("format defaults")
    for fn in ("parse_component", "parse_image"):
        if not re.search(r"let\s+mut\s+transform\s*=\s*AffineTransform::default\(\)\s*;", fn_block(ps, fn)):
            raise NotFound("transform default in " + fn)
    if not re.search(r"impl\s+(?:std::default::)?Default\s+for\s+AffineTransform\s*\{\s*fn\s+default\(\)\s*->\s*Self\s*\{\s*Self::identity\(\)", md):
        raise NotFound("Default for AffineTransform")
    ident = fn_block(md, "identity")
    coeffs = []
    for fld in ("x_scale", "xy_scale", "yx_scale", "y_scale", "x_offset", "y_offset"):
        m = re.search(r"\b" + fld + r"\s*:\s*(-?[0-9][0-9._]*(?:f64)?)\s*,", ident)
        if not m:
            raise NotFound("identity." + fld)
        coeffs.append(bits(m.group(1)))
    return ("def pointTypeDefault : List Char := %s\n"
            "def smoothDefault : Bool := %s\n"
            "/-- bit patterns of the doubles: width, height -/\n"
            "def advanceDefaults : List Nat := [%d, %d]\n"
            "def formatDefaults : List Nat := [%s, %s]\n"
            "/-- bit patterns: xScale, xyScale, yxScale, yScale, xOffset, yOffset -/\n"
            "def transformDefault : List Nat := [%s]\n"
            % (lean_str(m1.group(1)), m2.group(1), bits(w.group(1)), bits(h.group(1)), fa.group(1), fi.group(1),
               ", ".join(str(c) for c in coeffs)))


def sec_errors(ps, md):
    rows = []
    for el, fn in ELEMENT_FN:
        _, blk = attr_match(ps, fn)
        rows.append("(%s, %s)" % (lean_str(el), lean_str(default_error(arms(blk)))))
    return ("/-- element ↦ error variant for an attribute it does not know -/\n"
            "def unknownAttrError : List (List Char × List Char) :=\n  [" + ",\n   ".join(rows) + "]\n")


# ---------------------------------------------------------------- which name is compared

# function -> number of element-name comparison sites the transcription knows (Start/Empty `match`es and `==` guards)
ELEMENT_SITES = [("start", 1), ("parse_body", 3), ("parse_outline", 3), ("parse_contour", 2), ("parse_lib", 1), ("parse_note", 1)]
KNOWN_ELEMENT_ACCESSORS = ("name", "local_name")


def sec_accessors(ps, md):
    rows = []
    for fn, expected in ELEMENT_SITES:
        body = fn_block(ps, fn)
        # every `<ident>.<accessor>().as_ref()` that is matched on or compared with a byte literal
        found = [m.group(1) for m in re.finditer(
            r"(?<![\w.])\w+\.(\w+)\(\)\.as_ref\(\)\s*(?:\{|==\s*b\")", body)]
        if len(found) != expected:
            raise NotFound("%d element-name comparisons in %s, %d known" % (len(found), fn, expected))
        for a in found:
            if a not in KNOWN_ELEMENT_ACCESSORS:
                raise NotFound("unknown accessor %s() in %s" % (a, fn))
        rows.append("(%s, %s)" % (lean_str(fn), lean_strs(found)))
    arows = []
    for el, fn in ELEMENT_FN:
        body = fn_block(ps, fn)
        found = re.findall(r"\bmatch\s+attr\.key((?:\.\w+\(\))*)\.as_ref\(\)\s*\{", body)
        if not found:
            raise NotFound("no match on the attribute key in " + fn)
        # any other use of the key as a name (e.g. `attr.key.local_name()` outside a match) is a refactor
        if len(re.findall(r"\battr\.key\b", body)) != len(found):
            raise NotFound("attribute key used outside a match in " + fn)
        acc = []
        for chain in found:
            if chain == "":
                acc.append("key")
            elif chain == ".local_name()":
                acc.append("key.local_name")
            else:
                raise NotFound("unknown key accessor %s in %s" % (chain, fn))
        arows.append("(%s, %s)" % (lean_str(el), lean_strs(acc)))
    return ("/-- function ↦ the quick-xml accessor of each of its element-name comparisons, in source order: `name` is the tag\n"
            "    as written (`x:advance`), `local_name` the part behind a namespace prefix (`advance`) -/\n"
            "def elementNameAccessors : List (List Char × List (List Char)) :=\n  [" + ",\n   ".join(rows) + "]\n"
            "/-- element ↦ what each `match` of its attribute loop looks at: `key` is `attr.key.as_ref()`, the attribute name as\n"
            "    written -/\n"
            "def attrNameAccessors : List (List Char × List (List Char)) :=\n  [" + ",\n   ".join(arows) + "]\n")


SECTIONS = ([("attrs_" + el, sec_attrs(el, fn)) for el, fn in ELEMENT_FN] +
            [("required_" + el, sec_required(el, fn)) for el, fn in ELEMENT_FN if el in ("glyph", "anchor", "image", "point", "component")] +
            [("required_guideline", sec_guideline_shapes), ("dispatch_body", sec_dispatch_body),
             ("dispatch_outline", sec_dispatch_outline), ("dispatch_contour", sec_dispatch_contour),
             ("dispatch_start", sec_dispatch_start), ("defaults", sec_defaults), ("errors", sec_errors),
             ("accessors", sec_accessors)])

HEADER = """/-!
GENERATED by tools/extract_glif_parser.py from norad's src/glyph/parse.rs (and the identity transform of
src/glyph/mod.rs) on every `./check` run.  Do not edit.  A pinned copy of every section lives in
tools/pinned/GlifParser.lean and is used for a section whose anchor in the source is not found (a refactor is not an
alarm).  Core Lean only.
-/
namespace Generated.GlifParser

"""


def split_sections(text):
    out = {}
    for m in re.finditer(r"-- BEGIN (\w+)\n(.*?)-- END \1\n", text, flags=re.S):
        out[m.group(1)] = m.group(2)
    return out


def generate(repo):
    pinned = split_sections(open(PINNED).read()) if os.path.exists(PINNED) else {}
    err = None
    try:
        ps = strip_comments(open(os.path.join(repo, "src", "glyph", "parse.rs")).read())
        md = strip_comments(open(os.path.join(repo, "src", "glyph", "mod.rs")).read())
    except OSError as ex:
        ps = md = None
        err = ex
    parts, fell_back = [], []
    for name, f in SECTIONS:
        try:
            if ps is None:
                raise NotFound(str(err))
            body = f(ps, md)
        except (NotFound, IndexError, ValueError, AssertionError, AttributeError, KeyError) as ex:
            if name not in pinned:
                raise
            body = pinned[name]
            fell_back.append("%s (%s)" % (name, ex))
        parts.append("-- BEGIN %s\n%s-- END %s\n" % (name, body, name))
    return HEADER + "\n".join(parts) + "\nend Generated.GlifParser\n", fell_back


def run():
    repo = os.environ.get("VERIF_REPO", "/repo").rstrip("/") or "/repo"
    text, fell_back = generate(repo)
    old = open(OUT).read() if os.path.exists(OUT) else None
    if old != text:
        os.makedirs(os.path.dirname(OUT), exist_ok=True)
        with open(OUT, "w") as f:
            f.write(text)
    ptext = open(PINNED).read() if os.path.exists(PINNED) else None
    return {"extraction": "pinned" if fell_back else "full", "pinned_sections": fell_back, "source": repo,
            "changed_since_last_run": old != text, "differs_from_pinned_copy": ptext is not None and ptext != text,
            "table": os.path.relpath(OUT, ROOT)}


if __name__ == "__main__":
    r = run()
    print(r)
    if len(sys.argv) > 1 and sys.argv[1] == "--pin":
        import shutil
        os.makedirs(os.path.dirname(PINNED), exist_ok=True)
        shutil.copy(OUT, PINNED)
        print("pinned")
