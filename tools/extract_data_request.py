#!/usr/bin/env python3
"""C17: source-level tie for `DataRequest` / `LayerFilter` (norad's src/data_request.rs).  A real translator: the two
struct definitions and EVERY `fn` of the `impl` blocks of the two types (inherent and `Default`; the `Debug` impl is
formatting only and skipped by name) become Lean definitions in lean/Norad/Generated/DataRequest.lean, regenerated on
every `./check C17` run (DESIGN 3.5).

What is translated
  structs   `pub struct DataRequest<'a> { .. }`, `struct LayerFilter<'a> { .. }` -> Lean structures with the Rust field
            names; field types `bool`, `LayerFilter<'a>`, `Option<Box<FilterFn<'a>>>` (with
            `type FilterFn<'a> = dyn Fn(&str, &Path) -> bool + 'a`)
  methods   `<Type>_<method>`; a body is either ONE expression, or a run of assignments `self.<field>[.<field>] = e;`
            followed by the tail `self` (functional record updates, in order).  Expressions: `||`, `&&`, `!`, `==` against
            `Path::new("..")` (-> the parameter `pathEq`: how `std::path::Path` compares is external behaviour), field
            access, `true` / `false`, parameters, `Some(..)`, `None`, `Box::new(e)` (= e), `.as_ref()` (= receiver),
            `.map(|x| e)`, `.unwrap_or(e)`, calls of closures and of other methods of the two types (`T::m(..)`),
            struct literals `T { f: e, .. }` with or without `..Default::default()`.
Anything else - another statement form, another type, another impl, an unknown method call - is an UNKNOWN SHAPE: the
whole file falls back to the pinned copy tools/pinned/DataRequest.lean (`extraction: pinned`, never an alarm).  A known
shape with other content (a flag flipped, an assignment dropped or added, a clause of `should_load` changed) yields other
Lean definitions and `C17.source_request_builders_eq_model` / `source_layer_filter_eq_model` fail.
"""
import os
import re
import sys

ROOT = os.path.dirname(os.path.dirname(os.path.abspath(__file__)))
OUT = os.path.join(ROOT, "lean", "Norad", "Generated", "DataRequest.lean")
PINNED = os.path.join(ROOT, "tools", "pinned", "DataRequest.lean")

TYPES = ("LayerFilter", "DataRequest")


class NotFound(Exception):
    pass


def strip_comments(src):
    src = re.sub(r"/\*.*?\*/", lambda m: " " * len(m.group(0)), src, flags=re.S)
    return re.sub(r"//[^\n]*", lambda m: " " * len(m.group(0)), src)


def match_brace(src, i):
    """index behind the `}` matching the `{` at i"""
    assert src[i] == "{"
    depth, j = 1, i + 1
    while depth and j < len(src):
        depth += {"{": 1, "}": -1}.get(src[j], 0)
        j += 1
    if depth:
        raise NotFound("unbalanced braces")
    return j


# ---------------------------------------------------------------------------------------------------------------------
# tokens and expressions

TOKEN = re.compile(r'\s*(?:("(?:[^"\\]|\\.)*")|(\|\||&&|==|!=|::|\.\.|->|[A-Za-z_][A-Za-z0-9_]*|[0-9]+|[{}()\[\],.:;=!&|<>\'+?*-]))')


def tokenize(text):
    out, i = [], 0
    text = text.strip()
    while i < len(text):
        m = TOKEN.match(text, i)
        if not m:
            raise NotFound("token at: " + text[i:i + 30])
        out.append(m.group(1) or m.group(2))
        i = m.end()
    return out


class Parser:
    """recursive descent over the expression subset listed in the module docstring; builds tuples"""

    def __init__(self, toks):
        self.t, self.i = toks, 0

    def peek(self, k=0):
        return self.t[self.i + k] if self.i + k < len(self.t) else None

    def eat(self, x=None):
        tok = self.peek()
        if tok is None or (x is not None and tok != x):
            raise NotFound("expected %r, found %r" % (x, tok))
        self.i += 1
        return tok

    def done(self):
        return self.i >= len(self.t)

    def expr(self):
        return self.p_or()

    def p_or(self):
        e = self.p_and()
        while self.peek() == "||":
            self.eat()
            e = ("or", e, self.p_and())
        return e

    def p_and(self):
        e = self.p_cmp()
        while self.peek() == "&&":
            self.eat()
            e = ("and", e, self.p_cmp())
        return e

    def p_cmp(self):
        e = self.p_unary()
        if self.peek() == "==":
            self.eat()
            e = ("eq", e, self.p_unary())
        return e

    def p_unary(self):
        if self.peek() == "!":
            self.eat()
            return ("not", self.p_unary())
        if self.peek() == "&":
            self.eat()
            if self.peek() == "mut":
                raise NotFound("&mut")
            return self.p_unary()
        return self.p_postfix()

    def args(self):
        self.eat("(")
        out = []
        while self.peek() != ")":
            out.append(self.expr())
            if self.peek() == ",":
                self.eat()
        self.eat(")")
        return out

    def p_postfix(self):
        e = self.p_primary()
        while True:
            if self.peek() == "." and self.peek(1) != ".":
                self.eat()
                name = self.eat()
                if not re.fullmatch(r"[A-Za-z_]\w*", name):
                    raise NotFound("member " + name)
                if self.peek() == "(":
                    e = ("mcall", e, name, self.args())
                else:
                    e = ("field", e, name)
            elif self.peek() == "(" and e[0] == "var":
                e = ("call", e[1], self.args())
            else:
                return e

    def p_primary(self):
        tok = self.peek()
        if tok is None:
            raise NotFound("unexpected end of expression")
        if tok == "(":
            self.eat()
            e = self.expr()
            self.eat(")")
            return ("paren", e)
        if tok == "|":                                   # closure |a, b| expr
            self.eat()
            ps = []
            while self.peek() != "|":
                ps.append(self.eat())
                if self.peek() == ",":
                    self.eat()
            self.eat("|")
            return ("lam", ps, self.expr())
        if tok.startswith('"'):
            self.eat()
            return ("str", tok[1:-1])
        if tok in ("true", "false"):
            self.eat()
            return ("bool", tok)
        if re.fullmatch(r"[A-Za-z_]\w*", tok):
            self.eat()
            path = [tok]
            while self.peek() == "::":
                self.eat()
                path.append(self.eat())
            if len(path) > 1:
                if self.peek() == "(":
                    return ("pcall", path, self.args())
                return ("path", path)
            if tok[0].isupper() and self.peek() == "{":   # struct literal
                self.eat("{")
                fields, base = [], None
                while self.peek() != "}":
                    if self.peek() == "..":
                        self.eat()
                        base = self.expr()
                    else:
                        f = self.eat()
                        if self.peek() == ":":
                            self.eat()
                            fields.append((f, self.expr()))
                        else:
                            fields.append((f, ("var", f)))
                    if self.peek() == ",":
                        self.eat()
                self.eat("}")
                return ("struct", tok, fields, base)
            if tok in ("Some",) and self.peek() == "(":
                a = self.args()
                if len(a) != 1:
                    raise NotFound("Some(..) arity")
                return ("some", a[0])
            if tok == "None":
                return ("none",)
            return ("var", tok)
        raise NotFound("expression token " + tok)


class Ctx:
    def __init__(self, ty, params, structs, methods):
        self.ty, self.params, self.structs, self.methods = ty, set(params), structs, methods
        self.uses_path_eq = False
        self.calls = set()


def lean_expr(e, cx, bound=()):
    k = e[0]
    if k == "paren":
        return "(" + lean_expr(e[1], cx, bound) + ")"
    if k == "or":
        return "%s || %s" % (lean_expr(e[1], cx, bound), lean_expr(e[2], cx, bound))
    if k == "and":
        return "%s && %s" % (lean_atom(e[1], cx, bound, "and"), lean_atom(e[2], cx, bound, "and"))
    if k == "not":
        return "!" + lean_atom(e[1], cx, bound, "not")
    if k == "eq":
        l, r = e[1], e[2]
        for a, b in ((l, r), (r, l)):
            if b[0] == "pcall" and b[1] == ["Path", "new"] and len(b[2]) == 1 and b[2][0][0] == "str":
                cx.uses_path_eq = True
                return 'pathEq %s "%s".toList' % (lean_atom(a, cx, bound, "app"), b[2][0][1])
        raise NotFound("`==` that is not a comparison with Path::new(\"..\")")
    if k == "bool":
        return e[1]
    if k == "var":
        if e[1] == "self" or e[1] in cx.params or e[1] in bound:
            return e[1]
        raise NotFound("free variable " + e[1])
    if k == "field":
        return lean_atom(e[1], cx, bound, "field") + "." + e[2]
    if k == "some":
        return "some " + lean_atom(e[1], cx, bound, "app")
    if k == "none":
        return "none"
    if k == "lam":
        return "fun %s => %s" % (" ".join(e[1]), lean_expr(e[2], cx, tuple(bound) + tuple(e[1])))
    if k == "call":                                      # call of a closure held in a variable
        if not (e[1] in cx.params or e[1] in bound):
            raise NotFound("call of " + e[1])
        return e[1] + "".join(" " + lean_atom(a, cx, bound, "app") for a in e[2])
    if k == "pcall":
        path, args = e[1], e[2]
        if path == ["Box", "new"] and len(args) == 1:
            return lean_expr(args[0], cx, bound)
        if len(path) == 2 and (path[0] in TYPES or path[0] == "Self"):
            ty = cx.ty if path[0] == "Self" else path[0]
            if (ty, path[1]) not in cx.methods:
                raise NotFound("call of unknown method %s::%s" % (ty, path[1]))
            cx.calls.add((ty, path[1]))
            return "%s_%s" % (ty, path[1]) + "".join(" " + lean_atom(a, cx, bound, "app") for a in args)
        raise NotFound("call of " + "::".join(path))
    if k == "mcall":
        recv, name, args = e[1], e[2], e[3]
        if name == "as_ref" and not args:
            return lean_expr(recv, cx, bound)
        if name == "map" and len(args) == 1 and args[0][0] == "lam":
            return "Option.map (%s) %s" % (lean_expr(args[0], cx, bound), lean_atom(recv, cx, bound, "app"))
        if name == "unwrap_or" and len(args) == 1:
            return "Option.getD (%s) %s" % (lean_expr(recv, cx, bound), lean_atom(args[0], cx, bound, "app"))
        raise NotFound("method call ." + name)
    if k == "struct":
        ty = cx.ty if e[1] == "Self" else e[1]
        if ty not in cx.structs:
            raise NotFound("struct literal of " + ty)
        known = [f for f, _ in cx.structs[ty]]
        names = [f for f, _ in e[2]]
        if len(set(names)) != len(names) or any(f not in known for f in names):
            raise NotFound("fields of the struct literal of " + ty)
        inits = ", ".join("%s := %s" % (f, lean_expr(v, cx, bound)) for f, v in e[2])
        if e[3] is None:
            if sorted(names) != sorted(known):
                raise NotFound("struct literal of %s does not name every field" % ty)
            return "({ %s } : %s)" % (inits, ty)
        b = e[3]
        if b[0] == "pcall" and b[1] == ["Default", "default"] and not b[2]:
            if (ty, "default") not in cx.methods:
                raise NotFound("Default for " + ty)
            cx.calls.add((ty, "default"))
            return "({ %s_default with %s } : %s)" % (ty, inits, ty)
        raise NotFound("struct base other than Default::default()")
    raise NotFound("expression " + k)


def lean_atom(e, cx, bound, where):
    s = lean_expr(e, cx, bound)
    if e[0] in ("var", "bool", "paren", "none", "field", "str") or (e[0] == "struct"):
        return s
    if where == "and" and e[0] in ("not", "and"):
        return s
    if where == "not" and e[0] == "not":
        return s
    return "(" + s + ")"


# ---------------------------------------------------------------------------------------------------------------------
# items

FIELD_TYPES = [
    (r"bool", "Bool"),
    (r"LayerFilter(?:<'\w+>)?", "LayerFilter"),
    (r"Option<Box<FilterFn(?:<'\w+>)?>>", "Option (List Char → List Char → Bool)"),
]
PARAM_TYPES = [
    (r"bool", "Bool"),
    (r"&str", "List Char"),
    (r"&Path", "List Char"),
    (r"impl Fn\(&str, &Path\) -> bool(?: \+ '\w+)?", "List Char → List Char → Bool"),
]


def map_type(table, text, what):
    text = re.sub(r"\s+", " ", text.strip())
    for pat, lean in table:
        if re.fullmatch(pat, text):
            return lean
    raise NotFound("%s type `%s`" % (what, text))


def split_top(text, sep=","):
    out, depth, cur = [], 0, ""
    for c in text:
        if c in "(<[{":
            depth += 1
        elif c in ")>]}":
            depth -= 1
        if c == sep and depth == 0:
            out.append(cur)
            cur = ""
        else:
            cur += c
    if cur.strip():
        out.append(cur)
    return out


def parse_structs(src):
    if not re.search(r"\btype\s+FilterFn<'\w+>\s*=\s*dyn\s+Fn\(&str,\s*&Path\)\s*->\s*bool\s*\+\s*'\w+\s*;", src):
        raise NotFound("type FilterFn")
    structs = {}
    for m in re.finditer(r"\bstruct\s+(\w+)(?:<[^>]*>)?\s*\{", src):
        name = m.group(1)
        if name not in TYPES:
            raise NotFound("struct " + name)
        end = match_brace(src, m.end() - 1)
        fields = []
        for part in split_top(src[m.end():end - 1]):
            part = re.sub(r"#\[[^\]]*\]", " ", part)
            fm = re.fullmatch(r"\s*(?:pub(?:\([a-z]+\))?\s+)?(\w+)\s*:\s*(.+?)\s*", part, flags=re.S)
            if not fm:
                raise NotFound("field of %s: %s" % (name, part.strip()[:40]))
            fields.append((fm.group(1), map_type(FIELD_TYPES, fm.group(2), "field")))
        structs[name] = fields
    if sorted(structs) != sorted(TYPES):
        raise NotFound("structs found: %s" % sorted(structs))
    return structs


def parse_impls(src):
    """[(type, fn name, params text, return text, body text)] for every fn of every impl block, in source order"""
    fns = []
    pos = 0
    for m in re.finditer(r"\bimpl\b\s*(?:<[^>]*>)?\s*(?:([\w:]+)\s+for\s+)?(\w+)(?:<[^>]*>)?\s*\{", src):
        if m.start() < pos:
            raise NotFound("nested impl")
        trait, ty = m.group(1), m.group(2)
        end = match_brace(src, m.end() - 1)
        pos = end
        if trait is not None and trait.split("::")[-1] == "Debug":
            continue                                      # formatting only
        if ty not in TYPES or trait not in (None, "Default"):
            raise NotFound("impl %s for %s" % (trait, ty))
        block, i = src[m.end():end - 1], 0
        while True:
            fm = re.compile(r"\s*(?:#\[[^\]]*\]\s*)*(pub(?:\([a-z]+\))?\s+)?fn\s+(\w+)\s*\(").match(block, i)
            if not fm:
                if block[i:].strip():
                    raise NotFound("item in impl %s: %s" % (ty, block[i:].strip()[:40]))
                break
            # parameters up to the matching `)`
            depth, j = 1, fm.end()
            while depth:
                depth += {"(": 1, ")": -1}.get(block[j], 0)
                j += 1
            params = block[fm.end():j - 1]
            b = block.index("{", j)
            ret = block[j:b]
            e = match_brace(block, b)
            public = (fm.group(1) or "").strip() == "pub" or trait == "Default"
            fns.append((ty, fm.group(2), params, ret, block[b + 1:e - 1], public))
            i = e
    return fns


def body_statements(body):
    """split a fn body at top-level `;` -> (statements, tail expression text)"""
    parts, depth, cur = [], 0, ""
    for c in body:
        if c in "({[":
            depth += 1
        elif c in ")}]":
            depth -= 1
        if c == ";" and depth == 0:
            parts.append(cur.strip())
            cur = ""
        else:
            cur += c
    return parts, cur.strip()


def translate_fn(ty, name, params, ret, body, structs, methods):
    ps, pnames, has_self = [], [], False
    for p in split_top(params):
        p = re.sub(r"\s+", " ", p.strip())
        if not p:
            continue
        if p in ("self", "mut self", "&self"):
            ps.append("(self : %s)" % ty)
            has_self = True
            continue
        pm = re.fullmatch(r"(\w+) ?: ?(.+)", p)
        if not pm:
            raise NotFound("parameter `%s` of %s::%s" % (p, ty, name))
        ps.append("(%s : %s)" % (pm.group(1), map_type(PARAM_TYPES, pm.group(2), "parameter")))
        pnames.append(pm.group(1))
    rm = re.fullmatch(r"\s*->\s*(\w+)\s*", ret)
    if not rm or rm.group(1) not in ("Self", "bool"):
        raise NotFound("return type of %s::%s" % (ty, name))
    rty = ty if rm.group(1) == "Self" else "Bool"
    cx = Ctx(ty, pnames, structs, methods)
    stmts, tail = body_statements(body)
    lines = []
    for s in stmts:
        am = re.fullmatch(r"self((?:\s*\.\s*\w+)+)\s*=(?!=)\s*(.+)", s, flags=re.S)
        if not (am and has_self and rty == ty):
            raise NotFound("statement of %s::%s: %s" % (ty, name, re.sub(r"\s+", " ", s)[:50]))
        path = [x.strip() for x in am.group(1).split(".") if x.strip()]
        p = Parser(tokenize(am.group(2)))
        val = lean_expr(p.expr(), cx)
        if not p.done():
            raise NotFound("trailing tokens in " + s[:40])
        # check the field path against the struct definitions, build the nested update
        cur_ty, chain = ty, []
        for f in path:
            ft = dict(structs.get(cur_ty, [])).get(f)
            if ft is None:
                raise NotFound("field %s of %s" % (f, cur_ty))
            chain.append(f)
            cur_ty = ft
        upd = val
        for k in range(len(path) - 1, -1, -1):
            owner = "self" + "".join("." + f for f in path[:k])
            upd = "{ %s with %s := %s }" % (owner, path[k], upd)
        lines.append("  let self : %s := %s" % (ty, upd))
    if not tail:
        raise NotFound("%s::%s has no tail expression" % (ty, name))
    p = Parser(tokenize(tail))
    tl = lean_expr(p.expr(), cx)
    if not p.done():
        raise NotFound("trailing tokens in the tail of %s::%s" % (ty, name))
    if stmts and tl != "self":
        raise NotFound("%s::%s: assignments not followed by `self`" % (ty, name))
    lines.append("  " + tl)
    if cx.uses_path_eq:
        ps.insert(0, "(pathEq : List Char → List Char → Bool)")
    head = "def %s_%s %s: %s :=\n" % (ty, name, "".join(p + " " for p in ps), rty)
    return head + "\n".join(lines) + "\n", cx


def generate_body(src):
    cut = src.find("#[cfg(test)]")
    if cut >= 0:
        src = src[:cut]
    structs = parse_structs(src)
    fns = parse_impls(src)
    methods = {(ty, n) for ty, n, *_ in fns}
    if len(methods) != len(fns):
        raise NotFound("a method is defined twice")
    defs, deps, uses_eq = {}, {}, {}
    for ty, n, params, ret, body, _ in fns:
        text, cx = translate_fn(ty, n, params, ret, body, structs, methods)
        defs[(ty, n)], deps[(ty, n)], uses_eq[(ty, n)] = text, cx.calls, cx.uses_path_eq
    for k, ds in deps.items():
        if any(uses_eq[d] for d in ds):
            raise NotFound("a method calls one that compares paths")
    # definitions in dependency order (stable with respect to the source order)
    order, done = [], set()
    keys = [(ty, n) for ty, n, *_ in fns]
    while len(order) < len(keys):
        ready = [k for k in keys if k not in done and deps[k] <= done]
        if not ready:
            raise NotFound("cyclic method calls")
        order.append(ready[0])
        done.add(ready[0])
    out = []
    for ty in TYPES:                                      # LayerFilter first: DataRequest has a field of that type
        out.append("structure %s where\n%s" % (ty, "".join("  %s : %s\n" % fl for fl in structs[ty])))
    out.append("/-- every method of the two types that was translated below: (type, method), sorted -/\n"
               "def methodNames : List (String × String) :=\n  [" +
               ", ".join('("%s", "%s")' % k for k in sorted(keys)) + "]\n")
    builders = sorted(n for ty, n, _, ret, _, public in fns
                      if ty == "DataRequest" and public and re.fullmatch(r"\s*->\s*Self\s*", ret))
    out.append("/-- the PUBLIC methods of `DataRequest` that return a request (constructors, `Default`, builders), sorted -/\n"
               "def publicBuilders : List String :=\n  [" + ", ".join('"%s"' % n for n in builders) + "]\n")
    for k in order:
        out.append(defs[k])
    return "\n".join(out)


HEADER = """/-!
GENERATED by tools/extract_data_request.py from norad's src/data_request.rs on every `./check C17` run.  Do not edit.
The two structs and every method of `DataRequest` / `LayerFilter`, statement by statement as the Rust has them now
(`Path == Path` is the parameter `pathEq`).  A pinned copy lives in tools/pinned/DataRequest.lean and is used when the
source has a shape the translator does not know (a refactor is not an alarm).  Core Lean only.
-/
namespace Generated.DataRequest

"""


def generate(repo):
    try:
        src = strip_comments(open(os.path.join(repo, "src", "data_request.rs")).read())
        return HEADER + generate_body(src) + "\nend Generated.DataRequest\n", None
    except (NotFound, OSError, IndexError, ValueError, AssertionError) as ex:
        if not os.path.exists(PINNED):
            raise
        return open(PINNED).read(), str(ex)


def run():
    repo = os.environ.get("VERIF_REPO", "/repo").rstrip("/") or "/repo"
    text, why = generate(repo)
    old = open(OUT).read() if os.path.exists(OUT) else None
    if old != text:
        with open(OUT, "w") as f:
            f.write(text)
    ptext = open(PINNED).read() if os.path.exists(PINNED) else None
    return {"extraction": "pinned" if why else "full", "pinned_sections": [why] if why else [], "source": repo,
            "changed_since_last_run": old != text, "differs_from_pinned_copy": ptext is not None and ptext != text,
            "table": os.path.relpath(OUT, ROOT)}


if __name__ == "__main__":
    r = run()
    print(r)
    if len(sys.argv) > 1 and sys.argv[1] == "--pin":
        import shutil
        os.makedirs(os.path.dirname(PINNED), exist_ok=True)
        shutil.copy(OUT, PINNED)
        print("pinned")
