#!/bin/bash
# usage: tools/seedbatch.sh <logfile> Cxx:demo-name-pattern ...   e.g. C16:c16_demo_%k
# runs tools/seedtest.sh for out/1..3 of each /tmp/seed/Cxx and logs a summary
LOG=$1; shift
for spec in "$@"; do
  P=${spec%%:*}; PAT=${spec#*:}
  for k in 1 2 3; do
    D=${PAT//%k/$k}
    echo "===== $P seed $k ($D)" >> "$LOG"
    /verif/tools/seedtest.sh /tmp/seed/$P/out/$k "$D" $P 2>&1 | grep -E "^--- demo|test result|VIOLATION|^\[$P\]|PATCH|error" | grep -v "155 passed\|19 passed\|5 passed; 0 failed" | cut -c1-260 >> "$LOG"
  done
done
echo "BATCH DONE" >> "$LOG"
