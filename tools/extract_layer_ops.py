"""Translator for the container operations of src/layer.rs (C06, container level of C07): regenerates
lean/Norad/Generated/LayerOps.lean on every run.

Three sections, each with its own pinned fallback (tools/pinned/LayerOps.lean):
  consts   DEFAULT_LAYER_NAME, DEFAULT_GLYPHS_DIRNAME
  guards   the `if c1 { Err(NamingError::E1) } else if c2 { Err(..) } .. else { let name = Name::new(..)?; .. }` chains of
           `LayerContents::new_layer`, `LayerContents::rename_layer` and `Layer::rename_glyph`, in source order; each
           condition must be one of the known condition texts (an atom of `Layers.Atom`), otherwise the section falls back
  touches  per mutating method the set of `<index>.<mutator>` calls it makes on the redundant indices
           (`glyphs`, `contents`, `path_set`, `layers`), calls to other methods of the same type followed
           (`self.remove_glyph(..)`, `self.insert_glyph(..)`, `self.remove(..)`, `self.new_layer(..)`, `self.retain(..)`),
           and whether `LayerContents::retain` protects the default layer
  decides  which index (`contents` / `glyphs`) `Layer::insert_glyph` asks before it assigns a file name (whole body must
           have the known shape), and the `let path_set = <src>.iter().skip(<n>).map(|..| ..path.to_string_lossy()
           .to_lowercase()).collect();` statement of `LayerContents::load`: its source collection, the skip count and
           whether it stands after `layers.insert(0, default_layer);`

The property file proves that the model's operations return an error exactly as the extracted chains say
(`source_newLayer_guards`, `source_renameLayer_guards`, `source_renameGlyph_guards`) and that the extracted update table is
the model's (`source_index_updates_match_model`).  A missing anchor or an unknown condition never alarms: pinned copy.
"""
import os, re, sys

ROOT = os.path.dirname(os.path.dirname(os.path.abspath(__file__)))
REPO = os.environ.get("VERIF_REPO", "/repo").rstrip("/") or "/repo"
GEN = os.path.join(ROOT, "lean", "Norad", "Generated", "LayerOps.lean")
PINNED = os.path.join(ROOT, "tools", "pinned", "LayerOps.lean")


class Anchor(Exception):
    pass


ERR = {"ReservedName": ".reserved", "Duplicate": ".duplicate", "Missing": ".missing", "Invalid": ".invalid"}

# known condition texts (whitespace removed) -> atom
ATOMS = {
    "new_layer": {
        "name==DEFAULT_LAYER_NAME": "nameIsDefault",
        "self.layers.iter().any(|l|l.name==name)": "nameExists",
    },
    "rename_layer": {
        "!overwrite&&self.get(new).is_some()": "newExistsNoOverwrite",
        "self.get(old).is_none()": "oldMissing",
        "new==DEFAULT_LAYER_NAME&&self.layers[0].name!=old": "newIsDefaultHeadNotOld",
        "self.layers[0].name==new&&self.layers[0].name!=old": "headIsNewNotOld",
    },
    "rename_glyph": {
        "!overwrite&&self.glyphs.contains_key(new)": "glyphNewExistsNoOverwrite",
        "!self.glyphs.contains_key(old)": "glyphOldMissing",
    },
}
NAME_NEW = [r"letname=Name::new\((\w+)\)\.map_err\(\|_\|NamingError::Invalid\(\1\.into\(\)\)\)\?;", r"letname=Name::new\((\w+)\)\?;"]


def strip_comments(t):
    t = re.sub(r"//[^\n]*", "", t)
    return t


def block_at(src, i):
    """(text inside the braces, index after the closing brace) of the block whose '{' is the first at or after i"""
    i = src.index("{", i)
    d, j = 0, i
    while True:
        c = src[j]
        if c == "{":
            d += 1
        elif c == "}":
            d -= 1
            if d == 0:
                return src[i + 1:j], j + 1
        j += 1


def impl_block(src, header_re):
    m = re.search(header_re, src, flags=re.M)
    if not m:
        raise Anchor("impl block " + header_re)
    return block_at(src, m.start())[0]


def fn_body(impl, name):
    m = re.search(r"\bfn " + name + r"\s*(<[^>]*>)?\s*\(", impl)
    if not m:
        raise Anchor("fn " + name)
    # skip the signature: the body is the first '{' after the closing parenthesis of the parameter list
    i = impl.index("(", m.start())
    d = 0
    while True:
        c = impl[i]
        if c == "(":
            d += 1
        elif c == ")":
            d -= 1
            if d == 0:
                break
        i += 1
    return block_at(impl, i)[0]


def guard_chain(body, fn):
    """[(atom, err)] of the leading if / else-if chain, then the position of the Name::new validity test"""
    t = strip_comments(body).strip()
    out = []
    pos = 0
    first = True
    while True:
        m = re.match(r"\s*(else\s+)?if\s+", t[pos:]) if not first else re.match(r"\s*if\s+", t[pos:])
        if not m:
            break
        first = False
        cstart = pos + m.end()
        cend = t.index("{", cstart)
        cond = re.sub(r"\s+", "", t[cstart:cend])
        blk, after = block_at(t, cend)
        bm = re.fullmatch(r"\s*Err\(NamingError::(\w+)(\(.*\))?\)\s*", blk, flags=re.S)
        if not bm:
            raise Anchor("%s: guard block is not a plain Err(NamingError::..): %s" % (fn, blk.strip()[:50]))
        atom = ATOMS[fn].get(cond)
        if atom is None:
            raise Anchor("%s: unknown condition %s" % (fn, cond))
        out.append((atom, ERR[bm.group(1)]))
        pos = after
    m = re.match(r"\s*else\s*", t[pos:])
    if not m:
        raise Anchor("%s: no final else" % fn)
    blk, end = block_at(t, pos + m.end())
    if t[end:].strip():
        # a translator must never ignore a statement
        raise Anchor("%s: statements after the guard chain: %s" % (fn, t[end:].strip()[:60]))
    flat = re.sub(r"\s+", "", blk)
    if not any(re.match(p, flat) for p in NAME_NEW):
        raise Anchor("%s: the else branch does not start with the Name::new validity test" % fn)
    out.append(("invalidName", ".invalid"))
    return out


MUT = r"\b(?:self\.)?(glyphs|contents|path_set|layers)\.(insert|remove|clear|retain|push)\("
CALLS = {"Layer": ["remove_glyph", "insert_glyph", "clear", "retain"],
         "LayerContents": ["remove", "new_layer", "retain"]}


def touches(impl, typ, fns):
    """index mutations per public method, calls to ANY method defined in the same impl followed transitively (a
    refactor that moves an update into a private helper - `remove_at`, `assign_file_name` - keeps the table);
    an index handed out as `&mut self.<index>` to something that is not followed is an unknown shape"""
    impl_fns = set(re.findall(r"\bfn\s+([a-z_][a-z0-9_]*)", impl))
    direct, calls = {}, {}

    def scan(f):
        if f in direct:
            return
        b = strip_comments(fn_body(impl, f))
        direct[f] = set("%s.%s" % (a, b_) for a, b_ in re.findall(MUT, b))
        # an index replaced wholesale is a mutation too (`self.path_set = ..`, `mem::take(&mut self.contents)`)
        direct[f] |= set("%s.assign" % a for a in re.findall(r"\bself\.(glyphs|contents|path_set|layers)\s*=[^=]", b))
        direct[f] |= set("%s.assign" % a for a in
                         re.findall(r"mem::(?:take|replace|swap)\(\s*&mut\s+self\.(glyphs|contents|path_set|layers)", b))
        # a local alias of the same name (`let path_set = &mut self.path_set;`) is read by MUT; an element borrow is no hand-out
        b2 = re.sub(r"let\s+(glyphs|contents|path_set|layers)\s*=\s*&mut\s+self\.\1\s*;", "", b)
        b2 = re.sub(r"mem::(?:take|replace|swap)\(\s*&mut\s+self\.(?:glyphs|contents|path_set|layers)", "", b2)
        handed = re.findall(r"&mut\s+self\.(glyphs|contents|path_set|layers)\b(?![.\[])", b2)
        if handed:
            raise Anchor("%s: &mut self.%s handed to a function the translator does not follow" % (f, handed[0]))
        # a mutator of an index the table has no word for (`contents.entry(..)` + `slot.insert`, `drain`, `extend`, ...) is an unknown shape
        odd = re.findall(r"\b(?:self\.)?(glyphs|contents|path_set|layers)\.(entry|drain|extend|append|split_off|pop|truncate|swap_remove|retain_mut|pop_first|pop_last)\(", b)
        if odd and f != "entry":
            raise Anchor("%s: %s.%s(..) is not a mutator the translator knows" % (f, odd[0][0], odd[0][1]))
        calls[f] = set(c for c in impl_fns if c != f and re.search(r"\b(?:self\.|Self::)" + c + r"\(", b))
        for c in calls[f]:
            scan(c)

    for f in fns:
        scan(f)
    # closure over calls to other methods of the same type
    changed = True
    while changed:
        changed = False
        for f in list(direct):
            for c in calls[f]:
                if not direct[c] <= direct[f]:
                    direct[f] |= direct[c]
                    changed = True
    return {f: sorted(direct[f]) for f in fns}


def section_consts(src):
    out = []
    for c in ("DEFAULT_LAYER_NAME", "DEFAULT_GLYPHS_DIRNAME"):
        m = re.search(r"static " + c + r": &str = \"([^\"\\]*)\";", src)
        if not m:
            raise Anchor("const " + c)
        out.append((c, m.group(1)))
    return ["def defaultLayerName : List Char := \"%s\".toList" % out[0][1],
            "def defaultGlyphsDir : List Char := \"%s\".toList" % out[1][1]]


def section_guards(src):
    lc = impl_block(src, r"^impl LayerContents \{")
    ly = impl_block(src, r"^impl Layer \{")
    lines = []
    for lean_name, impl, fn in (("newLayerGuards", lc, "new_layer"), ("renameLayerGuards", lc, "rename_layer"),
                                ("renameGlyphGuards", ly, "rename_glyph")):
        ch = guard_chain(fn_body(impl, fn), fn)
        lines.append("def %s : List (Layers.Atom × Layers.NErr) :=" % lean_name)
        lines.append("  [" + ", ".join("(.%s, %s)" % (a, e) for a, e in ch) + "]")
    return lines


def section_touches(src):
    lc = impl_block(src, r"^impl LayerContents \{")
    ly = impl_block(src, r"^impl Layer \{")
    t1 = touches(ly, "Layer", ["insert_glyph", "remove_glyph", "rename_glyph", "clear", "retain"])
    t2 = touches(lc, "LayerContents", ["new_layer", "remove", "rename_layer", "retain", "remove_empty_layers"])
    # `Layer::entry` hands out the glyph map only
    eb = re.sub(r"\s+", "", strip_comments(fn_body(ly, "entry")))
    em = re.fullmatch(r"self\.(\w+)\.entry\(glyph\)", eb)
    if not em:
        raise Anchor("Layer::entry body")
    rb = re.sub(r"\s+", "", strip_comments(fn_body(lc, "retain")))
    protects = "layer.is_default()||predicate(layer)" in rb or "l.is_default()||predicate(l)" in rb
    rows = [("Layer." + f, v) for f, v in t1.items()] + [("Layer.entry", [em.group(1) + ".entry"])] + \
           [("LayerContents." + f, v) for f, v in t2.items()]
    lines = ["def touches : List (String × List String) :="]
    lines.append("  [" + ",\n   ".join("(\"%s\", [%s])" % (f, ", ".join("\"%s\"" % x for x in v)) for f, v in rows) + "]")
    lines.append("def retainProtectsDefault : Bool := %s" % ("true" if protects else "false"))
    return lines


INSERT_GLYPH = (r"letglyph=glyph\.into\(\);if!self\.(glyphs|contents)\.contains_key\(&glyph\.name\)\{"
                r"letpath=crate::util::default_file_name_for_glyph_name\(&glyph\.name,&self\.path_set\);"
                r"self\.path_set\.insert\(path\.to_string_lossy\(\)\.to_lowercase\(\)\);"
                r"self\.contents\.insert\(glyph\.name\.clone\(\),path\);\}"
                r"self\.glyphs\.insert\(glyph\.name\.clone\(\),glyph\);")
LOAD_PATH_SET = (r"letpath_set(?::[^=;]*)?=(\w+)\.iter\(\)\.skip\((\d+)\)"
                 r"\.map\(\|[^|]*\|(?:\w+\.)?path\.to_string_lossy\(\)\.to_lowercase\(\)\)\.collect\(\);")


def section_decides(src):
    """two decisions the histories depend on: which index `insert_glyph` asks whether the name needs a file name, and
    from which collection / after which statement `LayerContents::load` builds the path set"""
    ly = impl_block(src, r"^impl Layer \{")
    lc = impl_block(src, r"^impl LayerContents \{")
    b = re.sub(r"\s+", "", strip_comments(fn_body(ly, "insert_glyph")))
    m = re.fullmatch(INSERT_GLYPH, b)
    if not m:
        raise Anchor("insert_glyph: unknown shape")
    idx = m.group(1)
    b = re.sub(r"\s+", "", strip_comments(fn_body(lc, "load")))
    mv = b.find("layers.insert(0,default_layer);")
    ms = list(re.finditer(LOAD_PATH_SET, b))
    if mv < 0 or len(ms) != 1:
        raise Anchor("load: the move of the default layer or the path_set statement has an unknown shape")
    # nothing else may touch the path set, and the function must end by handing both over
    if len(re.findall(r"path_set", b)) != 2 or not b.endswith("Ok(LayerContents{layers,path_set})"):
        raise Anchor("load: other uses of path_set")
    after = ms[0].start() > mv
    return ["def insertGlyphDecidesBy : Layers.Index := .%s" % idx,
            "def loadPathSet : Layers.LoadPathSet := { source := \"%s\", skip := %s, afterDefaultMove := %s }"
            % (ms[0].group(1), int(ms[0].group(2)), "true" if after else "false")]


SECTIONS = [("consts", section_consts), ("guards", section_guards), ("touches", section_touches),
            ("decides", section_decides)]


def pinned_section(name):
    if not os.path.exists(PINNED):
        return None
    s = open(PINNED).read()
    a, b = "-- BEGIN %s\n" % name, "-- END %s\n" % name
    if a in s and b in s:
        return s[s.index(a) + len(a):s.index(b)].rstrip("\n").split("\n")
    return None


def generate():
    fell = {}
    try:
        src = open(os.path.join(REPO, "src", "layer.rs")).read()
    except OSError as e:
        src = None
        fell = {n: "layer.rs unreadable: %s" % e for n, _ in SECTIONS}
    out = ["import Norad.Spec.LayerGuards",
           "/-! GENERATED by tools/extract_layer_ops.py from src/layer.rs — do not edit. -/",
           "namespace Generated.LayerOps", ""]
    for name, fn in SECTIONS:
        body = None
        if src is not None:
            try:
                body = fn(src)
            except (Anchor, ValueError, KeyError, IndexError) as e:
                fell[name] = str(e)
        if body is None:
            body = pinned_section(name)
            if body is None:
                raise Anchor("section %s: no extraction and no pinned copy (%s)" % (name, fell.get(name)))
        out.append("-- BEGIN %s" % name)
        out += body
        out.append("-- END %s" % name)
        out.append("")
    out.append("end Generated.LayerOps")
    return "\n".join(out) + "\n", fell


def run():
    text, fell = generate()
    old = open(GEN).read() if os.path.exists(GEN) else None
    if old != text:
        os.makedirs(os.path.dirname(GEN), exist_ok=True)
        open(GEN, "w").write(text)
    ptext = open(PINNED).read() if os.path.exists(PINNED) else None
    return {"extraction": "pinned" if fell else "full", "pinned_sections": fell, "source": REPO,
            "changed_since_last_run": old != text, "differs_from_pinned_copy": ptext is not None and ptext != text,
            "table": os.path.relpath(GEN, ROOT)}


if __name__ == "__main__":
    r = run()
    print(r)
    if "--pin" in sys.argv and r["extraction"] == "full":
        os.makedirs(os.path.dirname(PINNED), exist_ok=True)
        open(PINNED, "w").write(open(GEN).read())
        print("pinned")
