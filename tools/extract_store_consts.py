#!/usr/bin/env python3
"""C16: pull the table-shaped part of the data/image stores out of norad's src/datastore.rs and src/font.rs and
regenerate lean/Norad/Generated/StoreConsts.lean (DESIGN 3.5).

Sections (each falls back to the committed pinned copy tools/pinned/StoreConsts.lean when its anchor in the source
is not found - a refactor is never an alarm; the result then says `extraction: pinned`):

  pngSignature   the byte list of `data.starts_with(&[137u8, 80, ...])` in the code `<Image as DataType>::validate_entry`
                 executes: its own body, or the sibling method it ends in (`self.validate_contents(data)`), one level
  storeDirs      static DATA_DIR: &str = "data";  static IMAGES_DIR: &str = "images";   (src/font.rs)
  dataClauses    the `StoreError::X` variants returned by `<Data as DataType>::validate_entry` (and by the sibling method
                 it ends in, one level), in source order; any other shape of the function (a tail that is neither
                 `Ok(())` nor one sibling call, nested delegation) is an unknown shape -> pinned copy
  imageClauses   the same for `<Image as DataType>::validate_entry`
  forceLoop      does the pre-write loop of `save_impl` visit BOTH stores
                 (`for (..) in self.data.iter().chain(self.images.iter())`)?

The tie theorems of Norad/Props/C16.lean (`source_*`, by `decide`) compare these with the constants of the model,
i.e. they are about what the code says NOW.  The clause lists are compared as sets (the order of independent early
returns is not part of the property).
"""
import os
import re
import sys

ROOT = os.path.dirname(os.path.dirname(os.path.abspath(__file__)))
OUT = os.path.join(ROOT, "lean", "Norad", "Generated", "StoreConsts.lean")
PINNED = os.path.join(ROOT, "tools", "pinned", "StoreConsts.lean")


class NotFound(Exception):
    pass


def strip_comments(src):
    src = re.sub(r"/\*.*?\*/", "", src, flags=re.S)
    return re.sub(r"//[^\n]*", "", src)


def block_after(src, start):
    """the brace block that opens at or after `start`"""
    i = src.find("{", start)
    if i < 0:
        raise NotFound("block")
    depth, j = 1, i + 1
    while depth and j < len(src):
        depth += {"{": 1, "}": -1}.get(src[j], 0)
        j += 1
    if depth:
        raise NotFound("block")
    return src[i:j]


def impl_block(src, kind):
    m = re.search(r"\bimpl\s+DataType\s+for\s+" + kind + r"\b", src)
    if not m:
        raise NotFound("impl DataType for " + kind)
    return block_after(src, m.end())


def fn_block(src, name):
    m = re.search(r"\bfn\s+" + re.escape(name) + r"\b", src)
    if not m:
        raise NotFound("fn " + name)
    return block_after(src, m.end())


def lean_str(s):
    if not re.fullmatch(r"[A-Za-z0-9_.\-]*", s):
        raise NotFound("unexpected characters in literal")
    return "[" + ", ".join("'" + c + "'" for c in s) + "]"


def tail_expr(body):
    """the tail expression of a brace block (text after the last `;` or `}` at depth 1)"""
    inner = body[1:-1]
    depth, last = 0, 0
    for i, c in enumerate(inner):
        if c in "{([":
            depth += 1
        elif c in "})]":
            depth -= 1
            if depth == 0 and c == "}":
                last = i + 1
        elif c == ";" and depth == 0:
            last = i + 1
    return inner[last:].strip()


def entry_bodies(ds, kind):
    """The code `validate_entry` of `kind` executes, as a list of blocks: its own body and - when it ends in a
    call of another method of the same impl block (`self.validate_contents(data)`) - that method's body.
    The known shape is: early returns, then `Ok(())` or exactly one such tail call whose target ends in `Ok(())`.
    Anything else is an unknown shape (-> pinned copy)."""
    impl = impl_block(ds, kind)
    body = fn_block(impl, "validate_entry")
    out = [body]
    tail = tail_expr(body)
    if re.fullmatch(r"Ok\(\s*\(\s*\)\s*\)", tail):
        return out
    m = re.fullmatch(r"self\s*\.\s*(\w+)\s*\([^()]*\)", tail)
    if not m or m.group(1) == "validate_entry":
        raise NotFound("tail of %s::validate_entry is neither Ok(()) nor a call of a sibling method" % kind)
    callee = fn_block(impl, m.group(1))
    if not re.fullmatch(r"Ok\(\s*\(\s*\)\s*\)", tail_expr(callee)):
        raise NotFound("tail of %s::%s is not Ok(())" % (kind, m.group(1)))
    # no further delegation inside the blocks (a deeper call chain is an unknown shape)
    for b in (body[: body.rfind(tail)], callee):
        if re.search(r"\bself\s*\.\s*\w+\s*\(", b):
            raise NotFound("nested method calls in %s::validate_entry" % kind)
    out.append(callee)
    return out


def sec_png(ds, ft):
    found = []
    for body in entry_bodies(ds, "Image"):
        found += re.findall(r"\.starts_with\(\s*&\[([^\]]*)\]\s*\)", body)
    if len(found) != 1:
        raise NotFound("exactly one starts_with(&[..]) in the code Image::validate_entry executes")
    nums = []
    for tok in found[0].split(","):
        tok = tok.strip()
        if not tok:
            continue
        mm = re.fullmatch(r"(0x[0-9a-fA-F_]+|[0-9_]+)(u8)?", tok)
        if not mm:
            raise NotFound("byte literal " + tok)
        v = int(mm.group(1).replace("_", ""), 0)
        if not 0 <= v < 256:
            raise NotFound("byte literal " + tok)
        nums.append(v)
    if not nums:
        raise NotFound("empty signature")
    return "def pngSignature : List UInt8 := [" + ", ".join(str(n) for n in nums) + "]\n"


def sec_dirs(ds, ft):
    out = []
    for const, lean_name in (("DATA_DIR", "dataDir"), ("IMAGES_DIR", "imagesDir")):
        m = re.search(r"\b(?:static|const)\s+" + const + r"\s*:\s*&(?:'static\s+)?str\s*=\s*\"([^\"\\]*)\"\s*;", ft)
        if not m:
            raise NotFound(const)
        out.append("def %s : List Char := %s\n" % (lean_name, lean_str(m.group(1))))
    return "".join(out)


def sec_clauses(kind, lean_name):
    def f(ds, ft):
        vs = []
        for body in entry_bodies(ds, kind):
            vs += re.findall(r"Err\(\s*StoreError::(\w+)", body)
        if not vs:
            raise NotFound("no StoreError variant in " + kind + "::validate_entry")
        return ("def %s : List (List Char) :=\n  [" % lean_name) + ",\n   ".join(lean_str(v) for v in vs) + "]\n"
    return f


def sec_force(ds, ft):
    body = fn_block(ft, "save_impl")
    loops = re.findall(r"\bfor\s*\([^)]*\)\s*in\s*([^{]*)\{", body)
    # the pre-write loop is the first loop over a store iterator, before the first file-system effect
    cut = len(body)
    for marker in ("remove_dir_all", "create_dir("):
        k = body.find(marker)
        if k >= 0:
            cut = min(cut, k)
    pre = body[:cut]
    m = re.search(r"\bfor\s*\([^)]*\)\s*in\s*([^{]*)\{", pre)
    if not m:
        raise NotFound("pre-write loop over the stores in save_impl")
    it = re.sub(r"\s+", "", m.group(1))
    data = "self.data.iter()" in it
    images = "self.images.iter()" in it
    if not (data or images):
        raise NotFound("pre-write loop does not name a store iterator")
    both = data and images
    return ("/-- the loop before the wipe visits the data store -/\ndef forceLoopVisitsData : Bool := %s\n"
            "/-- the loop before the wipe visits the image store -/\ndef forceLoopVisitsImages : Bool := %s\n"
            % (str(data).lower(), str(images).lower()))


SECTIONS = [("pngSignature", sec_png), ("storeDirs", sec_dirs),
            ("dataClauses", sec_clauses("Data", "dataClauses")),
            ("imageClauses", sec_clauses("Image", "imageClauses")), ("forceLoop", sec_force)]

HEADER = """/-!
GENERATED by tools/extract_store_consts.py from norad's src/datastore.rs and src/font.rs on every `./check C16`
run.  Do not edit.  A pinned copy of every section lives in tools/pinned/StoreConsts.lean and is used for a section
whose anchor in the source is not found (a refactor is not an alarm).  Core Lean only.
-/
namespace Generated.StoreConsts

"""


def split_sections(text):
    out = {}
    for m in re.finditer(r"-- BEGIN (\w+)\n(.*?)-- END \1\n", text, flags=re.S):
        out[m.group(1)] = m.group(2)
    return out


def generate(repo):
    pinned = split_sections(open(PINNED).read()) if os.path.exists(PINNED) else {}
    err = None
    try:
        ds = strip_comments(open(os.path.join(repo, "src", "datastore.rs")).read())
        ft = strip_comments(open(os.path.join(repo, "src", "font.rs")).read())
    except OSError as ex:
        ds = ft = None
        err = ex
    parts, fell_back = [], []
    for name, f in SECTIONS:
        try:
            if ds is None:
                raise NotFound(str(err))
            body = f(ds, ft)
        except (NotFound, IndexError, ValueError) as ex:
            if name not in pinned:
                raise
            body = pinned[name]
            fell_back.append("%s (%s)" % (name, ex))
        parts.append("-- BEGIN %s\n%s-- END %s\n" % (name, body, name))
    return HEADER + "\n".join(parts) + "\nend Generated.StoreConsts\n", fell_back


def run():
    repo = os.environ.get("VERIF_REPO", "/repo").rstrip("/") or "/repo"
    text, fell_back = generate(repo)
    old = open(OUT).read() if os.path.exists(OUT) else None
    if old != text:
        with open(OUT, "w") as f:
            f.write(text)
    ptext = open(PINNED).read() if os.path.exists(PINNED) else None
    return {"extraction": "pinned" if fell_back else "full", "pinned_sections": fell_back, "source": repo,
            "changed_since_last_run": old != text, "differs_from_pinned_copy": ptext is not None and ptext != text,
            "table": os.path.relpath(OUT, ROOT)}


if __name__ == "__main__":
    r = run()
    print(r)
    if len(sys.argv) > 1 and sys.argv[1] == "--pin":
        import shutil
        os.makedirs(os.path.dirname(PINNED), exist_ok=True)
        shutil.copy(OUT, PINNED)
        print("pinned")
