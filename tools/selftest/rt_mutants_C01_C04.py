#!/usr/bin/env python3
"""self-test: apply each mutant to /tmp/rw/rt-mut, run cargo test, run the checks, restore."""
import subprocess, sys, os, re
MUT="/tmp/rw/rt-mut"; VW="/tmp/vw/rt"; LOG="/tmp/vw/rt-mutlog"
def rep(path, old, new, count=1):
    p=os.path.join(MUT,path); s=open(p).read()
    assert old in s, (path, old)
    open(p,"w").write(s.replace(old,new,count))
M={}
M["m01-kerning-gate"]=lambda: rep("src/font.rs","if !self.kerning.is_empty() {","if self.kerning.len() > 1 {")
M["m02-rename-one-side"]=lambda: rep("src/fontinfo.rs","    /// Year that the font was created (year).\n    pub year: Option<Integer>,","    /// Year that the font was created (year).\n    #[serde(rename(serialize = \"Year\"))]\n    pub year: Option<Integer>,")
M["m03-guideline-libs-not-restored"]=lambda: rep("src/fontinfo.rs","                        guideline.lib = Some(lib);","                        if lib.len() < 2 {\n                            guideline.lib = Some(lib);\n                        }")
M["m04-layer-order-on-save"]=lambda: rep("src/font.rs","            self.layers.iter().map(|l| (l.name.as_ref(), &l.path)).collect();\n","            self.layers.iter().map(|l| (l.name.as_ref(), &l.path)).collect();\n        let mut contents = contents;\n        if contents.len() > 2 {\n            contents[1..].reverse();\n        }\n")
M["m05-kerning-trunc-reverted"]=lambda: rep("src/kerning.rs","map.serialize_entry(k, &(rounded as i32))?;","map.serialize_entry(k, &(*v as i32))?;")
M["m06-lone-cr-normalised"]=lambda: rep("src/font.rs",'self.features.replace("\\r\\n", "\\n"))','self.features.replace("\\r\\n", "\\n").replace(\'\\r\', "\\n"))')
M["m07-creator-override-dropped"]=lambda: rep("src/font.rs","        if self.meta.creator == Some(DEFAULT_METAINFO_CREATOR.into()) {","        if self.meta.creator.is_some() {")
M["m08-layerinfo-gate"]=lambda: rep("src/layer.rs","        if self.color.is_none() && self.lib.is_empty() {","        if self.color.is_none() || self.lib.is_empty() {")
M["m09-fontinfo-range-reverted"]=lambda: rep("src/fontinfo.rs","            if self.0.fract().abs() <= f64::EPSILON && fits_i32 {","            if self.0.fract().abs() <= f64::EPSILON {")
M["m10-default-layer-rotate"]=lambda: rep("src/layer.rs","        let default_layer = layers.remove(default_idx);\n        layers.insert(0, default_layer);","        layers.rotate_left(default_idx);")
M["m11-harmless-rewrite"]=lambda: (rep("src/kerning.rs","if (v - rounded).abs() < f64::EPSILON && fits_i32 {","if fits_i32 && (rounded - v).abs() < f64::EPSILON {"), rep("src/font.rs","            if self.features.as_bytes().contains(&b'\\r') {","            if self.features.contains('\\r') {"))
M["m12-version-not-forced"]=lambda: rep("src/font.rs","        meta.format_version = FormatVersion::V3;\n\n        Ok(Font {","        if meta.format_version == FormatVersion::V1 {\n            meta.format_version = FormatVersion::V3;\n        }\n\n        Ok(Font {")
M["m13-anchor-colour-dropped-with-id"]=lambda: rep("src/glyph/serialize.rs","        if let Some(color) = &self.color {\n            start.push_attribute((\"color\", color.to_rgba_string().as_str()));\n        }\n\n        if let Some(id) = &self.identifier {\n            start.push_attribute((\"identifier\", id.as_str()));\n        }\n\n        Event::Empty(start)\n    }\n}\n\nimpl Component {","        if let (Some(color), None) = (&self.color, &self.identifier) {\n            start.push_attribute((\"color\", color.to_rgba_string().as_str()));\n        }\n\n        if let Some(id) = &self.identifier {\n            start.push_attribute((\"identifier\", id.as_str()));\n        }\n\n        Event::Empty(start)\n    }\n}\n\nimpl Component {")
M["m14-upm-strict-to-nonstrict-harmless"]=lambda: rep("src/fontinfo.rs","        self.0.fract().abs() < f64::EPSILON","        !(self.0.fract().abs() >= f64::EPSILON)")
M["m15-sort-keys-dropped-dup-objectlibs"]=lambda: rep("src/fontinfo.rs","                    object_libs.insert(id.unwrap(), plist::Value::Dictionary(lib.clone()));","                    if object_libs.is_empty() {\n                        object_libs.insert(id.unwrap(), plist::Value::Dictionary(lib.clone()));\n                    }")
M["m16-features-trimmed-on-load"]=lambda: rep("src/font.rs","    let features = fs::read_to_string(features_path).map_err(FontLoadError::FeatureFile)?;\n    Ok(features)","    let features = fs::read_to_string(features_path).map_err(FontLoadError::FeatureFile)?;\n    Ok(features.trim_end_matches(' ').to_string())")
M["m17-guideline-angle-zero-skipped"]=lambda: rep("src/glyph/serialize.rs","        if let Some(angle) = angle {\n            start.push_attribute((\"angle\", angle.to_string().as_str()));","        if let Some(angle) = angle.filter(|a| *a != 0.0) {\n            start.push_attribute((\"angle\", angle.to_string().as_str()));")
M["m18-negative-yxscale-dropped"]=lambda: rep("src/glyph/serialize.rs","    if transform.yx_scale != 0.0 {","    if transform.yx_scale > 0.0 {")
names=sys.argv[1:] or sorted(M)
for n in names:
    subprocess.run(["git","checkout","--","."],cwd=MUT,check=True)
    M[n]()
    t=subprocess.run(["cargo","test","--offline"],cwd=MUT,stdout=subprocess.PIPE,stderr=subprocess.STDOUT,text=True,env=dict(os.environ,CARGO_NET_OFFLINE="true"))
    tests="tests-pass" if t.returncode==0 else "TESTS-FAIL"
    res=[]
    props = ("C04",) if n[:3] in ("m10","m12","m13","m16","m17","m18") else (("C01","C04") if n[:3] in ("m11",) else ("C01",))
    for prop in props:
        r=subprocess.run(["./check",prop,"--tier","quick"],cwd=VW,stdout=subprocess.PIPE,stderr=subprocess.STDOUT,text=True,env=dict(os.environ,VERIF_REPO=MUT))
        open(f"{LOG}/{n}-{prop}.log","w").write(r.stdout)
        v=[l for l in r.stdout.splitlines() if l.startswith("VIOLATION")]
        summ=[l for l in r.stdout.splitlines() if l.startswith("["+prop+"]")]
        res.append(f"{prop}: exit={r.returncode} violations={len(v)} {summ[-1] if summ else ''}")
    line=f"{n}: {tests} | "+" | ".join(res)
    print(line,flush=True)
    open(f"{LOG}/summary.txt","a").write(line+"\n")
subprocess.run(["git","checkout","--","."],cwd=MUT,check=True)
