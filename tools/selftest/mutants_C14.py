GENS=["C14"]
F="src/fontinfo.rs"; U="src/upconversion.rs"
def swap(a,b):
    return ([F,F,F],[a,b,"@@TMP@@"],["@@TMP@@",a,b])
MUTANTS={
 "c01_swap_asc_desc": ([F,F], ["                    ascender: fontinfo_v2.ascender,","                    descender: fontinfo_v2.descender,"], ["                    ascender: fontinfo_v2.descender,","                    descender: fontinfo_v2.ascender,"], "v2 literal: ascender/descender swapped"),
 "c02_swap_ps_names": ([F,F], ["postscript_font_name: fontinfo_v2.postscriptFontName,","postscript_full_name: fontinfo_v2.postscriptFullName,"], ["postscript_font_name: fontinfo_v2.postscriptFullName,","postscript_full_name: fontinfo_v2.postscriptFontName,"], "v2 literal: postscriptFontName/postscriptFullName swapped"),
 "c03_charset_swap": ([F,F], ["162 => Some(PostscriptWindowsCharacterSet::Turkish)","163 => Some(PostscriptWindowsCharacterSet::Vietnamese)"], ["162 => Some(PostscriptWindowsCharacterSet::Vietnamese)","163 => Some(PostscriptWindowsCharacterSet::Turkish)"], "msCharSet 162/163 swapped"),
 "c04_no_round": (F, ".openTypeOS2TypoDescender\n                        .map(|v| v.round() as Integer)", ".openTypeOS2TypoDescender\n                        .map(|v| v as Integer)", "openTypeOS2TypoDescender truncated instead of rounded"),
 "c05_no_abs": (F, ".openTypeOS2WinDescent\n                        .map(|v| v.round().abs() as NonNegativeInteger)", ".openTypeOS2WinDescent\n                        .map(|v| v.round() as NonNegativeInteger)", "openTypeOS2WinDescent without abs"),
 "c06_weight_kept": (F, "-1 => None,", "-1 => Some(1),", "weightValue -1 kept"),
 "c07_libkey_left": (U, '    lib.remove("org.robofab.opentype.featureorder");\n', "", "robofab featureorder key left in lib"),
 "c08_v2_novalidate": (F, "                fontinfo.validate().map_err(FontInfoLoadError::FontInfoUpconversion)?;\n                Ok(fontinfo)\n            }\n            FormatVersion::V1", "                Ok(fontinfo)\n            }\n            FormatVersion::V1", "validation after v2 upconversion skipped"),
 "c09_v1_swap_designer": ([F,F], ["open_type_name_designer_url: fontinfo_v1.designerURL,","open_type_name_designer: fontinfo_v1.designer,"], ["open_type_name_designer_url: fontinfo_v1.designer,","open_type_name_designer: fontinfo_v1.designerURL,"], "v1 literal: designer/designerURL swapped"),
 "c10_width_entry": (F, '"Semi-expanded" => Some(Os2WidthClass::SemiExpanded)', '"Semi-expanded" => Some(Os2WidthClass::SemiCondensed)', "widthName Semi-expanded -> 4"),
 "c11_hint_cross": ([U,U], ["font_info.postscript_other_blues = Some(other_blues.into_iter().flatten().collect());","font_info.postscript_family_blues = Some(family_blues.into_iter().flatten().collect());"], ["font_info.postscript_family_blues = Some(other_blues.into_iter().flatten().collect());","font_info.postscript_other_blues = Some(family_blues.into_iter().flatten().collect());"], "hint data: otherBlues/familyBlues crossed"),
 "c12_style_swap": ([F,F], ["32 => Some(StyleMapStyle::Bold)","33 => Some(StyleMapStyle::BoldItalic)"], ["32 => Some(StyleMapStyle::BoldItalic)","33 => Some(StyleMapStyle::Bold)"], "fontStyle 32/33 swapped"),
 "c13_hint_novalidate": (U, "        font_info.validate().map_err(FontLoadError::FontInfoV1Upconversion)?;\n", "", "validation after moving the hint data skipped"),
 "c14_vminor_noabs": (F, "version_minor: fontinfo_v2.versionMinor.map(|v| v.unsigned_abs()),", "version_minor: fontinfo_v2.versionMinor.map(|v| v as u32),", "v2 versionMinor: wrapping cast instead of abs"),
 "c15_order_ignored": (U, "        let order: Vec<String> = if let Some(feature_order) = lib_data.feature_order {\n            feature_order\n        } else {", "        let order: Vec<String> = if let Some(mut feature_order) = lib_data.feature_order {\n            feature_order.sort();\n            feature_order\n        } else {", "feature order list sorted instead of honoured"),
 "h02_harmless": ([F,F], ["                    note: fontinfo_v2.note,\n                    open_type_head_created: fontinfo_v2.openTypeHeadCreated,","                            -1 => None,\n                            _ => Some(v.unsigned_abs()),"], ["                    open_type_head_created: fontinfo_v2.openTypeHeadCreated,\n                    note: fontinfo_v2.note,","                            -1 => None,\n                            w => Some(w.unsigned_abs()),"], "behaviour-preserving: two literal lines reordered, a match binder renamed"),
}
MUTANTS2={
 "c16_swap_asc_cap": ([F,F], ["                    ascender: fontinfo_v2.ascender,","                    cap_height: fontinfo_v2.capHeight,"], ["                    ascender: fontinfo_v2.capHeight,","                    cap_height: fontinfo_v2.ascender,"], "v2 literal: ascender/capHeight swapped (same value 750 in the fixture)"),
 "c17_swap_otherblues": ([F,F], ["postscript_family_other_blues: fontinfo_v2.postscriptFamilyOtherBlues,","postscript_other_blues: fontinfo_v2.postscriptOtherBlues,"], ["postscript_family_other_blues: fontinfo_v2.postscriptOtherBlues,","postscript_other_blues: fontinfo_v2.postscriptFamilyOtherBlues,"], "v2 literal: postscriptOtherBlues/postscriptFamilyOtherBlues swapped (same value in the fixture)"),
 "c18_v1_swap_angles": ([F,F], ["                    italic_angle: fontinfo_v1.italicAngle,","postscript_slant_angle: fontinfo_v1.slantAngle,"], ["                    italic_angle: fontinfo_v1.slantAngle,","postscript_slant_angle: fontinfo_v1.italicAngle,"], "v1 literal: italicAngle/slantAngle swapped (same value -12.5 in the fixture)"),
}
import os
if os.environ.get("MUT_SET")=="2": MUTANTS=MUTANTS2
