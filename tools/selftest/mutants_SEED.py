# the six changes produced by the independent seeding agents (phase 2); each is run against BOTH generators
GENS=["C13","C14"]
F="src/fontinfo.rs"; U="src/upconversion.rs"; FT="src/font.rs"
MUTANTS={
 "C13a_is_ascii": (F, "if !v.chars().all(|b| b.is_ascii_digit() || b == ' ' || b == '/' || b == ':') {", "if !v.is_ascii() {", "date whitelist replaced by is_ascii(): '+1' fields parse"),
 "C13b_hint_novalidate": (U, "        font_info.validate().map_err(FontLoadError::FontInfoV1Upconversion)?;\n", "", "validate() after merging postScriptHintData dropped"),
 "C13c_angle_nan": (F, "if !(0.0..=360.0).contains(&degrees) {\n                        return Err(FontInfoErrorKind::InvalidGuidelineAngle);", "if degrees < 0.0 || degrees > 360.0 {\n                        return Err(FontInfoErrorKind::InvalidGuidelineAngle);", "angle test rewritten with < and >: NaN accepted by validate"),
 "C14a_style_mask": (F, "                        Some(v) => match v {\n                            0 | 64 => Some(StyleMapStyle::Regular),", "                        Some(v) => match v & !64 {\n                            0 => Some(StyleMapStyle::Regular),", "fontStyle matched on v & !64"),
 "C14b_weight_tryfrom": (F, "                        Some(v) => match v {\n                            -1 => None,\n                            _ => Some(v.unsigned_abs()),\n                        },", "                        Some(v) => NonNegativeInteger::try_from(v).ok(),", "weightValue: every negative dropped"),
 "C14c_callsite_guard": (FT, "if meta.format_version == FormatVersion::V1 && lib_path.exists() {", "if meta.format_version == FormatVersion::V1\n            && (lib.contains_key(\"org.robofab.postScriptHintData\")\n                || lib.contains_key(\"org.robofab.opentype.features\"))\n        {", "robofab conversion only when the lib holds hint data or features"),
}
import os
if os.environ.get("MUT_SET")=="legacy":
    GENS=["C13"]
    MUTANTS={k:v for k,v in MUTANTS.items() if k=="C13b_hint_novalidate"}
    MUTANTS["v2_novalidate"]=(F, "                fontinfo.validate().map_err(FontInfoLoadError::FontInfoUpconversion)?;\n                Ok(fontinfo)\n            }\n            FormatVersion::V1", "                Ok(fontinfo)\n            }\n            FormatVersion::V1", "validation after the format-2 conversion skipped")
if os.environ.get("MUT_SET")=="final":
    MUTANTS["kind_swapped"]=(F, "return Err(FontInfoErrorKind::DisallowedSelectionBits);", "return Err(FontInfoErrorKind::InvalidOs2FamilyClass);", "selection-bit refusal reported under the family-class kind")
