#!/usr/bin/env python3
"""self-test runner: apply each mutant to /tmp/rw/fontinfo-mut, run cargo test, run harness gen + driver"""
import subprocess, sys, os, re, shutil
MUT="/tmp/rw/fontinfo-mut"; VW="/tmp/vw/fontinfo"
prop=sys.argv[1]; which=sys.argv[2:]  # names
import importlib.util
spec=importlib.util.spec_from_file_location("m", os.path.join(os.path.dirname(__file__), f"mutants_{prop}.py")); m=importlib.util.module_from_spec(spec); spec.loader.exec_module(m)
hd=f"{VW}/.build/harness-mut"
os.makedirs(hd, exist_ok=True)
def sh(cmd, **kw): return subprocess.run(cmd, shell=True, text=True, stdout=subprocess.PIPE, stderr=subprocess.STDOUT, **kw)
for name,(file,old,new,desc) in m.MUTANTS.items():
    if which and name not in which: continue
    sh(f"git -C {MUT} checkout -q --detach fix/fontinfo && git -C {MUT} reset -q --hard fix/fontinfo")
    edits = [(file,old,new)] if isinstance(file,str) else list(zip(file,old,new))
    ok=True
    for f,o,n in edits:
        p=os.path.join(MUT,f); s=open(p).read()
        if s.count(o)<1: print(name,"ANCHOR NOT FOUND",o[:40]); ok=False; break
        s=s.replace(o,n,1); open(p,"w").write(s)
    if not ok: continue
    t=sh("cargo test --offline 2>&1 | grep -E '^test result|FAILED|error(\\[|:)' | head -8", cwd=MUT, env=dict(os.environ, CARGO_TARGET_DIR=f"{VW}/.build/target-muttest"))
    tests="PASS" if ("test result: ok" in t.stdout and "FAILED" not in t.stdout and "error" not in t.stdout) else "FAIL:"+t.stdout.replace("\n"," | ")[:300]
    sh(f"rsync -a --delete --exclude Cargo.toml {VW}/harness/ {hd}/")
    toml=open(f"{VW}/harness/Cargo.toml").read().replace('path = "/repo"', f'path = "{MUT}"'); open(f"{hd}/Cargo.toml","w").write(toml)
    if not os.path.exists(f"{hd}/Cargo.lock"): shutil.copy("/repo/Cargo.lock", f"{hd}/Cargo.lock")
    b=sh("cargo build --release --offline 2>&1 | tail -3", cwd=hd, env=dict(os.environ, CARGO_TARGET_DIR=f"{VW}/.build/target-mut"))
    hb=f"{VW}/.build/target-mut/release/harness"
    res=[]
    for gen in m.GENS:
        # corpus
        traces=[]
        cdir=f"{VW}/corpus/{gen}"
        env=dict(os.environ, VERIF_SCRATCH=f"{VW}/.build/scratch/mut-h")
        out=""
        if os.path.isdir(cdir):
            for fn in sorted(os.listdir(cdir)):
                out+=sh(f"{hb} replay {cdir}/{fn}", env=env).stdout
        g=subprocess.run([hb,"gen",gen,"quick","20260926"],stdout=subprocess.PIPE,stderr=subprocess.PIPE,text=True,env=env)
        out+=g.stdout
        open(f"/tmp/{name}.trace","w").write(out)
        d=subprocess.run([f"{VW}/lean/.lake/build/bin/driver"],input=out,stdout=subprocess.PIPE,text=True)
        bad=[(v,l) for v,l in zip(d.stdout.splitlines(), out.splitlines()) if not v.startswith("AGREE\tok") and v!="SKIP"]
        rules={}
        for v,l in bad:
            f=v.split("\t"); key=f[0]+" "+f[1]
            rules.setdefault(key,l)
        res.append((gen,len(bad),rules))
    print(f"== {name}: {desc}\n   cargo test: {tests}")
    for gen,n,rules in res:
        print(f"   {gen}: {n} failing lines" + (" -> ESCAPED/not reported" if n==0 else ""))
        for k,l in list(rules.items())[:4]:
            print(f"      {k}\n        replay: {l[:200]}")
    sys.stdout.flush()
sh(f"git -C {MUT} reset -q --hard fix/fontinfo")
