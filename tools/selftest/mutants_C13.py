GENS=["C13"]
F="src/fontinfo.rs"
MUTANTS={
 "m01_blue14to16": (F, 'let name = "postscriptBlueValues";\n            if v.len() > 14 {', 'let name = "postscriptBlueValues";\n            if v.len() > 16 {', "postscriptBlueValues limit 14 -> 16"),
 "m02_otherblues_ge": (F, 'let name = "postscriptOtherBlues";\n            if v.len() > 10 {', 'let name = "postscriptOtherBlues";\n            if v.len() >= 10 {', "postscriptOtherBlues > 10 -> >= 10"),
 "m03_selbit5": (F, "v.contains(&0) || v.contains(&5) || v.contains(&6)", "v.contains(&0) || v.contains(&6)", "selection mask misses bit 5"),
 "m04_class15": (F, "(0..=14).contains(&self.class_id)", "(0..=15).contains(&self.class_id)", "family class upper bound 14 -> 15"),
 "m05_hour24": (F, "< 24\n", "<= 24\n", "date hour bound 23 -> 24"),
 "m06_save_novalidate": ("src/font.rs", "        self.font_info.validate().map_err(FontWriteError::InvalidFontInfo)?;\n", "", "validation skipped on the save path only"),
 "m07_load_novalidate": (F, "                fontinfo.validate().map_err(FontInfoLoadError::InvalidData)?;\n", "", "validation skipped on the (v3) load path only"),
 "m08_ascii_after_slice": (F, "            if !v.chars().all(|b| b.is_ascii_digit() || b == ' ' || b == '/' || b == ':') {\n                return Err(FontInfoErrorKind::InvalidOpenTypeHeadCreatedDate);\n            }\n\n            if !(v[0..4]", "            if !(v[0..4]", "character-set test removed: slicing now runs on non-ASCII strings (panic off a boundary) and '+' is accepted by parse"),
 "m09_gasp_ge": (F, "if last > current {", "if last >= current {", "gasp: equal ppem values refused"),
 "m10_stemv13": (F, 'if v.len() > 12 {\n                return Err(FontInfoErrorKind::InvalidPostscriptListLength {\n                    name: "postscriptStemSnapV",', 'if v.len() > 13 {\n                return Err(FontInfoErrorKind::InvalidPostscriptListLength {\n                    name: "postscriptStemSnapV",', "postscriptStemSnapV limit 12 -> 13"),
 "m11_woff_items_only_first": (F, "                for record_item in record.items.iter() {\n                    if record_item.names.is_empty() || record_item.values.is_empty() {", "                for record_item in record.items.iter().take(1) {\n                    if record_item.names.is_empty() || record_item.values.is_empty() {", "WOFF extension items: only the first item of a record is checked"),
 "m12_dupid_adjacent": (F, "let mut identifiers: HashSet<Identifier> = HashSet::new();\n            for guideline in guidelines {", "let mut identifiers: HashSet<Identifier> = HashSet::new();\n            for guideline in guidelines {\n                if identifiers.len() > 1 { identifiers.clear(); }", "identifier set forgets: only collisions within a window are seen"),
 "h01_harmless": ([F,F,F], ["if v.len() % 2 != 0 {\n                return Err(FontInfoErrorKind::PostscriptListMustBePairs(name));\n            }\n        }\n        if let Some(v) = &self.postscript_other_blues",
                           "if v.contains(&0) || v.contains(&5) || v.contains(&6) {",
                           "if v.len() != DATE_LENGTH {"],
                          ["if v.len() & 1 == 1 {\n                return Err(FontInfoErrorKind::PostscriptListMustBePairs(name));\n            }\n        }\n        if let Some(v) = &self.postscript_other_blues",
                           "if v.iter().any(|b| matches!(*b, 0 | 5 | 6)) {",
                           "if v.as_bytes().len() != DATE_LENGTH {"], "behaviour-preserving rewrites (parity test, bit test, byte length)"),
}
