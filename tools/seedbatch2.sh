#!/bin/bash
# round 2: tools/seedbatch2.sh <logfile> Cxx [Cxx...]   (seeds in /tmp/seed2/Cxx/out/1..4, demo <cxx>_r2_demo<k>)
LOG=$1; shift
for P in "$@"; do
  L=$(echo $P | tr A-Z a-z)
  F=""
  [ "$P" = "C19" ] && F=rayon
  [ "$P" = "C20" ] && F=kurbo
  for k in 1 2 3 4; do
    [ -d /tmp/seed2/$P/out/$k ] || continue
    D=${L}_r2_demo$k
    echo "===== $P seed r2-$k ($D)" >> "$LOG"
    FEATURES=$F /verif/tools/seedtest.sh /tmp/seed2/$P/out/$k "$D" $P 2>&1 | grep -E "^--- demo|test result|VIOLATION|^\[$P\]|PATCH|error" | grep -v "155 passed\|19 passed\|5 passed; 0 failed" | cut -c1-260 >> "$LOG"
  done
done
echo "BATCH DONE" >> "$LOG"
