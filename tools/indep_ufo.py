#!/usr/bin/env python3
"""Independent UFO 3 reader and writer for property C05 (stdlib only: xml.etree + plistlib; NO norad code).

Everything here is written from the UFO 3 specification's vocabulary, not from norad's source.

  indep_ufo.py read  <dir> <n>        reads <dir>/0.ufo .. <dir>/<n-1>.ufo (trees saved by norad), prints one line per
                                      tree: a generic value tree (files -> plist values / XML trees / text / bytes) in
                                      the PV token format, or `malformed:<hexmsg>` when a file is not well-formed.
  indep_ufo.py write <batch> <dir>    <batch> holds one case per line: `<seed> <want-feature|-> <desc>`; writes
                                      <dir>/<i>.ufo from the abstract description with randomised LEGAL surface
                                      syntax and prints one line per case: the surface features actually applied.

PV token format (shared with harness/src/c05.rs and lean/Driver/C05.lean), atoms separated by ',':
  s<hex> string   i<dec> integer   r<16 hex> real (f64 bits)   T / F bool   d<hex> data   D<hex> date
  [ v ... ]  array      { <hexkey> v ... }  dictionary        (hex of the empty string is '-')
"""
import datetime
import os
import plistlib
import random
import re
import struct
import sys
import xml.etree.ElementTree as ET


# ------------------------------------------------------------------ PV tokens

def hx(b):
    return b.hex() if b else "-"


def hs(s):
    return hx(s.encode("utf-8"))


def unhx(t):
    return b"" if t == "-" else bytes.fromhex(t)


def bits(x):
    return "%016x" % struct.unpack(">Q", struct.pack(">d", x))[0]


class Real(float):
    """a number the description types as real (may be written as <real> or, when integral, as <integer>)"""


def enc(v, out):
    if isinstance(v, bool):
        out.append("T" if v else "F")
    elif isinstance(v, int):
        out.append("i%d" % v)
    elif isinstance(v, float):
        out.append("r" + bits(v))
    elif isinstance(v, str):
        out.append("s" + hs(v))
    elif isinstance(v, (bytes, bytearray)):
        out.append("d" + hx(bytes(v)))
    elif isinstance(v, datetime.datetime):
        out.append("D" + hs(v.strftime("%Y-%m-%dT%H:%M:%SZ")))
    elif isinstance(v, (list, tuple)):
        out.append("[")
        for x in v:
            enc(x, out)
        out.append("]")
    elif isinstance(v, dict):
        out.append("{")
        for k in sorted(v):
            out.append(hs(k))
            enc(v[k], out)
        out.append("}")
    else:
        raise ValueError("cannot encode %r" % (v,))


def encode(v):
    out = []
    enc(v, out)
    return ",".join(out)


class Date(str):
    pass


def dec(toks, i):
    t = toks[i]
    c = t[0]
    if c == "s":
        return unhx(t[1:]).decode("utf-8"), i + 1
    if c == "i":
        return int(t[1:]), i + 1
    if c == "r":
        return Real(struct.unpack(">d", struct.pack(">Q", int(t[1:], 16)))[0]), i + 1
    if t == "T":
        return True, i + 1
    if t == "F":
        return False, i + 1
    if c == "d":
        return unhx(t[1:]), i + 1
    if c == "D":
        return Date(unhx(t[1:]).decode("utf-8")), i + 1
    if t == "[":
        i += 1
        out = []
        while toks[i] != "]":
            v, i = dec(toks, i)
            out.append(v)
        return out, i + 1
    if t == "{":
        i += 1
        out = {}
        while toks[i] != "}":
            k = unhx(toks[i]).decode("utf-8")
            v, i = dec(toks, i + 1)
            out[k] = v
        return out, i + 1
    raise ValueError("bad token " + t)


def decode(s):
    v, i = dec(s.split(","), 0)
    return v


# ------------------------------------------------------------------ reader (trees saved by norad)

NUMLIST = re.compile(r"^-?(\d+(\.\d*)?|\.\d+)([eE][-+]?\d+)?(,-?(\d+(\.\d*)?|\.\d+)([eE][-+]?\d+)?)*$")
HEXNUM = re.compile(r"^[0-9A-Fa-f]{1,8}$")


class Malformed(Exception):
    pass


def note_lex(s, lex, hexes):
    if len(s) <= 200:
        if NUMLIST.match(s):
            lex[s] = [float(p) for p in s.split(",")]
        if HEXNUM.match(s):
            hexes[s] = int(s, 16)


def walk_strings(v, lex, hexes):
    if isinstance(v, str):
        note_lex(v, lex, hexes)
    elif isinstance(v, list):
        for x in v:
            walk_strings(x, lex, hexes)
    elif isinstance(v, dict):
        for x in v.values():
            walk_strings(x, lex, hexes)


def blank(s):
    return s is None or s.strip(" \t\r\n") == ""


def plist_from_et(e):
    """a property-list value from its element (the lib embedded in a glif); re-serialising the element and handing
    it to plistlib would lose character references such as &#13;"""
    kids = list(e)
    t = e.tag
    if t == "dict":
        if len(kids) % 2 or not blank(e.text) or any(not blank(k.tail) for k in kids):
            raise Malformed("bad dict in lib")
        out = {}
        for k, v in zip(kids[0::2], kids[1::2]):
            if k.tag != "key" or list(k):
                raise Malformed("bad key in lib")
            out[k.text or ""] = plist_from_et(v)
        return out
    if t == "array":
        if not blank(e.text) or any(not blank(k.tail) for k in kids):
            raise Malformed("bad array in lib")
        return [plist_from_et(k) for k in kids]
    if kids:
        raise Malformed("element content in <%s>" % t)
    x = e.text or ""
    if t == "string":
        return x
    if t == "integer":
        return int(x.strip())
    if t == "real":
        return float(x.strip())
    if t == "true":
        return True
    if t == "false":
        return False
    if t == "data":
        import base64
        return base64.b64decode(x)
    if t == "date":
        return datetime.datetime.strptime(x.strip(), "%Y-%m-%dT%H:%M:%SZ")
    raise Malformed("unknown plist element <%s>" % t)


def xnode(e, lex, hexes):
    if not isinstance(e.tag, str):
        raise Malformed("non-element node")
    kids = list(e)
    if e.tag == "lib":
        # the glyph lib: exactly one <dict>, read as a property list
        if len(kids) != 1 or kids[0].tag != "dict" or not blank(e.text) or not blank(kids[0].tail):
            raise Malformed("lib must hold exactly one dict")
        v = plist_from_et(kids[0])
        walk_strings(v, lex, hexes)
        return {"tag": "lib", "attrs": dict(e.attrib), "plist": v}
    if kids:
        if not blank(e.text) or any(not blank(k.tail) for k in kids):
            raise Malformed("mixed content in <%s>" % e.tag)
        text = ""
    else:
        text = e.text or ""
    for v in e.attrib.values():
        note_lex(v, lex, hexes)
    return {"tag": e.tag, "attrs": dict(e.attrib), "children": [xnode(k, lex, hexes) for k in kids], "text": text}


def read_ufo(root):
    files = {}
    lex, hexes = {}, {}
    for dp, dns, fns in os.walk(root):
        dns.sort()
        for fn in sorted(fns):
            p = os.path.join(dp, fn)
            rel = os.path.relpath(p, root).replace(os.sep, "/")
            raw = open(p, "rb").read()
            top = rel.split("/")[0]
            try:
                if top in ("data", "images"):
                    files[rel] = {"bytes": raw}
                elif fn.endswith(".plist"):
                    ET.fromstring(raw)  # strict well-formedness (expat)
                    v = plistlib.loads(raw, fmt=plistlib.FMT_XML)
                    walk_strings(v, lex, hexes)
                    files[rel] = {"plist": v}
                elif fn.endswith(".glif"):
                    e = ET.fromstring(raw)
                    files[rel] = {"xml": xnode(e, lex, hexes)}
                elif fn.endswith(".fea"):
                    files[rel] = {"text": raw.decode("utf-8")}
                else:
                    files[rel] = {"bytes": raw}
            except Malformed as ex:
                raise Malformed("%s: %s" % (rel, ex))
            except Exception as ex:  # expat / plistlib / utf-8 errors
                raise Malformed("%s: %s" % (rel, type(ex).__name__))
    return {"files": files, "lex": {k: [float(x) for x in v] for k, v in lex.items()}, "hex": hexes}


def cmd_read(d, n):
    for i in range(n):
        root = os.path.join(d, "%d.ufo" % i)
        if not os.path.isdir(root):
            print("absent")
            continue
        try:
            print(encode(read_ufo(root)))
        except Malformed as ex:
            print("malformed:" + hs(str(ex)))
    sys.stdout.flush()


# ------------------------------------------------------------------ writer (randomised legal surface syntax)

def esc_text(s, rng, cdata_ok=False):
    out = []
    for ch in s:
        if ch == "&":
            out.append(rng.choice(["&amp;", "&#38;", "&#x26;"]))
        elif ch == "<":
            out.append(rng.choice(["&lt;", "&#60;", "&#x3C;"]))
        elif ch == ">":
            out.append(rng.choice(["&gt;", "&#62;"]))
        elif ch == "\r":
            out.append("&#13;")
        elif ch in "\"'" and rng.random() < 0.3:
            out.append("&quot;" if ch == '"' else "&apos;")
        elif ch not in "\n\t" and rng.random() < 0.06:
            out.append(rng.choice(["&#%d;", "&#x%x;", "&#x%X;"]) % ord(ch))
        else:
            out.append(ch)
    return "".join(out)


def esc_attr(s, rng):
    q = rng.choice("\"'")
    out = []
    for ch in s:
        if ch == "&":
            out.append("&amp;")
        elif ch == "<":
            out.append("&lt;")
        elif ch == q:
            out.append("&quot;" if ch == '"' else "&apos;")
        elif ch in "\r\n\t":
            out.append("&#%d;" % ord(ch))
        elif ch == ">" and rng.random() < 0.5:
            out.append("&gt;")
        elif rng.random() < 0.06:
            out.append(rng.choice(["&#%d;", "&#x%x;"]) % ord(ch))
        else:
            out.append(ch)
    return q + "".join(out) + q


def num_str(v, rng):
    """decimal spelling of a number; integral values sometimes with a fraction part"""
    if isinstance(v, int) and not isinstance(v, bool):
        return str(v)
    f = float(v)
    if f == int(f) and abs(f) < 1e15:
        return rng.choice(["%d", "%d.0", "%d.00"]) % int(f)
    return repr(f)


class Syn:
    """one document's surface choices"""

    def __init__(self, rng):
        self.rng = rng
        self.nl = rng.choice(["\n", "\n", "\r\n", ""])
        self.ind = rng.choice(["", "\t", "  ", "    "]) if self.nl else ""

    def pad(self, depth):
        return self.nl + self.ind * depth

    def decl(self):
        q = self.rng.choice("\"'")
        enc_ = self.rng.choice(["UTF-8", "UTF-8", "utf-8"])
        return "<?xml version=%s1.0%s encoding=%s%s%s?>" % (q, q, q, enc_, q) + self.rng.choice(["\n", "\n", "\r\n", ""])

    def misc(self):
        """a comment outside the root, sometimes"""
        if self.rng.random() < 0.2:
            return "<!-- %s -->" % self.rng.choice(["made by indep", "a < b & c", "x"]) + self.rng.choice(["\n", ""])
        return ""


PLIST_DOCTYPE = '<!DOCTYPE plist PUBLIC "-//Apple//DTD PLIST 1.0//EN" "http://www.apple.com/DTDs/PropertyList-1.0.dtd">\n'


def plist_value(v, syn, depth, out, cdata=None):
    rng = syn.rng
    p = syn.pad(depth)
    if isinstance(v, bool):
        out.append(p + rng.choice(["<true/>", "<true />"] if v else ["<false/>", "<false />"]))
    elif isinstance(v, Real):
        f = float(v)
        if f == int(f) and abs(f) < 2 ** 31 and rng.random() < 0.5:
            out.append(p + "<integer>%d</integer>" % int(f))
        else:
            out.append(p + "<real>%s</real>" % (repr(f) if f != int(f) or abs(f) >= 1e15 else rng.choice(["%d.0", "%d"]) % int(f)))
    elif isinstance(v, int):
        out.append(p + "<integer>%d</integer>" % v)
    elif isinstance(v, Date):
        out.append(p + "<date>%s</date>" % v)
    elif isinstance(v, str):
        if v == "":
            out.append(p + rng.choice(["<string></string>", "<string/>"]))
        elif cdata is not None and cdata.get("want") and "]]>" not in v:
            cdata["want"] = False
            cdata["applied"] = True
            out.append(p + "<string><![CDATA[%s]]></string>" % v)
        else:
            out.append(p + "<string>%s</string>" % esc_text(v, rng))
    elif isinstance(v, (bytes, bytearray)):
        import base64
        out.append(p + "<data>%s</data>" % base64.b64encode(bytes(v)).decode("ascii"))
    elif isinstance(v, (list, tuple)):
        if not v:
            out.append(p + rng.choice(["<array></array>", "<array/>"]))
        else:
            out.append(p + "<array>")
            for x in v:
                plist_value(x, syn, depth + 1, out, cdata)
            out.append(p + "</array>")
    elif isinstance(v, dict):
        if not v:
            out.append(p + rng.choice(["<dict></dict>", "<dict/>"]))
        else:
            out.append(p + "<dict>")
            keys = list(v)
            rng.shuffle(keys)
            for k in keys:
                out.append(syn.pad(depth + 1) + "<key>%s</key>" % esc_text(k, rng))
                sub = cdata
                if cdata is not None and "key" in cdata:
                    if cdata["key"] == k:
                        sub = {"want": cdata["want"]}
                        plist_value(v[k], syn, depth + 1, out, sub)
                        cdata["want"] = sub["want"]
                        cdata["applied"] = cdata.get("applied") or sub.get("applied")
                        continue
                    sub = None
                plist_value(v[k], syn, depth + 1, out, sub)
            out.append(p + "</dict>")
    else:
        raise ValueError("plist: %r" % (v,))


def plist_doc(v, rng, cdata=None):
    syn = Syn(rng)
    out = [syn.decl(), syn.misc()]
    if rng.random() < 0.6:
        out.append(PLIST_DOCTYPE)
    out.append('<plist version="1.0">')
    plist_value(v, syn, 0, out, cdata)
    out.append(syn.pad(0) + "</plist>" + rng.choice(["\n", ""]))
    out.append(syn.misc())
    return "".join(out).encode("utf-8")


def color_str(c, rng):
    return ",".join(num_str(x, rng) if float(x) == int(float(x)) else repr(float(x)) for x in c)


def element(tag, attrs, syn, depth, explicit_close=False):
    """an element without content; attrs = list of (name, string value)"""
    rng = syn.rng
    attrs = list(attrs)
    rng.shuffle(attrs)
    sep = rng.choice([" ", " ", "  ", "\n" + syn.ind * (depth + 1)])
    s = "<" + tag + "".join(sep + k + rng.choice(["=", "=", " = "]) + esc_attr(v, rng) for k, v in attrs)
    if explicit_close:
        return syn.pad(depth) + s + "></" + tag + ">"
    return syn.pad(depth) + s + rng.choice(["/>", " />"])


def transform_attrs(d, rng):
    """the six transformation attributes; values equal to the specification's defaults may be left out"""
    out = []
    for k, dflt in (("xScale", 1), ("xyScale", 0), ("yxScale", 0), ("yScale", 1), ("xOffset", 0), ("yOffset", 0)):
        v = d[k]
        if float(v) == dflt and rng.random() < 0.7:
            continue
        out.append((k, num_str(v, rng)))
    return out


def glif_doc(g, rng, want, applied):
    syn = Syn(rng)
    ec = lambda tag: want == "explicit-close-" + tag
    parts = []  # (kind, text) in spec order; shuffled across kinds afterwards
    w, h = float(g.get("width", 0.0)), float(g.get("height", 0.0))
    bare = want == "self-closed-glyph" and w == 0 and h == 0 and set(g) <= {"name", "width", "height", "file"}
    if w != 0 or h != 0 or (rng.random() < 0.2 and not bare):
        a = []
        if w != 0 or rng.random() < 0.3:
            a.append(("width", num_str(g.get("width", 0.0), rng)))
        if h != 0 or rng.random() < 0.3:
            a.append(("height", num_str(g.get("height", 0.0), rng)))
        if ec("advance"):
            applied.add(want)
        parts.append(["advance", element("advance", a, syn, 1, ec("advance"))])
    for u in g.get("unicodes", []):
        hexs = rng.choice(["%04X", "%04X", "%04x", "%X", "%06X"]) % u
        if ec("unicode"):
            applied.add(want)
        parts.append(["unicode", element("unicode", [("hex", hexs)], syn, 1, ec("unicode"))])
    if "note" in g:
        if want == "cdata-note" and "]]>" not in g["note"]:
            applied.add(want)
            parts.append(["note", syn.pad(1) + "<note><![CDATA[" + g["note"] + "]]></note>"])
        else:
            parts.append(["note", syn.pad(1) + "<note>" + esc_text(g["note"], rng) + "</note>"])
    elif want == "empty-note":
        applied.add(want)
        parts.append(["note", syn.pad(1) + "<note/>"])
    if "image" in g:
        im = g["image"]
        a = [("fileName", im["fileName"])] + transform_attrs(im, rng)
        if "color" in im:
            a.append(("color", color_str(im["color"], rng)))
        if ec("image"):
            applied.add(want)
        parts.append(["image", element("image", a, syn, 1, ec("image"))])
    for gl in g.get("guidelines", []):
        a = []
        for k in ("x", "y", "angle"):
            if k in gl:
                a.append((k, num_str(gl[k], rng)))
        if "name" in gl:
            a.append(("name", gl["name"]))
        if "color" in gl:
            a.append(("color", color_str(gl["color"], rng)))
        if "identifier" in gl:
            a.append(("identifier", gl["identifier"]))
        if ec("guideline"):
            applied.add(want)
        parts.append(["guideline", element("guideline", a, syn, 1, ec("guideline"))])
    for an in g.get("anchors", []):
        a = [("x", num_str(an["x"], rng)), ("y", num_str(an["y"], rng))]
        if "name" in an:
            a.append(("name", an["name"]))
        if "color" in an:
            a.append(("color", color_str(an["color"], rng)))
        if "identifier" in an:
            a.append(("identifier", an["identifier"]))
        if ec("anchor"):
            applied.add(want)
        parts.append(["anchor", element("anchor", a, syn, 1, ec("anchor"))])
    contours, comps = g.get("contours", []), g.get("components", [])
    if contours or comps or (rng.random() < 0.15 and not bare):
        items = []
        for c in contours:
            a = [("identifier", c["identifier"])] if "identifier" in c else []
            s = element("contour", a, syn, 2)
            s = s[: s.rindex("/>")].rstrip(" ") + ">"
            if want == "comment-in-glyph":
                s += syn.pad(3) + "<!-- a comment inside contour -->"
            for pt in c["points"]:
                pa = [("x", num_str(pt["x"], rng)), ("y", num_str(pt["y"], rng))]
                if pt["type"] != "offcurve" or rng.random() < 0.3:
                    pa.append(("type", pt["type"]))
                if pt["smooth"]:
                    pa.append(("smooth", "yes"))
                elif pt["type"] != "offcurve" and rng.random() < 0.2:
                    pa.append(("smooth", "no"))
                if "name" in pt:
                    pa.append(("name", pt["name"]))
                if "identifier" in pt:
                    pa.append(("identifier", pt["identifier"]))
                if ec("point"):
                    applied.add(want)
                s += element("point", pa, syn, 3, ec("point"))
            s += syn.pad(2) + "</contour>"
            items.append(["contour", s])
        citems = []
        for co in comps:
            a = [("base", co["base"])] + transform_attrs(co, rng)
            if "identifier" in co:
                a.append(("identifier", co["identifier"]))
            if ec("component"):
                applied.add(want)
            citems.append(["component", element("component", a, syn, 2, ec("component"))])
        # contours and components may interleave; each kind keeps its own order
        merged = []
        while items or citems:
            src = items if (items and (not citems or rng.random() < 0.5)) else citems
            merged.append(src.pop(0)[1])
        if merged:
            if want == "comment-in-glyph":
                merged.insert(rng.randrange(len(merged) + 1), syn.pad(2) + "<!-- a comment inside outline -->")
            parts.append(["outline", syn.pad(1) + "<outline>" + "".join(merged) + syn.pad(1) + "</outline>"])
        else:
            parts.append(["outline", syn.pad(1) + rng.choice(["<outline/>", "<outline></outline>"])])
    if g.get("lib"):
        cd = {"want": want == "cdata-glyph-lib"}
        out = []
        plist_value(g["lib"], syn, 2, out, cd)
        if cd.get("applied"):
            applied.add(want)
        parts.append(["lib", syn.pad(1) + "<lib>" + "".join(out) + syn.pad(1) + "</lib>"])
    # element order inside <glyph> is free; same-kind elements keep their relative order
    kinds = []
    for k, _ in parts:
        if k not in kinds:
            kinds.append(k)
    if rng.random() < 0.5:
        rng.shuffle(kinds)
    body = "".join(t for k in kinds for kk, t in parts if kk == k)
    if want == "comment-in-glyph":
        applied.add(want)
        body = syn.pad(1) + "<!-- a comment inside glyph -->" + body
    ga = [("name", g["name"]), ("format", "2")]
    if rng.random() < 0.2:
        ga.append(("formatMinor", "0"))
    head = element("glyph", ga, syn, 0)
    head = head.lstrip("\r\n")
    doc = [syn.decl(), syn.misc()]
    if want == "doctype-glif":
        applied.add(want)
        doc.append("<!DOCTYPE glyph>\n")
    if want == "self-closed-glyph" and not parts:
        applied.add(want)
        doc.append(head)
    else:
        doc.append(head[: head.rindex("/>")].rstrip(" ") + ">" + body + syn.pad(0) + "</glyph>")
    doc.append(rng.choice(["\n", ""]))
    doc.append(syn.misc())
    return "".join(doc).encode("utf-8")


def write_ufo(root, d, rng, want):
    applied = set()
    os.makedirs(root)

    def put(rel, data):
        p = os.path.join(root, rel)
        os.makedirs(os.path.dirname(p), exist_ok=True)
        with open(p, "wb") as f:
            f.write(data)

    cds = []

    def cd_for(feature, key=None):
        c = {"want": want == feature}
        if key is not None:
            c["key"] = key
        cds.append(c)
        return c

    meta = {"creator": d.get("creator", "org.indep.writer"), "formatVersion": 3}
    put("metainfo.plist", plist_doc(meta, rng))
    if d.get("fontinfo") or rng.random() < 0.3:
        fi = dict(d.get("fontinfo", {}))
        if "guidelines" in fi:
            # in fontinfo.plist a guideline's colour is the specification's "r,g,b,a" string
            fi["guidelines"] = [dict(g, color=color_str(g["color"], rng)) if "color" in g else g for g in fi["guidelines"]]
        put("fontinfo.plist", plist_doc(fi, rng, cd_for("cdata-fontinfo")))
    if d.get("lib") or rng.random() < 0.2:
        put("lib.plist", plist_doc(d.get("lib", {}), rng, cd_for("cdata-font-lib")))
    if d.get("groups") or rng.random() < 0.2:
        put("groups.plist", plist_doc(d.get("groups", {}), rng))
    if d.get("kerning") or rng.random() < 0.2:
        put("kerning.plist", plist_doc(d.get("kerning", {}), rng))
    if d.get("features"):
        put("features.fea", d["features"].encode("utf-8"))
    put("layercontents.plist", plist_doc([[l["name"], l["dir"]] for l in d["layers"]], rng))
    for l in d["layers"]:
        contents = {}
        for i, g in enumerate(l.get("glyphs", [])):
            fn = g.get("file") or ("g%d_.glif" % i)
            contents[g["name"]] = fn
            put(l["dir"] + "/" + fn, glif_doc(g, rng, want, applied))
        put(l["dir"] + "/contents.plist", plist_doc(contents, rng))
        info = {}
        if "color" in l:
            info["color"] = color_str(l["color"], rng)
        if l.get("lib"):
            info["lib"] = l["lib"]
        if info or rng.random() < 0.1:
            c = cd_for("cdata-layer-color", "color") if want == "cdata-layer-color" else cd_for("cdata-layer-lib", "lib")
            put(l["dir"] + "/layerinfo.plist", plist_doc(info, rng, c))
    for k, v in d.get("data", {}).items():
        put("data/" + k, v)
    for k, v in d.get("images", {}).items():
        put("images/" + k, v)
    if any(c.get("applied") for c in cds):
        applied.add(want)
    return applied


def cmd_write(batch, outdir):
    for i, line in enumerate(open(batch)):
        seed, want, desc = line.rstrip("\n").split(" ", 2)
        rng = random.Random(int(seed))
        applied = write_ufo(os.path.join(outdir, "%d.ufo" % i), decode(desc), rng, want)
        print("+".join(sorted(applied)) if applied else "-")
    sys.stdout.flush()


if __name__ == "__main__":
    if sys.argv[1] == "read":
        cmd_read(sys.argv[2], int(sys.argv[3]))
    elif sys.argv[1] == "write":
        cmd_write(sys.argv[2], sys.argv[3])
    else:
        sys.exit(2)
