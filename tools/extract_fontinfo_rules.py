#!/usr/bin/env python3
"""C13: pull the rule constants of `FontInfo::validate` out of norad's src/fontinfo.rs and regenerate
lean/Norad/Generated/FontInfoRules.lean (DESIGN 3.5).

Sections (each falls back to the committed pinned copy tools/pinned/FontInfoRules.lean when its anchor in the
source is not found or its block contains a test the extractor does not recognise - a refactor is never an
alarm; the result then says `extraction: pinned`):

  lists       per PostScript list `if let Some(v) = &self.<field> { if v.len() > N .. [if v.len() % 2 != 0 ..] }`
              -> (field, N) and the "must be pairs" set; the order of the six blocks in the source is irrelevant
  dateLength  const DATE_LENGTH: usize = N;
  dateChars   the extra characters of the `.all(|b| b.is_ascii_digit() || b == ' ' ..)` whitelist
  dateOps     the operands of the `&&` chain: year slice, separators (position, character), two-digit fields
              (slice, inclusive range; `< N` / `<= N` / `(A..=B).contains` are normalised)
  selection   the bits of `v.contains(&N) || ..` in the openTypeOS2Selection block
  familyClass the two ranges of `Os2FamilyClass::is_valid`
  angle       the range of `!(A..=B).contains(&degrees)` in the guideline loop
  woff        which WOFF attributes `validate` tests with `is_empty()` (attribute, tested member), and the
              members tested inside the extension records

The tie theorems of Norad/Props/C13.lean (`source_*`, by `decide`, set-wise so that a reordering is harmless)
compare these with the tables mirroring the model's literals and with the independent tables of
Spec/FontInfo.lean, i.e. they are about what the code says NOW.
"""
import os
import re
import sys

ROOT = os.path.dirname(os.path.dirname(os.path.abspath(__file__)))
OUT = os.path.join(ROOT, "lean", "Norad", "Generated", "FontInfoRules.lean")
PINNED = os.path.join(ROOT, "tools", "pinned", "FontInfoRules.lean")

LIST_FIELDS = ["postscript_blue_values", "postscript_other_blues", "postscript_family_blues",
               "postscript_family_other_blues", "postscript_stem_snap_h", "postscript_stem_snap_v"]


class NotFound(Exception):
    pass


def matched(src, i, open_ch="{", close_ch="}"):
    """text between the bracket at src[i] and its partner"""
    depth, j = 1, i + 1
    while depth and j < len(src):
        if src[j] == open_ch:
            depth += 1
        elif src[j] == close_ch:
            depth -= 1
        j += 1
    if depth:
        raise NotFound("unbalanced brackets")
    return src[i + 1:j - 1]


def squeeze(s):
    """remove white space outside of string literals"""
    out, in_str, i = [], False, 0
    while i < len(s):
        c = s[i]
        if in_str:
            out.append(c)
            if c == "\\":
                out.append(s[i + 1])
                i += 1
            elif c == '"':
                in_str = False
        elif c == '"':
            in_str = True
            out.append(c)
        elif not c.isspace():
            out.append(c)
        i += 1
    return "".join(out)


def strip_comments(s):
    return re.sub(r"//[^\n]*", "", s)


def fn_body(src, name):
    m = re.search(r"\bfn\s+" + re.escape(name) + r"\b[^{;]*\{", src)
    if not m:
        raise NotFound("fn " + name)
    return strip_comments(matched(src, m.end() - 1))


def validate_body(src):
    return fn_body(src, "validate")


def some_block(body, field):
    m = re.search(r"if\s+let\s+Some\(\s*(\w+)\s*\)\s*=\s*&self\." + field + r"\s*\{", body)
    if not m:
        raise NotFound("block of " + field)
    return m.group(1), matched(body, m.end() - 1)


def lean_char(c):
    if c == "\\":
        return "'\\\\'"
    if c == "'":
        return "'\\''"
    if 0x20 <= ord(c) < 0x7F:
        return "'" + c + "'"
    return "(Char.ofNat 0x%X)" % ord(c)


def sec_lists(src):
    body = validate_body(src)
    limits, pairs = [], []
    for f in LIST_FIELDS:
        var, blk = some_block(body, f)
        n_if = len(re.findall(r"\bif\b", blk))
        m = re.findall(re.escape(var) + r"\.len\(\)\s*(>=|>)\s*([0-9_]+)\s*\{", blk)
        if len(m) != 1:
            raise NotFound("length test of " + f)
        op, n = m[0][0], int(m[0][1].replace("_", ""))
        if op == ">=":
            if n == 0:
                raise NotFound("length test of " + f)
            n -= 1
        p = re.findall(re.escape(var) + r"\.len\(\)\s*%\s*2\s*!=\s*0\s*\{", blk)
        if len(p) > 1 or n_if != 1 + len(p):
            raise NotFound("unrecognised test in the block of " + f)
        limits.append((f, n))
        if p:
            pairs.append(f)
    return ("/-- (field, maximal length) of the six PostScript lists -/\n"
            "def listLimits : List (String × Nat) :=\n  [" + ", ".join('("%s", %d)' % r for r in limits) + "]\n"
            "/-- the lists whose length must be even -/\n"
            "def pairLists : List String :=\n  [" + ", ".join('"%s"' % f for f in pairs) + "]\n")


def date_block(src):
    return some_block(validate_body(src), "open_type_head_created")


def sec_date_length(src):
    var, blk = date_block(src)
    m = re.search(r"\bconst\s+DATE_LENGTH\s*:\s*usize\s*=\s*([0-9_]+)\s*;", blk)
    if not m or not re.search(re.escape(var) + r"\.len\(\)\s*!=\s*DATE_LENGTH", blk):
        raise NotFound("DATE_LENGTH")
    return "def dateLength : Nat := %d\n" % int(m.group(1).replace("_", ""))


def sec_date_chars(src):
    var, blk = date_block(src)
    m = re.search(re.escape(var) + r"\.chars\(\)\.all\(\|(\w+)\|\s*(.*?)\)\s*\{", blk, flags=re.S)
    if not m:
        raise NotFound("character whitelist")
    b, cond = m.group(1), m.group(2)
    parts = [p.strip() for p in cond.split("||")]
    if parts[0] != b + ".is_ascii_digit()":
        raise NotFound("character whitelist")
    chars = []
    for p in parts[1:]:
        c = re.fullmatch(re.escape(b) + r"\s*==\s*'(.)'", p)
        if not c:
            raise NotFound("character whitelist")
        chars.append(c.group(1))
    return ("/-- characters allowed besides ASCII digits -/\ndef dateExtraChars : List Char :=\n  [" +
            ", ".join(lean_char(c) for c in chars) + "]\n")


def sec_date_ops(src):
    var, blk = date_block(src)
    m = re.search(r"if\s*!\s*\(", blk)
    if not m:
        raise NotFound("date chain")
    expr = squeeze(matched(blk, m.end() - 1, "(", ")"))
    # split on && at depth 0
    ops, depth, cur = [], 0, ""
    i = 0
    while i < len(expr):
        ch = expr[i]
        if ch in "([":
            depth += 1
        elif ch in ")]":
            depth -= 1
        if depth == 0 and expr.startswith("&&", i):
            ops.append(cur)
            cur = ""
            i += 2
            continue
        cur += ch
        i += 1
    ops.append(cur)
    v = re.escape(var)
    sl = v + r"\[(\d+)\.\.(\d+)\]"
    perr = r"\.parse::<u8>\(\)\.map_err\(\|_\|FontInfoErrorKind::InvalidOpenTypeHeadCreatedDate\)\?"
    rows = []
    for op in ops:
        m = re.fullmatch(sl + r"\.parse::<u16>\(\)\.is_ok\(\)", op)
        if m:
            rows.append((0, int(m.group(1)), int(m.group(2)), 0, 0))
            continue
        m = re.fullmatch(r"&" + sl + r'=="(.)"', op)
        if m:
            rows.append((1, int(m.group(1)), int(m.group(2)), ord(m.group(3)), 0))
            continue
        m = re.fullmatch(r"\((\d+)\.\.=(\d+)\)\.contains\(&" + sl + perr + r",?\)", op)
        if m:
            rows.append((2, int(m.group(3)), int(m.group(4)), int(m.group(1)), int(m.group(2))))
            continue
        m = re.fullmatch(sl + perr + r"(<=|<)(\d+)", op)
        if m:
            hi = int(m.group(4)) - (1 if m.group(3) == "<" else 0)
            if hi < 0:
                raise NotFound("date field bound")
            rows.append((2, int(m.group(1)), int(m.group(2)), 0, hi))
            continue
        raise NotFound("unrecognised operand of the date chain: " + op[:50])
    if len(rows) < 3:
        raise NotFound("date chain")
    return ("/-- operands of the `&&` chain, in source order: (kind, slice start, slice end, x, y) with\n"
            "    kind 0 = four-digit year, 1 = separator (x = character code), 2 = two-digit field in x..=y -/\n"
            "def dateOps : List (Nat × Nat × Nat × Nat × Nat) :=\n  [" +
            ",\n   ".join("(%d, %d, %d, %d, %d)" % r for r in rows) + "]\n")


def sec_selection(src):
    var, blk = some_block(validate_body(src), "open_type_os2_selection")
    m = re.search(r"\bif\s+(.*?)\s*\{", blk, flags=re.S)
    if not m or len(re.findall(r"\bif\b", blk)) != 1:
        raise NotFound("selection test")
    bits = []
    for p in m.group(1).split("||"):
        c = re.fullmatch(re.escape(var) + r"\.contains\(&(\d+)\)", p.strip())
        if not c:
            raise NotFound("selection test")
        bits.append(int(c.group(1)))
    return "def selectionForbidden : List Nat :=\n  [" + ", ".join(str(b) for b in bits) + "]\n"


def sec_family_class(src):
    body = re.sub(r"\s+", "", fn_body(src, "is_valid"))
    m = re.fullmatch(r"\((\d+)\.\.=(\d+)\)\.contains\(&self\.class_id\)&&\((\d+)\.\.=(\d+)\)\.contains\(&self\.subclass_id\)", body)
    if not m:
        raise NotFound("Os2FamilyClass::is_valid")
    a, b, c, d = (int(x) for x in m.groups())
    return ("/-- inclusive ranges of class and sub-class -/\n"
            "def classRange : Nat × Nat := (%d, %d)\ndef subclassRange : Nat × Nat := (%d, %d)\n" % (a, b, c, d))


def sec_angle(src):
    var, blk = some_block(validate_body(src), "guidelines")
    m = re.findall(r"!\s*\(\s*(\d+)(?:\.0)?\s*\.\.=\s*(\d+)(?:\.0)?\s*\)\s*\.contains\(\s*&\s*degrees\s*\)", blk)
    if len(m) != 1:
        raise NotFound("angle range")
    return "/-- inclusive range of a guideline angle, degrees -/\ndef angleRange : Nat × Nat := (%d, %d)\n" % (int(m[0][0]), int(m[0][1]))


def sec_woff(src):
    body = validate_body(src)
    rows, nested = [], []
    for m in re.finditer(r"if\s+let\s+Some\(\s*(\w+)\s*\)\s*=\s*&self\.(woff_\w+)\s*\{", body):
        var, field = m.group(1), m.group(2)
        blk = matched(body, m.end() - 1)
        t = re.search(r"\bif\s+" + re.escape(var) + r"(?:\.(\w+))?\.is_empty\(\)\s*\{", blk)
        if not t:
            raise NotFound("emptiness test of " + field)
        rows.append((field, t.group(1) or ""))
        inner = re.findall(r"\b(?!%s\b)\w+\.(\w+)\.is_empty\(\)" % re.escape(var), blk)
        nested += inner
        n_if = len(re.findall(r"\bif\b", blk))
        n_known = 1 + len(re.findall(r"\bif\s+(?!%s\b)\w+\.\w+\.is_empty\(\)" % re.escape(var), blk))
        if n_if != n_known:
            raise NotFound("unrecognised test in the block of " + field)
    if not rows:
        raise NotFound("WOFF blocks")
    rows.sort()
    return ("/-- (attribute, member tested with `is_empty()`; \"\" = the attribute itself) -/\n"
            "def woffNonEmpty : List (String × String) :=\n  [" + ",\n   ".join('("%s", "%s")' % r for r in rows) + "]\n"
            "/-- members tested inside the extension records -/\n"
            "def woffNested : List String :=\n  [" + ", ".join('"%s"' % n for n in sorted(set(nested))) + "]\n")


SECTIONS = [("lists", sec_lists), ("dateLength", sec_date_length), ("dateChars", sec_date_chars),
            ("dateOps", sec_date_ops), ("selection", sec_selection), ("familyClass", sec_family_class),
            ("angle", sec_angle), ("woff", sec_woff)]

HEADER = """/-!
GENERATED by tools/extract_fontinfo_rules.py from norad's src/fontinfo.rs on every `./check C13` run.  Do not edit.
A pinned copy of every section lives in tools/pinned/FontInfoRules.lean and is used for a section whose anchor
in the source is not found (a refactor is not an alarm).  Core Lean only.
-/
namespace Generated.FontInfoRules

"""


def split_sections(text):
    out = {}
    for m in re.finditer(r"-- BEGIN (\w+)\n(.*?)-- END \1\n", text, flags=re.S):
        out[m.group(1)] = m.group(2)
    return out


def generate(repo):
    pinned = split_sections(open(PINNED).read()) if os.path.exists(PINNED) else {}
    err = None
    try:
        src = open(os.path.join(repo, "src", "fontinfo.rs")).read()
    except OSError as ex:
        src, err = None, ex
    parts, fell_back = [], []
    for name, f in SECTIONS:
        try:
            if src is None:
                raise NotFound(str(err))
            body = f(src)
        except (NotFound, IndexError, ValueError, AttributeError) as ex:
            if name not in pinned:
                raise
            body = pinned[name]
            fell_back.append("%s (%s)" % (name, ex))
        parts.append("-- BEGIN %s\n%s-- END %s\n" % (name, body, name))
    return HEADER + "\n".join(parts) + "\nend Generated.FontInfoRules\n", fell_back


def run():
    repo = os.environ.get("VERIF_REPO", "/repo").rstrip("/") or "/repo"
    text, fell_back = generate(repo)
    old = open(OUT).read() if os.path.exists(OUT) else None
    if old != text:
        os.makedirs(os.path.dirname(OUT), exist_ok=True)
        with open(OUT, "w") as f:
            f.write(text)
    ptext = open(PINNED).read() if os.path.exists(PINNED) else None
    return {"extraction": "pinned" if fell_back else "full", "pinned_sections": fell_back, "source": repo,
            "changed_since_last_run": old != text, "differs_from_pinned_copy": ptext is not None and ptext != text,
            "table": os.path.relpath(OUT, ROOT)}


if __name__ == "__main__":
    r = run()
    print(r)
    if len(sys.argv) > 1 and sys.argv[1] == "--pin":
        import shutil
        os.makedirs(os.path.dirname(PINNED), exist_ok=True)
        shutil.copy(OUT, PINNED)
        print("pinned")
