#!/bin/bash
# usage: tools/tiecheck.sh <seeded dir> [...]   -- source-tie-only run against a change: every extractor on a scratch
# worktree with the patch applied, then `lake build Norad` (all property modules). Prints per seed which extractor
# sections fell back to pinned and which modules no longer build. Restores the generated files afterwards.
# Holds the lake lock of ./check so that it does not race with checks running in parallel.
for D in "$@"; do
  D=$(readlink -f "$D"); ID=$(basename "$D")
  W=/tmp/sw/tie-$ID-$$
  git -C /repo worktree add -q --detach "$W" HEAD || continue
  ( cd "$W" && git apply "$D/patch.diff" ) || { echo "$ID PATCH-DOES-NOT-APPLY"; git -C /repo worktree remove --force "$W"; continue; }
  (
    flock 9
    cd /verif
    PINNED=$(VERIF_REPO="$W" python3 tools/extract.py --all | grep -E "'extraction': 'pinned'|'extraction': 'error'" | cut -d' ' -f1 | tr '\n' ' ')
    FAILS=$(cd lean && lake build Norad 2>&1 | grep -E "^✖" | sed 's/.*Building //; s/ (.*//' | tr '\n' ' ')
    python3 tools/extract.py --all > /dev/null
    echo "$ID pinned=[${PINNED}] broken=[${FAILS}]"
  ) 9> /verif/.build/lake.lock
  git -C /repo worktree remove --force "$W"
done
( flock 9; cd /verif/lean && lake build Norad 2>&1 | grep -E "^✖" ) 9> /verif/.build/lake.lock
