#!/usr/bin/env python3
"""C15: the CALL SITE of the kerning upconversion and of the groups validator in src/font.rs, statement by statement, as a
step table (lean/Norad/Generated/UpconvSite.lean, pinned copy tools/pinned/UpconvSite.lean).

  matchArms   the arms of `let (groups, kerning) = match (meta.format_version, groups, kerning) { .. }` in `load_impl`
  armSteps    the statements of the `(_, Some(g), k)` arm: which glyph set is built, the arguments and results of
              `upconvert_kerning`, that `validate_groups` runs on the converted groups and its error is returned with `?`,
              what the arm evaluates to
  validators  `load_groups` (validate what was read, `?`) and `save_impl` (validate `self.groups`, `?`)

Known statement shapes are listed in `arm_step`; any other statement in the arm => Anchor => the section is taken from the pinned
copy (`extraction: pinned`, no alarm).  Known shape, other content => other table => `source_upconversion_call_site_matches_model`
(Props/KernSource.lean) fails."""
import os
import re
import sys

sys.path.insert(0, os.path.dirname(os.path.abspath(__file__)))
from extract_filename_consts import split_sections  # noqa: E402
from extract_upconv import Anchor, norm, walk, find_top, block_at, fn_parts, split_stmts, ID  # noqa: E402

ROOT = os.path.dirname(os.path.dirname(os.path.abspath(__file__)))
OUT = os.path.join(ROOT, "lean", "Norad", "Generated", "UpconvSite.lean")
PINNED = os.path.join(ROOT, "tools", "pinned", "UpconvSite.lean")

LAYER_NAMES = "layers.iter().flat_map(|l| l.iter().map(|g| g.name().clone())).collect()"


def q(s):
    if not re.fullmatch(r"[A-Za-z0-9_.:,()&?| <>=*;-]*", s):
        raise Anchor("unexpected characters in " + repr(s))
    return '"' + s + '"'


def rows(name, doc, rs):
    return ("/-- %s -/\ndef %s : List (String × String) :=\n  [" % (doc, name)
            + ",\n   ".join("(%s, %s)" % (q(a), q(b)) for a, b in rs) + "]\n")


def the_match(src):
    _, body = fn_parts(src, "load_impl")
    m = re.search(r"let \((" + ID + r"), (" + ID + r")\) = match \(meta\.format_version, (" + ID + r"), (" + ID + r")\) \{", body)
    if not m:
        raise Anchor("load_impl: let (groups, kerning) = match (meta.format_version, groups, kerning)")
    blk, _ = block_at(body, m.end() - 1)
    arms, i = [], 0
    while i < len(blk):
        j = None
        for p, c, d in walk(blk, i):
            if d == 0 and blk.startswith("=>", p):
                j = p
                break
        if j is None:
            if blk[i:].strip():
                raise Anchor("load_impl: after the last arm: " + blk[i:i + 40])
            break
        pat = blk[i:j].strip()
        k = j + 2
        while blk[k] == " ":
            k += 1
        if blk[k] == "{":
            inner, e = block_at(blk, k)
            arms.append((pat, inner, True))
            i = e
        else:
            e = find_top(blk, k, ",")
            e = len(blk) if e < 0 else e
            arms.append((pat, blk[k:e].strip(), False))
            i = e
        mm = re.match(r" ?,? ?", blk[i:])
        i += mm.end()
    return m.groups(), arms


def sec_arms(src):
    (og, ok, ig, ik), arms = the_match(src["font"])
    rs = [("bind", "%s,%s <- %s,%s" % (og, ok, ig, ik))]
    for pat, body, is_block in arms:
        rs.append((pat.replace(" ", ""), "block" if is_block else body.replace(" ", "")))
    return rows("matchArms", "what the match binds and scrutinises, then (pattern, value | block) per arm of the match in `load_impl`, in source order", rs)


def arm_step(s, alias):
    m = re.fullmatch(r"let (" + ID + r") = (" + ID + r")\.unwrap_or_default\(\);", s)
    if m:   # a name for the default-filled kerning: resolved where it is used, no row of its own
        alias[m.group(1)] = m.group(2) + ".unwrap_or_default"
        return []
    m = re.fullmatch(r"match validate_groups\(&(" + ID + r")\) (\{.*\})", s)
    if m:
        blk, _ = block_at(m.group(2), 0)
        arms = [a.strip() for a in split_top(blk, ",") if a.strip()]
        out, value = [], None
        for a in arms:
            mo = re.fullmatch(r"Ok\(\(\)\) => (\(Some\(" + ID + r"\), Some\(" + ID + r"\)\))", a)
            me = re.fullmatch(r"Err\((" + ID + r")\) => return Err\(FontLoadError::(\w+)\(\1\)\)", a)
            mg = re.fullmatch(r"Err\(_\) if (.+?) => (.+)", a)
            if mo and value is None:
                value = mo.group(1)
            elif me:
                out.append(("validate_groups(%s)" % m.group(1), "%s returned" % me.group(2)))
            elif mg:
                out.append(("validate_groups(%s)" % m.group(1), "error dropped when %s; value %s" % (mg.group(1), mg.group(2).replace(" ", ""))))
            else:
                raise Anchor("load_impl, legacy arm: arm of the match on the validator: " + a[:60])
        if value is None:
            raise Anchor("load_impl, legacy arm: no Ok arm")
        return out + arm_step(value, alias)
    return [arm_step1(s, alias)]


def split_top(t, ch):
    out, last = [], 0
    for j, c, d in walk(t, 0):
        if d == 0 and c == ch:
            out.append(t[last:j])
            last = j + 1
    out.append(t[last:])
    return out


def arm_step1(s, alias):
    m = re.fullmatch(r"let (" + ID + r") ?: ?NameList = (.+);", s)
    if m:
        rhs = m.group(2)
        if rhs == LAYER_NAMES:
            return ("let " + m.group(1), "names of the glyphs of the loaded layers")
        mm = re.fullmatch(r"(" + ID + r")\.clone\(\)", rhs)
        if mm:
            return ("let " + m.group(1), "clone of " + mm.group(1))
        raise Anchor("glyph set built from: " + rhs[:60])
    m = re.fullmatch(r"let \((" + ID + r"), (" + ID + r")\) = upconversion::upconvert_kerning\( ?&(" + ID + r"), &(" + ID
                     + r")((?:\.unwrap_or_default\(\))?), &(" + ID + r"),? ?\);", s)
    if m:
        a, b, g, k, d, gs = m.groups()
        if k in alias and not d:
            k, d = alias[k].split(".")[0], True
        return ("let %s,%s" % (a, b), "upconvert_kerning(%s, %s%s, %s)" % (g, k, ".unwrap_or_default" if d else "", gs))
    m = re.fullmatch(r"validate_groups\(&(" + ID + r")\)\.map_err\(FontLoadError::(\w+)\)(\??);", s)
    if m:
        return ("validate_groups(%s)" % m.group(1), "%s %s" % (m.group(2), "returned" if m.group(3) else "dropped"))
    m = re.fullmatch(r"let _ = validate_groups\(&(" + ID + r")\)[^;]*;", s)
    if m:
        return ("validate_groups(%s)" % m.group(1), "dropped")
    m = re.fullmatch(r"\(Some\((" + ID + r")\), Some\((" + ID + r")\)\)", s)
    if m:
        return ("value", "Some(%s),Some(%s)" % m.groups())
    raise Anchor("load_impl, legacy arm: unknown statement: " + s[:80])


def sec_steps(src):
    _, arms = the_match(src["font"])
    blocks = [(p, b) for p, b, is_block in arms if is_block]
    if len(blocks) != 1:
        raise Anchor("load_impl: exactly one arm with a block expected")
    pat, body = blocks[0]
    alias, rs = {}, [("arm", pat.replace(" ", ""))]
    for s in split_stmts(body):
        rs += arm_step(s, alias)
    return rows("armSteps", "the statements of the arm that converts (formats 1 and 2, groups.plist present), in source order", rs)


def sec_validators(src):
    rs = []
    _, body = fn_parts(src["font"], "load_groups")
    st = split_stmts(body)
    if len(st) != 3 or not re.fullmatch(r"let (" + ID + r") ?: ?Groups = plist::from_file\(.*\)\?;", st[0]):
        raise Anchor("load_groups: three statements")
    v = re.fullmatch(r"let (" + ID + r") ?: ?Groups = .*", st[0]).group(1)
    m = re.fullmatch(r"validate_groups\(&(" + ID + r")\)\.map_err\(FontLoadError::(\w+)\)(\??);", st[1])
    if not m or st[2] != "Ok(%s)" % v:
        raise Anchor("load_groups: validate / Ok")
    rs.append(("load_groups", "read %s; validate_groups(%s) %s %s; Ok(%s)" % (v, m.group(1), m.group(2), "returned" if m.group(3) else "dropped", v)))
    _, body = fn_parts(src["font"], "save_impl")
    ms = re.findall(r"validate_groups\(&([\w.]+)\)\.map_err\(FontWriteError::(\w+)\)(\??);", body)
    if len(ms) != 1 or len(re.findall(r"\bvalidate_groups\(", body)) != 1:
        raise Anchor("save_impl: one validate_groups statement")
    rs.append(("save_impl", "validate_groups(%s) %s %s" % (ms[0][0], ms[0][1], "returned" if ms[0][2] else "dropped")))
    return rows("validators", "the two other calls of the validator: on what `load_groups` read, on `self.groups` in `save_impl`", rs)


SECTIONS = [("matchArms", sec_arms), ("armSteps", sec_steps), ("validators", sec_validators)]

HEADER = """/-!
GENERATED by tools/extract_upconv_site.py from norad's src/font.rs on every `./check C15` / `./check C10` run.  Do not edit.
The call site of `upconvert_kerning` / `validate_groups` in `load_impl`, `load_groups`, `save_impl`, statement by statement.
Pinned copy of every section: tools/pinned/UpconvSite.lean (used when a statement is of no known shape).  Core Lean only.
-/
namespace Generated.UpconvSite

"""


def generate(repo):
    pinned = split_sections(open(PINNED).read()) if os.path.exists(PINNED) else {}
    try:
        src, err = {"font": open(os.path.join(repo, "src", "font.rs")).read()}, None
    except OSError as ex:
        src, err = None, ex
    parts, fell_back = [], []
    for name, f in SECTIONS:
        try:
            if src is None:
                raise Anchor(str(err))
            body = f(src)
        except (Anchor, IndexError, ValueError, KeyError) as ex:
            if name not in pinned:
                raise
            body = pinned[name]
            fell_back.append("%s (%s)" % (name, ex))
        parts.append("-- BEGIN %s\n%s-- END %s\n" % (name, body, name))
    return HEADER + "\n".join(parts) + "\nend Generated.UpconvSite\n", fell_back


def run():
    repo = os.environ.get("VERIF_REPO", "/repo").rstrip("/") or "/repo"
    text, fell_back = generate(repo)
    old = open(OUT).read() if os.path.exists(OUT) else None
    if old != text:
        with open(OUT, "w") as f:
            f.write(text)
    ptext = open(PINNED).read() if os.path.exists(PINNED) else None
    return {"extraction": "pinned" if fell_back else "full", "pinned_sections": fell_back, "source": repo,
            "changed_since_last_run": old != text, "differs_from_pinned_copy": ptext is not None and ptext != text,
            "table": os.path.relpath(OUT, ROOT)}


if __name__ == "__main__":
    r = run()
    print(r)
    if len(sys.argv) > 1 and sys.argv[1] == "--pin":
        if r["extraction"] != "full":
            sys.exit("not pinned: extraction is not full")
        import shutil
        shutil.copy(OUT, PINNED)
        print("pinned")
