"""Table extraction step of ./check (DESIGN 3.5): `CFG["extract"]` names one extractor or a list of extractors;
extractor `x` lives in tools/extract_x.py and exposes `run() -> dict` (it regenerates its file under
lean/Norad/Generated/ from the norad working tree named by VERIF_REPO, default /repo, and falls back to its pinned
copy when an anchor is not found)."""
import importlib


def run(spec):
    names = [spec] if isinstance(spec, str) else list(spec)
    out = {}
    for n in names:
        out[n] = importlib.import_module("extract_" + n).run()
    if len(out) == 1:
        return next(iter(out.values()))
    return out
