"""Table extraction step of ./check (DESIGN 3.5): `CFG["extract"]` names one extractor or a list of extractors;
extractor `x` lives in tools/extract_x.py and exposes `run() -> dict` (it regenerates its file under
lean/Norad/Generated/ from the norad working tree named by VERIF_REPO, default /repo, and falls back to its pinned
copy when an anchor is not found)."""
import importlib


def run(spec):
    names = [spec] if isinstance(spec, str) else list(spec)
    out = {}
    for n in names:
        out[n] = importlib.import_module("extract_" + n).run()
    if len(out) == 1:
        return next(iter(out.values()))
    return out


def run_all():
    """every extractor in tools/extract_*.py (cheap: a few regex passes each)"""
    import glob, os
    here = os.path.dirname(os.path.abspath(__file__))
    out = {}
    for f in sorted(glob.glob(os.path.join(here, "extract_*.py"))):
        n = os.path.basename(f)[len("extract_"):-3]
        try:
            out[n] = importlib.import_module("extract_" + n).run()
        except Exception as e:   # an extractor must never decide a verdict
            out[n] = {"extraction": "error", "reason": repr(e)}
    return out


if __name__ == "__main__":
    import sys, os
    sys.path.insert(0, os.path.dirname(os.path.abspath(__file__)))
    if "--all" in sys.argv:
        for k, v in run_all().items():
            print(k, v)
