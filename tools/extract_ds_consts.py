#!/usr/bin/env python3
"""C18: source-level tie of the designspace check (DESIGN 11.8).  Regenerates lean/Norad/Generated/DsConsts.lean
from the norad tree named by VERIF_REPO (default /repo) AND from the vendored crates its designspace writer and
reader go through, as found under ~/.cargo/registry/src/*/ (quick-xml-0.37*, plist-1.*, time-0.3*).

Sections (each falls back to the committed pinned copy tools/pinned/DsConsts.lean when its anchor is not found - a
refactor is never an alarm; the result then says `extraction: pinned`):

  entityTable        quick-xml escape.rs `_escape`: the `match bytes[new_pos]` arms, byte -> replacement
  escapeSets         the byte sets of `pub fn escape / partial_escape / minimal_escape`
  serializerSets     se/simple_type.rs `escape_list` and `escape_item`: byte set per (target, level) arm
  serializerDefaults `Serializer::new` (se/mod.rs): `level`, `expand_empty_elements`; the `QuoteTarget` the element
                     serializer uses for attribute values (se/element.rs) and the content serializer for text
                     (se/content.rs); which of escape_list/escape_item `SimpleTypeSerializer::serialize_str` calls
  unescapeTable      escape.rs `resolve_xml_entity` arms; `parse_number`: hex prefix, code 0 refused
  noradWriter        designspace.rs `DesignSpaceDocument::save`: declaration literal, `indent(ch, n)`, trailing
                     newline, whether `expand_empty_elements(` / `set_quote_level(` is called
  fieldTable         every `pub struct` of designspace.rs: per field the serde name (`@x` = attribute), the type
                     class (one / opt / vec), `skip_serializing_if`, `with`, `default`; rows sorted by serde name
                     (field order and Rust field names behind a `rename` do not reach the table)
  wrappers           the `serde_from_field!(module, item, ..)` invocations
  processing         `RuleProcessing`: variant names under `rename_all`, the `#[default]` variant
  glueKeywords       serde_xml_plist.rs: `ValueKeyword::from_str` arms (reader), `serialize_field("tag", ..)` of
                     `serialize_within` + the key tag of `DictionaryInnerHelper` (writer), the wrapper field `dict`
  dateFormat         plist date.rs: format description used by `from_xml_format` / `to_xml_format`, plist epoch;
                     time formattable.rs: the year range `Rfc3339` formatting accepts

The `source_*` theorems of Norad/Props/C18.lean (by `decide`) compare these with the tables of the model
(Model/DSTables.lean), i.e. they are about what the code says NOW.
"""
import glob
import os
import re
import sys

ROOT = os.path.dirname(os.path.dirname(os.path.abspath(__file__)))
OUT = os.path.join(ROOT, "lean", "Norad", "Generated", "DsConsts.lean")
PINNED = os.path.join(ROOT, "tools", "pinned", "DsConsts.lean")


class NotFound(Exception):
    pass


def strip_comments(src):
    src = re.sub(r"/\*.*?\*/", "", src, flags=re.S)
    return re.sub(r"//[^\n]*", "", src)


def block_after(src, start):
    i = src.find("{", start)
    if i < 0:
        raise NotFound("block")
    depth, j = 1, i + 1
    while depth and j < len(src):
        depth += {"{": 1, "}": -1}.get(src[j], 0)
        j += 1
    if depth:
        raise NotFound("block")
    return src[i:j]


def fn_block(src, name):
    m = re.search(r"\bfn\s+" + re.escape(name) + r"\b", src)
    if not m:
        raise NotFound("fn " + name)
    return block_after(src, m.end())


BYTE_ESC = {"\\t": 9, "\\n": 10, "\\r": 13, "\\'": 39, '\\"': 34, "\\\\": 92}


def byte_lit(tok):
    """b'<' -> 60"""
    m = re.fullmatch(r"b'(\\.|[^\\'])'", tok.strip())
    if not m:
        raise NotFound("byte literal " + tok)
    c = m.group(1)
    if c in BYTE_ESC:
        return BYTE_ESC[c]
    if len(c) != 1 or ord(c) > 127:
        raise NotFound("byte literal " + tok)
    return ord(c)


def byte_alts(expr):
    toks = re.findall(r"b'(?:\\.|[^\\'])'", expr)
    if not toks:
        raise NotFound("no byte literals in " + expr[:40])
    return [byte_lit(t) for t in toks]


def lean_str(s):
    out = []
    for ch in s:
        if ch == "\n":
            out.append("\\n")
        elif ch in '"\\':
            out.append("\\" + ch)
        elif 32 <= ord(ch) < 127:
            out.append(ch)
        else:
            raise NotFound("unexpected character in literal")
    return '"' + "".join(out) + '"'


def nat_list(xs):
    return "[" + ", ".join(str(x) for x in xs) + "]"


def crate_dir(pattern):
    base = os.path.expanduser("~/.cargo/registry/src")
    hits = sorted(glob.glob(os.path.join(base, "*", pattern)))
    hits = [h for h in hits if os.path.isdir(h)]
    if not hits:
        raise NotFound("crate " + pattern)
    return hits[-1]


class Src:
    def __init__(self, repo):
        self.repo = repo
        self.cache = {}

    def norad(self, rel):
        return self.read(os.path.join(self.repo, "src", rel))

    def crate(self, pattern, rel):
        return self.read(os.path.join(crate_dir(pattern), rel))

    def read(self, p):
        if p not in self.cache:
            try:
                self.cache[p] = strip_comments(open(p, encoding="utf-8").read())
            except OSError as ex:
                raise NotFound(str(ex))
        return self.cache[p]


# ------------------------------------------------------------------ quick-xml

def sec_entity(S):
    body = fn_block(S.crate("quick-xml-0.37*", "src/escape.rs"), "_escape")
    m = re.search(r"match\s+bytes\[new_pos\]", body)
    if not m:
        raise NotFound("match bytes[new_pos]")
    arms = block_after(body, m.end())
    rows = []
    for am in re.finditer(r"(b'(?:\\.|[^\\'])')\s*=>\s*escaped\.extend_from_slice\(\s*b\"((?:\\.|[^\"\\])*)\"\s*\)", arms):
        rows.append((byte_lit(am.group(1)), am.group(2)))
    if len(rows) < 2:
        raise NotFound("entity arms")
    return ("/-- `_escape`: byte -> what is written instead -/\ndef entityTable : List (Nat × String) :=\n  [" +
            ", ".join("(%d, %s)" % (b, lean_str(r)) for b, r in rows) + "]\n")


def sec_escape_sets(S):
    src = S.crate("quick-xml-0.37*", "src/escape.rs")
    out = []
    for fn, name in (("escape", "escapeFull"), ("partial_escape", "escapePartial"), ("minimal_escape", "escapeMinimal")):
        body = fn_block(src, fn)
        m = re.search(r"matches!\(\s*ch\s*,([^)]*)\)", body)
        if not m:
            raise NotFound("matches! in " + fn)
        out.append("def %s : List Nat := %s\n" % (name, nat_list(sorted(byte_alts(m.group(1))))))
    return "".join(out)


def arms_of(body):
    """(target, level) => _escape(value, |ch| match ch { ... })  ->  [(target, level, sorted bytes)]"""
    rows = []
    for m in re.finditer(r"\(\s*(\w+)\s*,\s*(\w+)\s*\)\s*=>\s*_escape\(\s*value\s*,\s*\|ch\|\s*match\s+ch", body):
        blk = block_after(body, m.end())
        yes = []
        for am in re.finditer(r"((?:b'(?:\\.|[^\\'])'\s*\|?\s*)+)=>\s*true", blk):
            yes += byte_alts(am.group(1))
        rows.append((m.group(1), m.group(2), sorted(set(yes))))
    if not rows:
        raise NotFound("no (target, level) arms")
    return rows


def sec_serializer_sets(S):
    src = S.crate("quick-xml-0.37*", "src/se/simple_type.rs")
    out = []
    for fn, name in (("escape_list", "escapeList"), ("escape_item", "escapeItem")):
        rows = arms_of(fn_block(src, fn))
        out.append("/-- `%s`: (target, level, escaped bytes) per arm -/\ndef %s : List (String × String × List Nat) :=\n  [" % (fn, name) +
                   ",\n   ".join("(%s, %s, %s)" % (lean_str(t), lean_str(l), nat_list(b)) for t, l, b in rows) + "]\n")
    return "".join(out)


def sec_serializer_defaults(S):
    mod = S.crate("quick-xml-0.37*", "src/se/mod.rs")
    m = re.search(r"pub\s+fn\s+new\s*\(\s*writer\s*:[^)]*\)\s*->\s*Self", mod)
    if not m:
        raise NotFound("Serializer::new")
    body = block_after(mod, m.end())
    lv = re.search(r"level\s*:\s*QuoteLevel::(\w+)", body)
    ee = re.search(r"expand_empty_elements\s*:\s*(true|false)", body)
    if not lv or not ee:
        raise NotFound("level / expand_empty_elements in Serializer::new")
    el = S.crate("quick-xml-0.37*", "src/se/element.rs")
    el = el.split("#[cfg(test)]")[0]
    at = re.search(r"write_char\(\s*'(\\.|[^\\'])'\s*\)\?;\s*value\.serialize\(\s*SimpleTypeSerializer\s*\{[^}]*?"
                   r"target\s*:\s*QuoteTarget::(\w+)", el, flags=re.S)
    if not at:
        raise NotFound("QuoteTarget of attribute values")
    quote = {'\\"': '"', "\\'": "'"}.get(at.group(1), at.group(1))
    if len(quote) != 1:
        raise NotFound("attribute quote character")
    co = S.crate("quick-xml-0.37*", "src/se/content.rs")
    co = co.split("#[cfg(test)]")[0]
    m = re.search(r"fn\s+into_simple_type_serializer\w*\b", co)
    tt = None
    if m:
        tt = re.search(r"target\s*:\s*QuoteTarget::(\w+)", block_after(co, m.end()))
    if not tt:
        raise NotFound("QuoteTarget of text content")
    st = S.crate("quick-xml-0.37*", "src/se/simple_type.rs")
    m = re.search(r"impl\s*<[^>]*>\s*Serializer\s+for\s+SimpleTypeSerializer", st)
    if not m:
        raise NotFound("impl Serializer for SimpleTypeSerializer")
    impl = block_after(st, m.end())
    fs = fn_block(impl, "serialize_str")
    uses = re.search(r"\b(escape_list|escape_item)\s*\(", fs)
    if not uses:
        raise NotFound("escape function of SimpleTypeSerializer::serialize_str")
    return ("def defaultLevel : String := %s\ndef defaultExpandEmpty : Bool := %s\n"
            "def attrTarget : String := %s\ndef textTarget : String := %s\n"
            "/-- the character written around an attribute value -/\ndef attrQuoteChar : Nat := %d\n"
            "/-- the function `SimpleTypeSerializer::serialize_str` escapes with -/\ndef strEscapeFn : String := %s\n"
            % (lean_str(lv.group(1)), ee.group(1), lean_str(at.group(2)), lean_str(tt.group(1)), ord(quote),
               lean_str(uses.group(1))))


def sec_unescape(S):
    src = S.crate("quick-xml-0.37*", "src/escape.rs")
    body = fn_block(src, "resolve_xml_entity")
    rows = re.findall(r"b\"(\w+)\"\s*=>\s*\"((?:\\.|[^\"\\]))\"", body)
    if len(rows) < 2:
        raise NotFound("resolve_xml_entity arms")
    pairs = []
    for name, ch in rows:
        c = {'\\"': '"', "\\'": "'", "\\\\": "\\"}.get(ch, ch)
        if len(c) != 1:
            raise NotFound("entity value " + ch)
        pairs.append((name, ord(c)))
    pn = fn_block(src, "parse_number")
    hx = re.search(r"strip_prefix\(\s*'(\w)'\s*\)", pn)
    zero = re.search(r"if\s+code\s*==\s*0\s*\{\s*return\s+Err", pn)
    if not hx:
        raise NotFound("hex prefix in parse_number")
    return ("/-- `resolve_xml_entity`: name -> character -/\ndef xmlEntities : List (String × Nat) :=\n  [" +
            ", ".join("(%s, %d)" % (lean_str(n), c) for n, c in pairs) + "]\n" +
            "def charRefHexPrefix : String := %s\ndef charRefZeroRefused : Bool := %s\n"
            % (lean_str(hx.group(1)), "true" if zero else "false"))


# ------------------------------------------------------------------ norad

def sec_norad_writer(S):
    # comments must stay out, string literals in: read raw and strip only // comments that are not inside a literal
    p = os.path.join(S.repo, "src", "designspace.rs")
    try:
        raw = open(p, encoding="utf-8").read()
    except OSError as ex:
        raise NotFound(str(ex))
    m = re.search(r"pub\s+fn\s+save\b", raw)
    if not m:
        raise NotFound("fn save")
    body = block_after(raw, m.end())
    d = re.search(r"String::from\(\s*\"((?:\\.|[^\"\\])*)\"\s*\)", body)
    ind = re.search(r"\.indent\(\s*'(\\.|[^\\'])'\s*,\s*(\d+)\s*\)", body)
    if not d or not ind:
        raise NotFound("declaration literal / indent(..) in save")
    decl = d.group(1).replace("\\n", "\n").replace('\\"', '"').replace("\\'", "'")
    ch = {"\\t": "\t"}.get(ind.group(1), ind.group(1))
    if len(ch) != 1:
        raise NotFound("indent char")
    body_nc = strip_comments(body)
    nl = re.search(r"\.push\(\s*'\\n'\s*\)", body_nc) is not None
    return ("def dsDeclaration : String := %s\ndef dsIndentChar : Nat := %d\ndef dsIndentWidth : Nat := %s\n"
            "def dsTrailingNewline : Bool := %s\ndef dsCallsExpandEmpty : Bool := %s\ndef dsCallsQuoteLevel : Bool := %s\n"
            % (lean_str(decl), ord(ch), ind.group(2), "true" if nl else "false",
               "true" if "expand_empty_elements(" in body_nc else "false",
               "true" if "set_quote_level(" in body_nc else "false"))


def split_top(s):
    parts, depth, cur, instr = [], 0, "", False
    for ch in s:
        if ch == '"':
            instr = not instr
        if not instr and ch in "([<":
            depth += 1
        if not instr and ch in ")]>":
            depth -= 1
        if ch == "," and depth == 0 and not instr:
            parts.append(cur.strip())
            cur = ""
        else:
            cur += ch
    if cur.strip():
        parts.append(cur.strip())
    return parts


def serde_args(attr):
    d = {}
    for part in split_top(attr):
        m = re.fullmatch(r"(\w+)\s*=\s*\"([^\"]*)\"", part)
        if m:
            d[m.group(1)] = m.group(2)
            continue
        m = re.fullmatch(r"rename\s*\((.*)\)", part, flags=re.S)
        if m:
            inner = serde_args(m.group(1))
            d["rename"] = "serialize:%s|deserialize:%s" % (inner.get("serialize", "?"), inner.get("deserialize", "?"))
            continue
        if re.fullmatch(r"\w+", part):
            d[part] = True
            continue
        raise NotFound("serde argument " + part)
    return d


def type_class(t):
    t = re.sub(r"\s+", "", t)
    if t.startswith("Option<"):
        return "opt"
    if t.startswith("Vec<"):
        return "vec"
    return "one"


def struct_rows(src, name):
    m = re.search(r"pub\s+struct\s+" + name + r"\b", src)
    if not m:
        raise NotFound("struct " + name)
    body = block_after(src, m.end())[1:-1]
    rows = []
    for fm in re.finditer(r"((?:#\[[^\]]*\]\s*)*)pub\s+(\w+)\s*:\s*([^,\n]+(?:<[^\n]*>)?)\s*,", body):
        attrs = " ".join(re.findall(r"#\[serde\((.*?)\)\]", fm.group(1), flags=re.S))
        a = serde_args(attrs) if attrs.strip() else {}
        sname = a.get("rename", fm.group(2))
        rows.append((sname, type_class(fm.group(3)), a.get("skip_serializing_if", ""), a.get("with", ""),
                     bool(a.get("default", False))))
    if not rows:
        raise NotFound("fields of " + name)
    return sorted(rows)


STRUCTS = ["DesignSpaceDocument", "Axis", "AxisMapping", "Rules", "Rule", "Substitution", "ConditionSet", "Condition",
           "Source", "Instance", "Dimension"]


def sec_fields(S):
    src = S.norad("designspace.rs")
    out = ["/-- per struct: (serde name, type class, skip_serializing_if, with, default), sorted by serde name -/\n"
           "def fields : List (String × List (String × String × String × String × Bool)) :=\n  ["]
    items = []
    for st in STRUCTS:
        rows = struct_rows(src, st)
        items.append("(%s,\n    [%s])" % (lean_str(st), ",\n     ".join(
            "(%s, %s, %s, %s, %s)" % (lean_str(n), lean_str(k), lean_str(s), lean_str(w), "true" if d else "false")
            for n, k, s, w, d in rows)))
    out.append(",\n   ".join(items) + "]\n")
    # the predicates the skip rules name, where they are norad's own
    m = re.search(r"fn\s+is_false\s*\(\s*value\s*:\s*&bool\s*\)\s*->\s*bool", src)
    if not m:
        raise NotFound("fn is_false")
    b = re.sub(r"\s+", "", block_after(src, m.end()))
    if b in ("{!(*value)}", "{!*value}"):
        neg = True
    elif b in ("{*value}", "{(*value)}"):
        neg = False
    else:
        raise NotFound("body of is_false: " + b)
    m = re.search(r"impl\s+Rules\b", src)
    if not m:
        raise NotFound("impl Rules")
    b = re.sub(r"\s+", "", fn_block(block_after(src, m.end()), "is_empty"))
    looks_rules = "self.rules.is_empty()" in b or "self.rules.len()==0" in b
    looks_proc = re.search(r"self\.processing==RuleProcessing::(default\(\)|First)", b) is not None or \
        "matches!(self.processing,RuleProcessing::First)" in b
    if not looks_rules:
        raise NotFound("body of Rules::is_empty: " + b)
    out.append("/-- `is_false(v)` is `!v` -/\ndef isFalseIsNegation : Bool := %s\n" % ("true" if neg else "false"))
    out.append(
               "/-- `Rules::is_empty` tests the rule list / also the processing mode -/\n"
               "def rulesEmptyTestsRules : Bool := true\ndef rulesEmptyTestsProcessing : Bool := %s\n"
               % ("true" if looks_proc else "false"))
    root = re.search(r"#\[serde\(rename\s*=\s*\"(\w+)\"\)\]\s*pub\s+struct\s+DesignSpaceDocument", src)
    if not root:
        raise NotFound("root rename")
    out.append("def rootName : String := %s\n" % lean_str(root.group(1)))
    return "".join(out)


def sec_wrappers(S):
    src = S.norad("designspace.rs")
    rows = re.findall(r"serde_from_field!\(\s*(\w+)\s*,\s*(\w+)\s*,", src)
    rows = [r for r in rows if r[0] not in ("locations",)]
    if len(rows) < 2:
        raise NotFound("serde_from_field! invocations")
    return ("/-- list wrappers: (module = field it is used for, item element) -/\ndef wrappers : List (String × String) :=\n  [" +
            ", ".join("(%s, %s)" % (lean_str(a), lean_str(b)) for a, b in sorted(rows)) + "]\n")


def sec_processing(S):
    src = S.norad("designspace.rs")
    m = re.search(r"((?:#\[[^\]]*\]\s*)*)pub\s+enum\s+RuleProcessing\b", src)
    if not m:
        raise NotFound("enum RuleProcessing")
    ra = re.search(r"rename_all\s*=\s*\"(\w+)\"", m.group(1))
    body = block_after(src, m.end())[1:-1]
    vs = re.findall(r"((?:#\[[^\]]*\]\s*)*)(\w+)\s*,", body)
    if not vs:
        raise NotFound("variants")
    conv = {"lowercase": str.lower, "UPPERCASE": str.upper, None: (lambda s: s)}
    mode = ra.group(1) if ra else None
    if mode not in conv:
        raise NotFound("rename_all " + str(mode))
    names, default = [], None
    for attrs, v in vs:
        rn = re.search(r"rename\s*=\s*\"(\w+)\"", attrs)
        n = rn.group(1) if rn else conv[mode](v)
        names.append(n)
        if "#[default]" in re.sub(r"\s+", "", attrs):
            default = n
    if default is None:
        raise NotFound("#[default] variant")
    return ("def processingNames : List String := [%s]\ndef processingDefault : String := %s\n"
            % (", ".join(lean_str(n) for n in names), lean_str(default)))


def sec_glue(S):
    src = S.norad("serde_xml_plist.rs")
    m = re.search(r"impl\s+FromStr\s+for\s+ValueKeyword", src)
    if not m:
        raise NotFound("impl FromStr for ValueKeyword")
    rd = re.findall(r"\"(\w+)\"\s*=>\s*Ok\(Self::(\w+)\)", block_after(src, m.end()))
    body = fn_block(src, "serialize_within")
    wr = re.findall(r"Value::(\w+)(?:\((\w+)\))?\s*=>\s*parent\.serialize_field\(\s*\"(\w+)\"", body)
    m = re.search(r"impl\s+Serialize\s+for\s+DictionaryInnerHelper", src)
    key = re.search(r"serialize_field\(\s*\"(\w+)\"\s*,\s*key\s*\)", block_after(src, m.end())) if m else None
    m = re.search(r"impl\s+FromStr\s+for\s+KeyKeywordLiteral", src)
    rkey = re.search(r"\"(\w+)\"\s*=>\s*Ok\(Self\)", block_after(src, m.end())) if m else None
    wrap = re.search(r"struct\s+DictHelper\s*\{\s*(?:#\[serde\(\s*rename\s*=\s*\"(\w+)\"\s*\)\]\s*)?(\w+)\s*:", src)
    wwrap = re.search(r"lib\.serialize_field\(\s*\"(\w+)\"", src)
    if len(rd) < 5 or len(wr) < 5 or not key or not rkey or not wrap or not wwrap:
        raise NotFound("glue keyword tables")
    wrows = []
    for var, arg, tag in wr:
        v = var if arg not in ("true", "false") else "Boolean:" + arg
        wrows.append((v, tag))
    return ("/-- reader: element name -> value kind (`ValueKeyword::from_str`) -/\ndef glueReadKeywords : List (String × String) :=\n  [" +
            ", ".join("(%s, %s)" % (lean_str(a), lean_str(b)) for a, b in sorted(rd)) + "]\n" +
            "/-- writer: value kind -> element name (`serialize_within`) -/\ndef glueWriteTags : List (String × String) :=\n  [" +
            ", ".join("(%s, %s)" % (lean_str(a), lean_str(b)) for a, b in sorted(wrows)) + "]\n" +
            "def glueKeyTagWritten : String := %s\ndef glueKeyTagRead : String := %s\n"
            "def glueWrapperWritten : String := %s\ndef glueWrapperRead : String := %s\n"
            % (lean_str(key.group(1)), lean_str(rkey.group(1)), lean_str(wwrap.group(1)), lean_str(wrap.group(1) or wrap.group(2))))


# ------------------------------------------------------------------ plist / time

def sec_date(S):
    src = S.crate("plist-1.*", "src/date.rs")
    f = re.search(r"parse\(\s*date\s*,\s*&(\w+)\s*\)", fn_block(src, "from_xml_format"))
    t = re.search(r"\.format\(\s*&(\w+)\s*\)", fn_block(src, "to_xml_format"))
    ep = re.search(r"PLIST_EPOCH_UNIX_TIMESTAMP\s*:\s*Duration\s*=\s*Duration::from_secs\(\s*([\d_]+)\s*\)", src)
    if not f or not t or not ep:
        raise NotFound("format descriptions / epoch in plist date.rs")
    tm = S.crate("time-0.3*", "src/formatting/formattable.rs")
    m = re.search(r"impl\s+sealed::Sealed\s+for\s+Rfc3339", tm)
    if not m:
        raise NotFound("impl Sealed for Rfc3339")
    yr = re.search(r"!\(\s*(-?[\d_]+)\s*\.\.\s*(-?[\d_]+)\s*\)\.contains\(\s*&value\.calendar_year", block_after(tm, m.end()))
    if not yr:
        raise NotFound("year range of Rfc3339 formatting")
    return ("def dateFromFormat : String := %s\ndef dateToFormat : String := %s\ndef plistEpochUnix : Nat := %d\n"
            "/-- `Rfc3339` formatting refuses a year outside `lo .. hi` (hi exclusive) -/\n"
            "def rfc3339YearLo : Int := %d\ndef rfc3339YearHi : Int := %d\n"
            % (lean_str(f.group(1)), lean_str(t.group(1)), int(ep.group(1).replace("_", "")),
               int(yr.group(1).replace("_", "")), int(yr.group(2).replace("_", ""))))


SECTIONS = [("entityTable", sec_entity), ("escapeSets", sec_escape_sets), ("serializerSets", sec_serializer_sets),
            ("serializerDefaults", sec_serializer_defaults), ("unescapeTable", sec_unescape),
            ("noradWriter", sec_norad_writer), ("fieldTable", sec_fields), ("wrappers", sec_wrappers),
            ("processing", sec_processing), ("glueKeywords", sec_glue), ("dateFormat", sec_date)]

HEADER = """/-!
GENERATED by tools/extract_ds_consts.py from norad's src/designspace.rs and src/serde_xml_plist.rs and from the vendored
quick-xml 0.37 / plist 1.x / time 0.3 sources on every `./check` run.  Do not edit.  A pinned copy of every section
lives in tools/pinned/DsConsts.lean and is used for a section whose anchor in the source is not found (a refactor is
not an alarm).  Core Lean only.
-/
namespace Generated.DsConsts

"""


def split_sections(text):
    out = {}
    for m in re.finditer(r"-- BEGIN (\w+)\n(.*?)-- END \1\n", text, flags=re.S):
        out[m.group(1)] = m.group(2)
    return out


def generate(repo):
    pinned = split_sections(open(PINNED).read()) if os.path.exists(PINNED) else {}
    S = Src(repo)
    parts, fell_back = [], []
    for name, f in SECTIONS:
        try:
            body = f(S)
        except (NotFound, IndexError, ValueError, AttributeError) as ex:
            if name not in pinned:
                raise
            body = pinned[name]
            fell_back.append("%s (%s)" % (name, ex))
        parts.append("-- BEGIN %s\n%s-- END %s\n" % (name, body, name))
    return HEADER + "\n".join(parts) + "\nend Generated.DsConsts\n", fell_back


def run():
    repo = os.environ.get("VERIF_REPO", "/repo").rstrip("/") or "/repo"
    text, fell_back = generate(repo)
    old = open(OUT).read() if os.path.exists(OUT) else None
    if old != text:
        with open(OUT, "w") as f:
            f.write(text)
    ptext = open(PINNED).read() if os.path.exists(PINNED) else None
    return {"extraction": "pinned" if fell_back else "full", "pinned_sections": fell_back, "source": repo,
            "changed_since_last_run": old != text, "differs_from_pinned_copy": ptext is not None and ptext != text,
            "table": os.path.relpath(OUT, ROOT)}


if __name__ == "__main__":
    r = run()
    print(r)
    if len(sys.argv) > 1 and sys.argv[1] == "--pin":
        import shutil
        os.makedirs(os.path.dirname(PINNED), exist_ok=True)
        shutil.copy(OUT, PINNED)
        print("pinned")
