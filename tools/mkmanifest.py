#!/usr/bin/env python3
"""Regenerates MANIFEST.json from tools/manifest_src.py (keeps the file valid and consistent)."""
import json, os, sys
sys.path.insert(0, os.path.dirname(os.path.abspath(__file__)))
import manifest_src as M
root = os.path.dirname(os.path.dirname(os.path.abspath(__file__)))
checks = []
for pid, c in sorted(M.CHECKS.items()):
    checks.append({
        "property_id": pid,
        "quick_cmd": f"./check {pid} --tier quick",
        "thorough_cmd": f"./check {pid} --tier thorough",
        "evidence_file": f"/verif/evidence/{pid}.json",
        "replay_cmd_template": f"./check {pid} --replay {{path}}",
        "engine": "lean-proof+correspondence",
        "level_claimed": {"category": "proof", "text": c["text"], "design_ref": c["design_ref"]},
        "level_note": c["note"],
        "technique": c["technique"],
    })
man = {
    "version": 1,
    "setup_cmd": "./setup.sh",
    "hooks": {
        "guard": "norad_verif",
        "enable": "no source hooks are needed: every check drives the public API of the crate at /repo through a path dependency (features kurbo, and rayon for C19); RUSTFLAGS='--cfg norad_verif' is reserved and currently guards nothing",
        "baseline_off_cmd": "cd /repo && cargo test --workspace --no-fail-fast --offline",
        "source_commits": M.HOOK_COMMITS,
        "add_only": True,
    },
    "engines": [{
        "name": "lean-proof+correspondence",
        "path": "/verif/check",
        "serves_properties": sorted(M.CHECKS),
        "kind_free_text": "Lean 4 theorems about hand-written executable models (lean/Norad), audited axioms; Rust harness on the real crate vs compiled Lean driver on the same protocol lines; specification oracle evaluated on the implementation's own output",
    }],
    "checks": checks,
    "notes": M.NOTES,
    "not_applicable": [{"property_id": p, "reason": r} for p, r in sorted(M.NOT_CLAIMED.items())],
}
json.dump(man, open(os.path.join(root, "MANIFEST.json"), "w"), indent=1)
print("checks:", len(checks), "not claimed:", len(man["not_applicable"]))
