#!/bin/bash
# usage: tools/seedregress.sh <logfile> <seeded dir> [<seeded dir> ...]
# Re-runs the owning property's quick check against every given seeded change (no demo, no suite): regression of the
# final checks against all seeded changes. One line per seed in the log: <id> CAUGHT|ESCAPED <rules>
LOG=$1; shift
for D in "$@"; do
  ID=$(basename "$D")
  P=${ID%%-*}
  W=/tmp/sw/reg-$ID-$$
  git -C /repo worktree add -q --detach "$W" HEAD || continue
  ( cd "$W" && git apply "$D/patch.diff" ) || { echo "$ID PATCH-DOES-NOT-APPLY" >> "$LOG"; git -C /repo worktree remove --force "$W"; continue; }
  OUT=$(cd /verif && VERIF_REPO="$W" ./check "$P" 2>&1 | grep -E "^VIOLATION|tooling")
  RULES=""
  for rp in $(echo "$OUT" | grep -o "replay=[^ ]*" | cut -d= -f2); do
    RULES="$RULES $(head -1 "$rp" | grep -o "rule '[^']*'" | head -1)"
    head -1 "$rp" | grep -q "no longer shown" && RULES="$RULES correspondence-only"
  done
  if grep -q '"benign": true' "$D/meta.json" 2>/dev/null; then
    # a benign change: quiet is right, "no-failing-input-found" is tolerated, a concrete replay is a false alarm
    if ! echo "$OUT" | grep -q "^VIOLATION"; then echo "$ID BENIGN-QUIET" >> "$LOG";
    elif echo "$OUT" | grep -v "no-failing-input-found" | grep -q "^VIOLATION"; then echo "$ID BENIGN-FALSE-ALARM $RULES" >> "$LOG";
    else echo "$ID BENIGN-NO-FAILING-INPUT $RULES" >> "$LOG"; fi
  elif echo "$OUT" | grep -q "^VIOLATION"; then echo "$ID CAUGHT $RULES" >> "$LOG"; else echo "$ID ESCAPED $(echo $OUT | cut -c1-80)" >> "$LOG"; fi
  git -C /repo worktree remove --force "$W"
  H=$(python3 -c "import hashlib,sys;print(hashlib.blake2b(sys.argv[1].encode(),digest_size=4).hexdigest())" "$W")
  rm -rf /verif/.build/harness-$H /verif/.build/target-$H /verif/.build/target-$H-*
done
echo "REGRESS DONE" >> "$LOG"
