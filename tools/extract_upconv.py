#!/usr/bin/env python3
"""C15 / C10: translator for the passes themselves.  Reads `validate_groups` (src/groups.rs) and `make_unique_group_name`,
`find_known_kerning_groups`, `upconvert_kerning` (src/upconversion.rs) of the tree under check and regenerates
lean/Norad/Generated/Upconv.lean (`Kern.Gen.*`), statement by statement, with the variable names of the Rust.

Statement shapes the translator knows (everything else inside a translated region is an unknown shape => the section
falls back to its pinned copy in tools/pinned/Upconv.lean and the run says `extraction: pinned`; nothing is ever skipped):

    if C { return Err(GroupsValidationError::V ..); }              guard
    if C { .. } else if C { .. } [else { .. }]                     chain (the rest of the block follows every branch)
    for x in M { if !S.insert(x) { return Err(..V..); } }          `insertAll S M`
    S.insert(x.clone());                                           `setInsert x S`          (S a BTreeSet)
    for y in Z.keys() { .. } / for (a, b) in Z { .. }              nested loop -> its own recursive function
    let v = make_unique_group_name(Name::new(&format!("P{}", x.replace("L", ""))).unwrap(), &G);
    T.insert(k.clone(), v.clone());  G.insert(k, G'.get(x).unwrap().clone());  M.insert(k.clone(), *v);
    let v = T.get(k).unwrap_or(d);   let mut m: BTreeMap<Name, f64> = BTreeMap::new();
  conditions: `&&`-chains of  [!]x.is_empty()  [!]x.starts_with("lit")  x.len() OP n  [!]M.contains_key(x)  [!]S.contains(x)
  make_unique_group_name: exactly  guard-return / counter / new_name / while / new_name  (format string, start value,
  increment, the maps consulted and the order of the two statements of the body are translated)

Every loop becomes a recursive function whose extra parameters are the variables of the enclosing function its body mentions,
so a body that consults another map than today's gets another signature and the tie theorem no longer type-checks.
The tie theorems are in lean/Norad/Props/KernSource.lean (`source_validate_eq_model`, `source_upconvert_eq_model`, ...).
"""
import os
import re
import sys

sys.path.insert(0, os.path.dirname(os.path.abspath(__file__)))
from extract_filename_consts import lean_str, unescape, split_sections  # noqa: E402

ROOT = os.path.dirname(os.path.dirname(os.path.abspath(__file__)))
OUT = os.path.join(ROOT, "lean", "Norad", "Generated", "Upconv.lean")
PINNED = os.path.join(ROOT, "tools", "pinned", "Upconv.lean")

ID = r"[a-z_][a-z0-9_]*"
STR = r'"((?:\\.|[^"\\])*)"'


class Anchor(Exception):
    pass


# ---------------------------------------------------------------- text utilities (string-literal aware)

def norm(text):
    out, i, n = [], 0, len(text)
    while i < n:
        c = text[i]
        if c == '"':
            j = i + 1
            while j < n and text[j] != '"':
                j += 2 if text[j] == "\\" else 1
            out.append(text[i:j + 1])
            i = j + 1
        elif text.startswith("//", i):
            j = text.find("\n", i)
            i = n if j < 0 else j
        elif text.startswith("/*", i):
            raise Anchor("block comment")
        else:
            out.append(c)
            i += 1
    return re.sub(r"\s+", " ", "".join(out)).strip()


def walk(t, i):
    """yield (index, char, depth) for characters outside string literals, from i"""
    depth, n = 0, len(t)
    while i < n:
        c = t[i]
        if c == '"':
            j = i + 1
            while j < n and t[j] != '"':
                j += 2 if t[j] == "\\" else 1
            i = j + 1
            continue
        if c in "([{":
            yield i, c, depth
            depth += 1
        elif c in ")]}":
            depth -= 1
            yield i, c, depth
        else:
            yield i, c, depth
        i += 1


def find_top(t, i, ch):
    for j, c, d in walk(t, i):
        if d == 0 and c == ch:
            return j
        if d < 0:
            return -1
    return -1


def block_at(t, i):
    """t[i] == '{' -> (inner text, index after the closing brace)"""
    if t[i] != "{":
        raise Anchor("block expected at: " + t[i:i + 40])
    for j, c, d in walk(t, i):
        if c == "}" and d == 0:
            return t[i + 1:j].strip(), j + 1
    raise Anchor("unbalanced block")


def fn_parts(src, name):
    """(parameter text, normalised body) of `fn name(..) .. { .. }`"""
    m = re.search(r"\bfn\s+" + re.escape(name) + r"\s*\(", src)
    if not m:
        raise Anchor("fn " + name)
    t = norm(src[m.end() - 1:])
    close = None
    for j, c, d in walk(t, 0):
        if c == ")" and d == 0:
            close = j
            break
    if close is None:
        raise Anchor("fn %s: parameter list" % name)
    params = t[1:close].strip().rstrip(",")
    b = find_top(t, close + 1, "{")
    if b < 0:
        raise Anchor("fn %s: body" % name)
    body, _ = block_at(t, b)
    return params, body


def params_of(ptext):
    out = []
    for p in [x.strip() for x in ptext.split(",") if x.strip()]:
        m = re.fullmatch(r"(?:mut )?(" + ID + r") ?: ?(.+)", p)
        if not m:
            raise Anchor("parameter: " + p)
        out.append((m.group(1), m.group(2).replace(" ", "")))
    return out


def block_stmt_end(t, i):
    """end index of an `if`/`for`/`while` statement starting at i (with its else branches)"""
    while True:
        b = find_top(t, i, "{")
        if b < 0:
            raise Anchor("block statement without a block: " + t[i:i + 40])
        _, j = block_at(t, b)
        m = re.match(r" ?else\b ?", t[j:])
        if not m:
            return j
        i = j + m.end()
        if not (t.startswith("if ", i) or t.startswith("{", i)):
            raise Anchor("else what: " + t[i:i + 40])


def split_stmts(t):
    out, i, n = [], 0, len(t)
    while True:
        while i < n and t[i] == " ":
            i += 1
        if i >= n:
            return out
        if re.match(r"(if|for|while)\b", t[i:]):
            j = block_stmt_end(t, i)
            out.append(t[i:j].strip())
            i = j
            m = re.match(r" ?;", t[i:])
            if m:
                i += m.end()
        else:
            j = find_top(t, i, ";")
            if j < 0:
                out.append(t[i:].strip())
                return out
            out.append(t[i:j + 1].strip())
            i = j + 1


def parse_if(s):
    """-> ([(cond, block)], else block | None)"""
    arms, i = [], 0
    while True:
        if not s.startswith("if ", i):
            raise Anchor("if expected: " + s[i:i + 40])
        b = find_top(s, i, "{")
        cond = s[i + 3:b].strip()
        blk, j = block_at(s, b)
        arms.append((cond, blk))
        m = re.match(r" ?else ?", s[j:])
        if not m:
            if s[j:].strip():
                raise Anchor("after if: " + s[j:j + 40])
            return arms, None
        i = j + m.end()
        if s.startswith("{", i):
            blk, j = block_at(s, i)
            if s[j:].strip():
                raise Anchor("after else: " + s[j:j + 40])
            return arms, blk


def lit(body):
    s = unescape(body)
    if not s:
        return "([] : Str)"
    return lean_str(s)


def uses(text, var):
    return re.search(r"(?<![\w.])" + re.escape(var) + r"\b(?!\s*[(!:])", text) is not None


# ---------------------------------------------------------------- conditions

CMP = {"==": "==", "!=": "!=", "<": "<", "<=": "≤", ">": ">", ">=": "≥"}


def atom(a):
    a = a.strip()
    neg = ""
    if a.startswith("!"):
        neg, a = "!", a[1:].strip()
    m = re.fullmatch(r"(" + ID + r")\.is_empty\(\)", a)
    if m:
        return neg + "%s.isEmpty" % m.group(1)
    m = re.fullmatch(r"(" + ID + r")\.starts_with\( ?" + STR + r" ?\)", a)
    if m:
        return neg + "%s.isPrefixOf %s" % (lit(m.group(2)), m.group(1))
    m = re.fullmatch(r"(" + ID + r")\.len\(\) ?(==|!=|<=|>=|<|>) ?([0-9_]+)", a)
    if m and not neg:
        n = int(m.group(3).replace("_", ""))
        if m.group(2) in ("==", "!="):
            return "byteLen %s %s %d" % (m.group(1), CMP[m.group(2)], n)
        return "decide (byteLen %s %s %d)" % (m.group(1), CMP[m.group(2)], n)
    m = re.fullmatch(r"(" + ID + r")\.contains_key\( ?&?(" + ID + r") ?\)", a)
    if m:
        return neg + "hasKey %s %s" % (m.group(2), m.group(1))
    m = re.fullmatch(r"(" + ID + r")\.contains\( ?&?(" + ID + r") ?\)", a)
    if m:
        return neg + "%s.contains %s" % (m.group(1), m.group(2))
    raise Anchor("unknown condition: " + a)


def cond(c):
    parts, i, last = [], 0, 0
    for j, ch, d in walk(c, 0):
        if d == 0 and c.startswith("&&", j):
            parts.append(c[last:j])
            last = j + 2
        if d == 0 and c.startswith("||", j):
            raise Anchor("`||` in a condition: " + c)
    parts.append(c[last:])
    return " && ".join(atom(p) for p in parts)


VERR = {"InvalidName": ".invalidName", "OverlappingKerningGroups": ".overlapping"}


def verr(e):
    m = re.fullmatch(r"GroupsValidationError::(\w+)(?: ?\{.*\})?", e.strip())
    if not m or m.group(1) not in VERR:
        raise Anchor("unknown error: " + e)
    return VERR[m.group(1)]


# ---------------------------------------------------------------- statement translation

class Env:
    def __init__(self, fn, kinds, sets=(), inner=None):
        self.fn, self.kinds, self.sets, self.inner = fn, kinds, list(sets), inner
        self.mutated = []

    def mut(self, v):
        if v not in self.mutated:
            self.mutated.append(v)


def ind(lines, k=1):
    return ["  " * k + l for l in lines]


def tr(stmts, cont, env):
    """Lean lines for the statement list, followed by `cont` (lines) on every path that falls through"""
    if not stmts:
        return list(cont)
    s, rest = stmts[0], stmts[1:]
    K = env.kinds
    # --- guard with early return
    m = re.fullmatch(r"if (.+?) \{ return Err\((.+)\); \}", s)
    if m and "guard" in K and "{" not in m.group(1):
        return ["if %s then .error %s else" % (cond(m.group(1)), verr(m.group(2)))] + tr(rest, cont, env)
    # --- the validator's member loop
    m = re.fullmatch(r"for (" + ID + r") in (" + ID + r") \{ if !(" + ID + r")\.insert\(\1\) \{ return Err\((.+)\); \} \}", s)
    if m and "insertall" in K:
        env.mut(m.group(3))
        return (["match insertAll %s %s with" % (m.group(3), m.group(2)), "| none => .error %s" % verr(m.group(4)),
                 "| some %s =>" % m.group(3)] + tr(rest, cont, env))
    # --- chain
    if s.startswith("if "):
        arms, els = parse_if(s)
        out = []
        for k, (c, blk) in enumerate(arms):
            out.append(("if %s then" if k == 0 else "else if %s then") % cond(c))
            out += ind(tr(split_stmts(blk) + rest, cont, env))
        out.append("else")
        out += ind(tr((split_stmts(els) if els is not None else []) + rest, cont, env))
        return out
    # --- BTreeSet::insert
    m = re.fullmatch(r"(" + ID + r")\.insert\( ?(" + ID + r")\.clone\(\) ?\);", s)
    if m and "setinsert" in K:
        if m.group(1) not in env.sets:
            raise Anchor("insert into something that is not one of the ordered sets: " + s)
        env.mut(m.group(1))
        return ["let %s := setInsert %s %s" % (m.group(1), m.group(2), m.group(1))] + tr(rest, cont, env)
    # --- nested loops
    m = re.fullmatch(r"for (" + ID + r") in (" + ID + r")\.keys\(\) (\{.*\})", s)
    if m and "keysloop" in K:
        body, _ = block_at(m.group(3), 0)
        return env.inner("keys", (m.group(1),), m.group(2), body, env) + tr(rest, cont, env)
    m = re.fullmatch(r"for \((" + ID + r"), (" + ID + r")\) in (" + ID + r") (\{.*\})", s)
    if m and "pairloop" in K:
        body, _ = block_at(m.group(4), 0)
        return env.inner("pairs", (m.group(1), m.group(2)), m.group(3), body, env) + tr(rest, cont, env)
    # --- fresh name
    m = re.fullmatch(r"let (" + ID + r") = make_unique_group_name\( ?Name::new\(&format!\(" + STR + r", (" + ID + r")\.replace\("
                     + STR + r", \"\"\)\)\)\.unwrap\(\), &?(" + ID + r"),? ?\);", s)
    if m and "unique" in K:
        v, fmt, x, legacy, g = m.groups()
        if not fmt.endswith("{}") or "{" in fmt[:-2] or "}" in fmt[:-2]:
            raise Anchor("format string: " + fmt)
        return (["match mkName (%s ++ removeAll %s %s) with" % (lit(fmt[:-2]), lit(legacy), x),
                 '| none => .panic "%s: Name::new(..).unwrap()"' % env.fn, "| some arg0 =>",
                 "match makeUnique sfx arg0 %s (%s.length + 1) with" % (g, g),
                 "| .panic s => .panic s", "| .outOfFuel => .outOfFuel", "| .ok %s =>" % v] + tr(rest, cont, env))
    # --- map inserts
    m = re.fullmatch(r"(" + ID + r")\.insert\( ?(" + ID + r")(?:\.clone\(\))?, (" + ID + r")\.get\( ?&?(" + ID + r") ?\)\.unwrap\(\)\.clone\(\) ?\);", s)
    if m and "mapinsert" in K:
        g, k, g2, x = m.groups()
        env.mut(g)
        return (["match lookup %s %s with" % (x, g2), '| none => .panic "%s: %s.get(..).unwrap()"' % (env.fn, g2),
                 "| some got =>", "let %s := insert %s got %s" % (g, k, g)] + tr(rest, cont, env))
    m = re.fullmatch(r"(" + ID + r")\.insert\( ?(" + ID + r")(?:\.clone\(\))?, \*?(" + ID + r")(?:\.clone\(\))? ?\);", s)
    if m and "mapinsert" in K:
        g, k, v = m.groups()
        env.mut(g)
        return ["let %s := insert %s %s %s" % (g, k, v, g)] + tr(rest, cont, env)
    # --- lookups with a default, fresh inner map
    m = re.fullmatch(r"let (" + ID + r") = (" + ID + r")\.get\( ?&?(" + ID + r") ?\)\.unwrap_or\( ?&?(" + ID + r") ?\);", s)
    if m and "getor" in K:
        return ["let %s := (lookup %s %s).getD %s" % (m.group(1), m.group(3), m.group(2), m.group(4))] + tr(rest, cont, env)
    m = re.fullmatch(r"let mut (" + ID + r") ?: ?BTreeMap<Name, f64> = BTreeMap::new\(\);", s)
    if m and "newmap" in K:
        return ["let %s : Seconds := []" % m.group(1)] + tr(rest, cont, env)
    raise Anchor("%s: unknown statement: %s" % (env.fn, s[:90]))


def lean_def(doc, head, arms):
    out = ["/-- %s -/" % doc, head]
    for pat, lines in arms:
        if len(lines) == 1:
            out.append("  | %s => %s" % (pat, lines[0]))
        else:
            out.append("  | %s =>" % pat)
            out += ind(lines, 2)
    return "\n".join(out) + "\n"


# ---------------------------------------------------------------- validate_groups

def sec_validate(src):
    ptext, body = fn_parts(src["groups"], "validate_groups")
    ps = params_of(ptext)
    if len(ps) != 1 or ps[0][1] != "&Groups":
        raise Anchor("validate_groups: parameters")
    st = split_stmts(body)
    sets = []
    while st and re.fullmatch(r"let mut (" + ID + r") = HashSet::new\(\);", st[0]):
        sets.append(re.fullmatch(r"let mut (" + ID + r") = HashSet::new\(\);", st[0]).group(1))
        st = st[1:]
    if len(sets) != 2 or len(st) != 2 or st[1] != "Ok(())":
        raise Anchor("validate_groups: two sets, one loop, Ok(())")
    m = re.fullmatch(r"for \((" + ID + r"), (" + ID + r")\) in &?" + re.escape(ps[0][0]) + r" (\{.*\})", st[0])
    if not m:
        raise Anchor("validate_groups: the loop")
    lb, _ = block_at(m.group(3), 0)
    env = Env("validate_groups", {"guard", "insertall"})
    lines = tr(split_stmts(lb), ["validateLoop rest %s %s" % tuple(sets)], env)
    if any(v not in sets for v in env.mutated):
        raise Anchor("validate_groups: inserts into %s" % env.mutated)
    return (lean_def("`validate_groups`: `for (%s, %s) in %s`, state `%s`, `%s` (`HashSet`s, membership only)"
                     % (m.group(1), m.group(2), ps[0][0], sets[0], sets[1]),
                     "def validateLoop : Groups → List Str → List Str → Except VErr Unit",
                     [("[], _, _", [".ok ()"]),
                      ("(%s, %s) :: rest, %s, %s" % (m.group(1), m.group(2), sets[0], sets[1]), lines)])
            + "\ndef validateGroups (%s : Groups) : Except VErr Unit :=\n  validateLoop %s [] []\n" % (ps[0][0], ps[0][0]))


# ---------------------------------------------------------------- make_unique_group_name

def sec_unique(src):
    ptext, body = fn_parts(src["upconv"], "make_unique_group_name")
    ps = params_of(ptext)
    if [t for _, t in ps] != ["Name", "&Groups"]:
        raise Anchor("make_unique_group_name: parameters")
    name, g = ps[0][0], ps[1][0]
    st = split_stmts(body)
    if len(st) != 5:
        raise Anchor("make_unique_group_name: five statements")
    m0 = re.fullmatch(r"if !(" + ID + r")\.contains_key\(&" + name + r"\) \{ return " + name + r"; \}", st[0])
    m1 = re.fullmatch(r"let mut (" + ID + r") = ([0-9_]+);", st[1])
    m2 = re.fullmatch(r"let mut (" + ID + r") = " + name + r"\.clone\(\);", st[2])
    if not (m0 and m1 and m2):
        raise Anchor("make_unique_group_name: guard / counter / candidate")
    ctr, new = m1.group(1), m2.group(1)
    m3 = re.fullmatch(r"while (" + ID + r")\.contains_key\(&" + new + r"\) (\{.*\})", st[3])
    if not m3 or st[4] != new:
        raise Anchor("make_unique_group_name: while / result")
    wb, _ = block_at(m3.group(2), 0)
    ws = split_stmts(wb)
    asg = r"%s = Name::new\(&format!\(%s((?:, %s)*)\)\)\.unwrap\(\);" % (new, STR, ID)
    inc = r"%s \+= ([0-9_]+);" % ctr
    if len(ws) != 2:
        raise Anchor("make_unique_group_name: loop body")
    if re.fullmatch(asg, ws[0]) and re.fullmatch(inc, ws[1]):
        ma, mi, pre = re.fullmatch(asg, ws[0]), re.fullmatch(inc, ws[1]), False
    elif re.fullmatch(inc, ws[0]) and re.fullmatch(asg, ws[1]):
        ma, mi, pre = re.fullmatch(asg, ws[1]), re.fullmatch(inc, ws[0]), True
    else:
        raise Anchor("make_unique_group_name: loop body statements")
    step = int(mi.group(1).replace("_", ""))
    fmt, args = ma.group(1), [a.strip() for a in ma.group(2).split(",") if a.strip()]
    pieces = fmt.split("{}")
    if len(pieces) != len(args) + 1 or any("{" in p or "}" in p for p in pieces):
        raise Anchor("make_unique_group_name: format string")
    terms = []
    for k, p in enumerate(pieces):
        if p:
            terms.append(lit(p))
        if k < len(args):
            if args[k] == name:
                terms.append(name)
            elif args[k] == ctr:
                terms.append("sfx (%s + %d)" % (ctr, step) if pre else "sfx %s" % ctr)
            else:
                raise Anchor("make_unique_group_name: format argument " + args[k])
    if not terms:
        raise Anchor("make_unique_group_name: empty candidate")
    return (lean_def("the `while` of `make_unique_group_name` (its body runs before its test: the early return has established the first test)",
                     "def tryNames (sfx : Nat → Str) (%s : Str) (%s : Groups) : Nat → Nat → Res Str" % (name, g),
                     [("0, _", [".outOfFuel"]),
                      ("fuel + 1, %s" % ctr,
                       ["match mkName (%s) with" % " ++ ".join(terms),
                        '| none => .panic "make_unique_group_name: Name::new(..).unwrap()"',
                        "| some %s =>" % new,
                        "if hasKey %s %s then tryNames sfx %s %s fuel (%s + %d) else .ok %s" % (new, m3.group(1), name, g, ctr, step, new)])])
            + "\n/-- `make_unique_group_name` -/\n"
            + "def makeUnique (sfx : Nat → Str) (%s : Str) (%s : Groups) (fuel : Nat) : Res Str :=\n" % (name, g)
            + "  if !hasKey %s %s then .ok %s else\n  tryNames sfx %s %s fuel %d\n" % (name, m0.group(1), name, name, g, int(m1.group(2).replace("_", ""))))


# ---------------------------------------------------------------- find_known_kerning_groups

def sec_known(src):
    ptext, body = fn_parts(src["upconv"], "find_known_kerning_groups")
    ps = params_of(ptext)
    if len(ps) != 1 or ps[0][1] != "&Groups":
        raise Anchor("find_known_kerning_groups: parameters")
    st = split_stmts(body)
    sets = []
    pat = r"let mut (" + ID + r") ?: ?BTreeSet<Name> = BTreeSet::new\(\);"
    while st and re.fullmatch(pat, st[0]):
        sets.append(re.fullmatch(pat, st[0]).group(1))
        st = st[1:]
    if len(sets) != 2 or len(st) != 2 or st[1] != "(%s, %s)" % tuple(sets):
        raise Anchor("find_known_kerning_groups: two ordered sets, one loop, the pair")
    m = re.fullmatch(r"for (" + ID + r") in " + re.escape(ps[0][0]) + r"\.keys\(\) (\{.*\})", st[0])
    if not m:
        raise Anchor("find_known_kerning_groups: the loop")
    lb, _ = block_at(m.group(2), 0)
    env = Env("find_known_kerning_groups", {"setinsert"}, sets=sets)
    lines = tr(split_stmts(lb), ["findKnownLoop rest %s %s" % tuple(sets)], env)
    return (lean_def("`find_known_kerning_groups`: `for %s in %s.keys()`, state `%s`, `%s` (both `BTreeSet`)"
                     % (m.group(1), ps[0][0], sets[0], sets[1]),
                     "def findKnownLoop : List Str → List Str → List Str → List Str × List Str",
                     [("[], %s, %s" % tuple(sets), ["(%s, %s)" % tuple(sets)]),
                      ("%s :: rest, %s, %s" % (m.group(1), sets[0], sets[1]), lines)])
            + "\ndef findKnown (%s : Groups) : List Str × List Str :=\n  findKnownLoop (keys %s) [] []\n" % (ps[0][0], ps[0][0]))


# ---------------------------------------------------------------- upconvert_kerning

PTYPE = {"&Groups": "Groups", "&Kerning": "Kerning", "&NameList": "List Str"}


def ctx_of(body, scope):
    """the variables of the enclosing function the loop body mentions (beyond its own state), in scope order"""
    return [(v, t) for v, t in scope if uses(body, v)]


def binder(ctx):
    return "".join(" (%s : %s)" % vt for vt in ctx)


def upconvert_sections(src):
    ptext, body = fn_parts(src["upconv"], "upconvert_kerning")
    ps = params_of(ptext)
    if [t for _, t in ps] != ["&Groups", "&Kerning", "&NameList"]:
        raise Anchor("upconvert_kerning: parameters")
    P = [(v, PTYPE[t]) for v, t in ps]
    groups, kerning = ps[0][0], ps[1][0]
    st = split_stmts(body)
    if len(st) != 10:
        raise Anchor("upconvert_kerning: ten statements expected, found %d" % len(st))
    m = re.fullmatch(r"let \(mut (" + ID + r"), mut (" + ID + r")\) = find_known_kerning_groups\((" + ID + r")\);", st[0])
    if not m:
        raise Anchor("upconvert_kerning: find_known_kerning_groups")
    s1, s2, known_arg = m.groups()
    top = ["let (%s, %s) := findKnown %s" % (s1, s2, known_arg)]

    # ---- the loop over the pairs that fills the two sets
    m = re.fullmatch(r"for \((" + ID + r"), (" + ID + r")\) in (" + ID + r") (\{.*\})", st[1])
    if not m:
        raise Anchor("upconvert_kerning: first loop")
    a, b, over, blk = m.groups()
    lb, _ = block_at(blk, 0)
    ctx = ctx_of(lb, P)
    cargs = "".join(" " + v for v, _ in ctx)
    inner_defs, inner_seen, inner_call = [], [], []

    def inner_collect(kind, pats, coll, ibody, env):
        if kind != "keys":
            raise Anchor("upconvert_kerning: nested loop of the collection loop")
        if inner_defs:   # the rest of a block follows every branch of a chain: the same loop is met again
            if inner_seen != [(pats, coll, ibody)]:
                raise Anchor("upconvert_kerning: two different nested loops in the collection loop")
            env.mut(inner_call[1])
            return [inner_call[0]]
        inner_seen.append((pats, coll, ibody))
        ienv = Env("upconvert_kerning", {"setinsert"}, sets=[s1, s2])
        ictx = ctx_of(ibody, P)
        iargs = "".join(" " + v for v, _ in ictx)
        probe = tr(split_stmts(ibody), ["?"], ienv)
        state = ienv.mutated
        if len(state) != 1:
            raise Anchor("upconvert_kerning: the inner loop fills %s" % state)
        lines = tr(split_stmts(ibody), ["collectSeconds%s rest %s" % (iargs, state[0])], Env("upconvert_kerning", {"setinsert"}, sets=[s1, s2]))
        del probe
        inner_defs.append(lean_def("`upconvert_kerning`: `for %s in %s.keys()`, state `%s`" % (pats[0], coll, state[0]),
                                   "def collectSeconds%s : List Str → List Str → List Str" % binder(ictx),
                                   [("[], %s" % state[0], [state[0]]), ("%s :: rest, %s" % (pats[0], state[0]), lines)]))
        env.mut(state[0])
        inner_call[:] = ["let %s := collectSeconds%s (keys %s) %s" % (state[0], iargs, coll, state[0]), state[0]]
        return [inner_call[0]]

    env = Env("upconvert_kerning", {"setinsert", "keysloop"}, sets=[s1, s2], inner=inner_collect)
    lines = tr(split_stmts(lb), ["collectLoop%s rest %s %s" % (cargs, s1, s2)], env)
    if len(inner_defs) != 1:
        raise Anchor("upconvert_kerning: the collection loop has no inner loop")
    collect = (inner_defs[0] + "\n"
               + lean_def("`upconvert_kerning`: `for (%s, %s) in %s`, state `%s`, `%s`" % (a, b, over, s1, s2),
                          "def collectLoop%s : Kerning → List Str → List Str → List Str × List Str" % binder(ctx),
                          [("[], %s, %s" % (s1, s2), ["(%s, %s)" % (s1, s2)]),
                           ("(%s, %s) :: rest, %s, %s" % (a, b, s1, s2), lines)]))
    top.append("let (%s, %s) := collectLoop%s %s %s %s" % (s1, s2, cargs, over, s1, s2))

    # ---- the growing map
    m = re.fullmatch(r"let mut (" + ID + r") = (" + ID + r")\.clone\(\);", st[2])
    if m:
        gnew = m.group(1)
        top.append("let %s := %s" % (gnew, m.group(2)))
    else:
        m = re.fullmatch(r"let mut (" + ID + r")(?: ?: ?Groups)? = (?:Groups|BTreeMap)::new\(\);", st[2])
        if not m:
            raise Anchor("upconvert_kerning: groups_new")
        gnew = m.group(1)
        top.append("let %s : Groups := []" % gnew)

    # ---- the two renaming loops
    rename, tables = [], []
    scope = P + [(s1, "List Str"), (s2, "List Str")]
    for k, fname in ((3, "renameFirst"), (5, "renameSecond")):
        m = re.fullmatch(r"let mut (" + ID + r") ?: ?HashMap<Name, Name> = HashMap::new\(\);", st[k])
        if not m:
            raise Anchor("upconvert_kerning: rename table")
        tbl = m.group(1)
        m = re.fullmatch(r"for (" + ID + r") in &(" + ID + r") (\{.*\})", st[k + 1])
        if not m:
            raise Anchor("upconvert_kerning: renaming loop")
        x, over2, blk = m.groups()
        lb, _ = block_at(blk, 0)
        ctx = ctx_of(lb, scope + [(t, "Table") for t in tables])
        cargs = "".join(" " + v for v, _ in ctx)
        env = Env("upconvert_kerning", {"unique", "mapinsert"})
        lines = tr(split_stmts(lb), ["%s sfx%s rest %s %s" % (fname, cargs, gnew, tbl)], env)
        if sorted(env.mutated) != sorted([gnew, tbl]):
            raise Anchor("upconvert_kerning: the renaming loop changes %s" % env.mutated)
        rename.append(lean_def("`upconvert_kerning`: `for %s in &%s`, state `%s`, `%s`" % (x, over2, gnew, tbl),
                               "def %s (sfx : Nat → Str)%s : List Str → Groups → Table → Res (Groups × Table)" % (fname, binder(ctx)),
                               [("[], %s, %s" % (gnew, tbl), [".ok (%s, %s)" % (gnew, tbl)]),
                                ("%s :: rest, %s, %s" % (x, gnew, tbl), lines)]))
        top += ["let %s : Table := []" % tbl,
                "match %s sfx%s %s %s %s with" % (fname, cargs, over2, gnew, tbl),
                "| .panic s => .panic s", "| .outOfFuel => .outOfFuel", "| .ok (%s, %s) =>" % (gnew, tbl)]
        tables.append(tbl)

    # ---- the rewriting of the pairs
    m = re.fullmatch(r"let mut (" + ID + r") ?: ?Kerning = (?:Kerning|BTreeMap)::new\(\);", st[7])
    if not m:
        raise Anchor("upconvert_kerning: kerning_new")
    knew = m.group(1)
    m = re.fullmatch(r"for \((" + ID + r"), (" + ID + r")\) in (" + ID + r") (\{.*\})", st[8])
    if not m:
        raise Anchor("upconvert_kerning: rewriting loop")
    a, b, over3, blk = m.groups()
    lb, _ = block_at(blk, 0)
    scope2 = P + [(s1, "List Str"), (s2, "List Str"), (gnew, "Groups")] + [(t, "Table") for t in tables]
    ctx = ctx_of(lb, scope2)
    cargs = "".join(" " + v for v, _ in ctx)
    inner_defs2, inner_seen2, inner_call2 = [], [], []

    def inner_rewrite(kind, pats, coll, ibody, env):
        if kind != "pairs":
            raise Anchor("upconvert_kerning: nested loop of the rewriting loop")
        if inner_defs2:
            if inner_seen2 != [(pats, coll, ibody)]:
                raise Anchor("upconvert_kerning: two different nested loops in the rewriting loop")
            env.mut(inner_call2[1])
            return [inner_call2[0]]
        inner_seen2.append((pats, coll, ibody))
        ictx = ctx_of(ibody, scope2)
        iargs = "".join(" " + v for v, _ in ictx)
        ienv = Env("upconvert_kerning", {"getor", "mapinsert"})
        tr(split_stmts(ibody), ["?"], ienv)
        if len(ienv.mutated) != 1:
            raise Anchor("upconvert_kerning: the inner rewriting loop changes %s" % ienv.mutated)
        acc = ienv.mutated[0]
        lines = tr(split_stmts(ibody), ["rewriteSecondsLoop%s rest %s" % (iargs, acc)], Env("upconvert_kerning", {"getor", "mapinsert"}))
        inner_defs2.append(lean_def("`upconvert_kerning`: `for (%s, %s) in %s`, state `%s`" % (pats[0], pats[1], coll, acc),
                                    "def rewriteSecondsLoop%s : Seconds → Seconds → Seconds" % binder(ictx),
                                    [("[], %s" % acc, [acc]), ("(%s, %s) :: rest, %s" % (pats[0], pats[1], acc), lines)]))
        inner_call2[:] = ["let %s := rewriteSecondsLoop%s %s %s" % (acc, iargs, coll, acc), acc]
        return [inner_call2[0]]

    env = Env("upconvert_kerning", {"getor", "newmap", "pairloop", "mapinsert"}, inner=inner_rewrite)
    lines = tr(split_stmts(lb), ["rewriteLoop%s rest %s" % (cargs, knew)], env)
    if len(inner_defs2) != 1 or env.mutated != [knew]:
        raise Anchor("upconvert_kerning: the rewriting loop changes %s" % env.mutated)
    rewrite = (inner_defs2[0] + "\n"
               + lean_def("`upconvert_kerning`: `for (%s, %s) in %s`, state `%s`" % (a, b, over3, knew),
                          "def rewriteLoop%s : Kerning → Kerning → Kerning" % binder(ctx),
                          [("[], %s" % knew, [knew]), ("(%s, %s) :: rest, %s" % (a, b, knew), lines)]))
    top += ["let %s : Kerning := []" % knew, "let %s := rewriteLoop%s %s %s" % (knew, cargs, over3, knew)]

    m = re.fullmatch(r"\((" + ID + r")(?:\.clone\(\))?, (" + ID + r")(?:\.clone\(\))?\)", st[9])
    if not m:
        raise Anchor("upconvert_kerning: result")
    top.append(".ok ⟨%s, %s, %s, %s⟩" % (m.group(1), m.group(2), tables[0], tables[1]))
    up = ("/-- `upconvert_kerning`, the statement sequence of the function body -/\n"
          "def upconvertKerning (sfx : Nat → Str)%s : Res UpOut :=\n" % binder(P) + "\n".join(ind(top)) + "\n")
    return {"collect": collect, "rename": "\n".join(rename), "rewrite": rewrite, "upconvert": up}


SECTIONS = ["validate", "unique", "known", "collect", "rename", "rewrite", "upconvert"]
GROUP = ["collect", "rename", "rewrite", "upconvert"]   # one function: translated together or not at all

HEADER = """import Norad.Model.Kerning
/-!
GENERATED by tools/extract_upconv.py from norad's src/groups.rs and src/upconversion.rs on every `./check C15` / `./check C10`
run.  Do not edit.  `validate_groups`, `make_unique_group_name`, `find_known_kerning_groups` and `upconvert_kerning`,
statement by statement as the Rust has them now (variable names are the Rust's).  A pinned copy of every section lives in
tools/pinned/Upconv.lean and is used for a section whose statements the translator does not know (a refactor is not an alarm).
-/
namespace Kern.Gen
open StrMap Kern

"""


def generate(repo):
    pinned = split_sections(open(PINNED).read()) if os.path.exists(PINNED) else {}
    src, err = {}, None
    try:
        src["groups"] = open(os.path.join(repo, "src", "groups.rs")).read()
        src["upconv"] = open(os.path.join(repo, "src", "upconversion.rs")).read()
    except OSError as ex:
        src, err = None, ex
    got, fell_back = {}, []

    def attempt(names, f):
        try:
            if src is None:
                raise Anchor(str(err))
            r = f()
            got.update(r)
        except (Anchor, IndexError, ValueError, KeyError) as ex:
            for n in names:
                if n not in pinned:
                    raise
                got[n] = pinned[n]
                fell_back.append("%s (%s)" % (n, ex))

    attempt(["validate"], lambda: {"validate": sec_validate(src)})
    attempt(["unique"], lambda: {"unique": sec_unique(src)})
    attempt(["known"], lambda: {"known": sec_known(src)})
    attempt(GROUP, lambda: upconvert_sections(src))
    parts = ["-- BEGIN %s\n%s-- END %s\n" % (n, got[n], n) for n in SECTIONS]
    return HEADER + "\n".join(parts) + "\nend Kern.Gen\n", fell_back


def run():
    repo = os.environ.get("VERIF_REPO", "/repo").rstrip("/") or "/repo"
    text, fell_back = generate(repo)
    old = open(OUT).read() if os.path.exists(OUT) else None
    if old != text:
        with open(OUT, "w") as f:
            f.write(text)
    ptext = open(PINNED).read() if os.path.exists(PINNED) else None
    return {"extraction": "pinned" if fell_back else "full", "pinned_sections": fell_back, "source": repo,
            "changed_since_last_run": old != text, "differs_from_pinned_copy": ptext is not None and ptext != text,
            "table": os.path.relpath(OUT, ROOT)}


if __name__ == "__main__":
    r = run()
    print(r)
    if len(sys.argv) > 1 and sys.argv[1] == "--pin":
        if r["extraction"] != "full":
            sys.exit("not pinned: extraction is not full")
        import shutil
        os.makedirs(os.path.dirname(PINNED), exist_ok=True)
        shutil.copy(OUT, PINNED)
        print("pinned")
