#!/usr/bin/env python3
"""C13: the rules norad enforces at LOAD time through typed deserialisers (not through `FontInfo::validate`), read
from src/fontinfo.rs, src/guideline.rs, src/shared_types.rs, src/identifier.rs of the tree under check and
regenerated into lean/Norad/Generated/FontInfoDeser.lean (DESIGN 3.5 / 11.8).

Sections (each falls back to the pinned copy tools/pinned/FontInfoDeser.lean when its anchor is not found or its
region contains a statement / arm / member this translator does not recognise - `extraction: pinned`, never an
alarm; a recognised shape with other content gives other Lean and the `source_deser_*` theorems of
Norad/Props/C13.lean fail):

  aliases     `pub type Integer | NonNegativeInteger | Bitlist = ..;`
  fields      every member of `pub struct FontInfo` (all must parse as `pub f: Option<T>,`); emitted are the members
              whose type, aliases resolved, is not one of String / f64 / i32 / bool / Vec<f64>: (member, type)
  styleNames  arms of `Deserialize for StyleMapStyle` ("text" => Ok(Variant), `_ => Err`) and of its `Serialize`
  woffDirs    the same for `WoffAttributeDirection`, and the records that carry a member of that type
  reprEnums   `#[derive(.. Deserialize_repr ..)] #[repr(T)] pub enum E { V = n, .. }` for GaspBehavior, Os2WidthClass,
              PostscriptWindowsCharacterSet: (E, T, discriminants)
  fixedLen    `Deserialize for Os2FamilyClass | Os2Panose | Os2PanoseV2`: element type of the `Vec`, the length of the
              `values.len() != N` refusal, the indices read by the struct literal (must be 0..N-1, once each)
  records     GaspRangeRecord, NameRecord: deny_unknown_fields, (serde key, type) per member
  nonNegative the test of `NonNegativeIntegerOrFloat::new` and the chain Deserialize -> try_from -> new
  color       separator, number of channels parsed by `from_str`, number and range of channels tested by `Color::new`
  identifier  `is_valid_identifier`: length bound, byte range; `Identifier::new` and Deserialize go through it
  guideline   the `match (x, y, angle)` of `Deserialize for Guideline` expanded to its full truth table (first matching
              arm wins), the angle range tested in the angled arm, members of `RawGuideline` + deny_unknown_fields

Set-like tables are emitted sorted, so that reordering arms / members / variants is not a change.
"""
import itertools
import os
import re
import sys

ROOT = os.path.dirname(os.path.dirname(os.path.abspath(__file__)))
OUT = os.path.join(ROOT, "lean", "Norad", "Generated", "FontInfoDeser.lean")
PINNED = os.path.join(ROOT, "tools", "pinned", "FontInfoDeser.lean")

PLAIN = {"String", "f64", "i32", "bool", "Vec<f64>"}
STD_ALIASES = {"Float": "f64", "IntegerOrFloat": "f64"}


class NotFound(Exception):
    pass


def matched(src, i, open_ch="{", close_ch="}"):
    depth, j = 1, i + 1
    while depth and j < len(src):
        if src[j] == open_ch:
            depth += 1
        elif src[j] == close_ch:
            depth -= 1
        j += 1
    if depth:
        raise NotFound("unbalanced brackets")
    return src[i + 1:j - 1]


def strip_comments(s):
    return re.sub(r"//[^\n]*", "", s)


def sq(s):
    return re.sub(r"\s+", "", s)


def lean_str(s):
    return '"' + s.replace("\\", "\\\\").replace('"', '\\"') + '"'


def num(s):
    s = s.replace("_", "")
    if re.fullmatch(r"0x[0-9a-fA-F]+", s):
        return int(s, 16)
    if re.fullmatch(r"\d+(\.0+)?", s):
        return int(s.split(".")[0])
    raise NotFound("number " + s)


class Src:
    def __init__(self, repo):
        self.repo = repo
        self.cache = {}

    def get(self, name):
        if name not in self.cache:
            try:
                self.cache[name] = open(os.path.join(self.repo, "src", name)).read()
            except OSError as ex:
                raise NotFound(str(ex))
        return self.cache[name]


def block_after(src, pattern, what):
    m = re.search(pattern, src)
    if not m:
        raise NotFound(what)
    return strip_comments(matched(src, m.end() - 1)), m


def impl_fn(src, impl_pat, fn_name, what):
    """body of `fn fn_name` inside the impl block matching impl_pat"""
    blk, _ = block_after(src, impl_pat + r"[^{;]*\{", what)
    m = re.search(r"\bfn\s+" + fn_name + r"\b[^{;]*\{", blk)
    if not m:
        raise NotFound(what + "::" + fn_name)
    return matched(blk, m.end() - 1)


def aliases_of(src):
    out = {}
    for m in re.finditer(r"^pub\s+type\s+(\w+)\s*=\s*([^;]+);", src, flags=re.M):
        out[m.group(1)] = sq(m.group(2))
    return out


def resolve(t, al):
    al = dict(STD_ALIASES, **al)
    for _ in range(4):
        t2 = re.sub(r"\b(\w+)\b", lambda m: al.get(m.group(1), m.group(1)), t)
        if t2 == t:
            break
        t = t2
    return t


def sec_aliases(S):
    al = aliases_of(S.get("fontinfo.rs"))
    rows = []
    for k in ("Bitlist", "Integer", "NonNegativeInteger"):
        if k not in al:
            raise NotFound("type " + k)
        rows.append((k, al[k]))
    return ("/-- the integer vocabulary of font info -/\ndef aliases : List (String × String) :=\n  [" +
            ", ".join("(%s, %s)" % (lean_str(a), lean_str(b)) for a, b in rows) + "]\n")


def struct_members(src, name, what=None):
    """(attributes before the struct, [(serde attrs, member, type)]) - every line of the body must be a doc
    comment, an attribute or a member"""
    m = re.search(r"((?:^#\[[^\n]*\]\n)*)^(?:pub\s+|pub\(crate\)\s+)?struct\s+" + name + r"\s*\{", src, flags=re.M)
    if not m:
        raise NotFound(what or ("struct " + name))
    body = strip_comments(matched(src, m.end() - 1))
    members, attrs = [], []
    # members may span lines: join, then split on top-level commas
    text = body
    i, depth, cur = 0, 0, ""
    items = []
    while i < len(text):
        c = text[i]
        if c in "<([":
            depth += 1
        elif c in ">)]":
            depth -= 1
        if c == "," and depth == 0:
            items.append(cur)
            cur = ""
        else:
            cur += c
        i += 1
    if cur.strip():
        items.append(cur)
    for it in items:
        it = it.strip()
        a = re.findall(r"#\[([^\]]*)\]", it)
        rest = re.sub(r"#\[[^\]]*\]", "", it).strip()
        mm = re.fullmatch(r"(?:pub\s+|pub\(crate\)\s+)?(\w+)\s*:\s*(.+)", rest, flags=re.S)
        if not mm:
            raise NotFound("member of %s: %s" % (name, rest[:40]))
        members.append((a, mm.group(1), sq(mm.group(2))))
    return m.group(1), members


def sec_fields(S):
    src = S.get("fontinfo.rs")
    al = aliases_of(src)
    _, members = struct_members(src, "FontInfo")
    rows = []
    for _, f, t in members:
        m = re.fullmatch(r"Option<(.+)>", t)
        if not m:
            raise NotFound("FontInfo member that is not an Option: " + f)
        r = resolve(m.group(1), al)
        if r not in PLAIN:
            rows.append((f, r))
    rows.sort()
    return ("/-- members of `FontInfo` whose type decides at load time (aliases resolved) -/\n"
            "def typedFields : List (String × String) :=\n  [" +
            ",\n   ".join("(%s, %s)" % (lean_str(a), lean_str(b)) for a, b in rows) + "]\n")


def de_arms(src, ty):
    body = impl_fn(src, r"impl\s*<\s*'de\s*>\s*Deserialize\s*<\s*'de\s*>\s*for\s+" + ty + r"\b", "deserialize",
                   "Deserialize for " + ty)
    b = sq(body)
    m = re.fullmatch(r"let(\w+)=String::deserialize\(deserializer\)\?;match\1\.(?:as_ref|as_str)\(\)\{(.*)\}", b)
    if not m:
        raise NotFound("body of Deserialize for " + ty)
    arms = [a for a in re.split(r",(?=\"|_=>)", m.group(2)) if a]
    rows, wild = [], False
    for a in arms:
        a = a.rstrip(",")
        mm = re.fullmatch(r'"((?:[^"\\]|\\.)*)"=>Ok\(' + ty + r"::(\w+)\)", a)
        if mm:
            if wild:
                raise NotFound("arm after the wildcard of " + ty)
            rows.append((mm.group(1), mm.group(2)))
            continue
        if re.fullmatch(r"_=>Err\(.*\)", a):
            wild = True
            continue
        raise NotFound("arm of Deserialize for %s: %s" % (ty, a[:40]))
    if not wild or not rows:
        raise NotFound("arms of Deserialize for " + ty)
    # sq() removed blanks inside the literals: read them again from the unsqueezed text
    lits = re.findall(r'"((?:[^"\\]|\\.)*)"\s*=>\s*Ok\(\s*' + ty + r"::(\w+)\s*\)", body)
    if len(lits) != len(rows):
        raise NotFound("arms of Deserialize for " + ty)
    return sorted(lits)


def ser_arms(src, ty):
    body = impl_fn(src, r"impl\s+Serialize\s+for\s+" + ty + r"\b", "serialize", "Serialize for " + ty)
    lits = re.findall(ty + r"::(\w+)\s*=>\s*serializer\.serialize_str\(\s*\"((?:[^\"\\]|\\.)*)\"\s*\)", body)
    n_arms = len(re.findall(r"=>", body))
    if not lits or n_arms != len(lits):
        raise NotFound("arms of Serialize for " + ty)
    return sorted((b, a) for a, b in lits)


def pairs(rows):
    return "[" + ", ".join("(%s, %s)" % (lean_str(a), lean_str(b)) for a, b in rows) + "]"


def sec_style_names(S):
    src = S.get("fontinfo.rs")
    return ("/-- (text, variant) accepted by `Deserialize for StyleMapStyle`; everything else is refused -/\n"
            "def styleNamesRead : List (String × String) :=\n  " + pairs(de_arms(src, "StyleMapStyle")) + "\n"
            "/-- (text, variant) written by its `Serialize` -/\n"
            "def styleNamesWritten : List (String × String) :=\n  " + pairs(ser_arms(src, "StyleMapStyle")) + "\n")


def sec_woff_dirs(S):
    src = S.get("fontinfo.rs")
    holders = []
    for m in re.finditer(r"^pub\s+struct\s+(Woff\w+)\s*\{", src, flags=re.M):
        _, members = struct_members(src, m.group(1))
        for _, f, t in members:
            if "WoffAttributeDirection" in t:
                if t != "Option<WoffAttributeDirection>":
                    raise NotFound("direction member of " + m.group(1))
                holders.append((m.group(1), f))
    holders.sort()
    return ("def woffDirsRead : List (String × String) :=\n  " + pairs(de_arms(src, "WoffAttributeDirection")) + "\n"
            "def woffDirsWritten : List (String × String) :=\n  " + pairs(ser_arms(src, "WoffAttributeDirection")) + "\n"
            "/-- (record, member) of type `Option<WoffAttributeDirection>` -/\n"
            "def woffDirHolders : List (String × String) :=\n  " + pairs(holders) + "\n")


def sec_repr_enums(S):
    src = S.get("fontinfo.rs")
    rows = []
    for e in ("GaspBehavior", "Os2WidthClass", "PostscriptWindowsCharacterSet"):
        m = re.search(r"#\[derive\(([^)]*)\)\]\s*#\[repr\((\w+)\)\]\s*pub\s+enum\s+" + e + r"\s*\{", src)
        if not m:
            raise NotFound("enum " + e)
        if "Deserialize_repr" not in [x.strip() for x in m.group(1).split(",")]:
            raise NotFound("derive of " + e)
        body = strip_comments(matched(src, m.end() - 1))
        body = re.sub(r"#\[[^\]]*\]", "", body)
        ds = []
        for item in body.split(","):
            item = item.strip()
            if not item:
                continue
            mm = re.fullmatch(r"\w+\s*=\s*([0-9_x]+)", item)
            if not mm:
                raise NotFound("variant of %s: %s" % (e, item[:30]))
            ds.append(num(mm.group(1)))
        rows.append((e, m.group(2), sorted(ds)))
    return ("/-- (enum, repr type, discriminants); `Deserialize_repr` accepts exactly these numbers -/\n"
            "def reprEnums : List (String × String × List Nat) :=\n  [" +
            ",\n   ".join("(%s, %s, [%s])" % (lean_str(e), lean_str(t), ", ".join(map(str, d))) for e, t, d in rows) +
            "]\n")


def sec_fixed_len(S):
    src = S.get("fontinfo.rs")
    rows = []
    for ty in ("Os2FamilyClass", "Os2Panose", "Os2PanoseV2"):
        body = impl_fn(src, r"impl\s*<\s*'de\s*>\s*Deserialize\s*<\s*'de\s*>\s*for\s+" + ty + r"\b", "deserialize",
                       "Deserialize for " + ty)
        b = sq(body)
        m = re.fullmatch(r"let(\w+):Vec<(\w+)>=Deserialize::deserialize\(deserializer\)\?;"
                         r"if\1\.len\(\)!=(\d+)\{returnErr\([^;]*\);\}"
                         r"Ok\(" + ty + r"\{(.*)\}\)", b)
        if not m:
            raise NotFound("body of Deserialize for " + ty)
        v, elem, n = m.group(1), m.group(2), int(m.group(3))
        idx = []
        for item in m.group(4).split(","):
            if not item:
                continue
            mm = re.fullmatch(r"\w+:" + re.escape(v) + r"\[(\d+)\]", item)
            if not mm:
                raise NotFound("member of the literal of %s: %s" % (ty, item[:30]))
            idx.append(int(mm.group(1)))
        _, members = struct_members(src, ty)
        if len(members) != len(idx):
            raise NotFound("literal of " + ty)
        rows.append((ty, elem, n, idx))
    return ("/-- (type, element type of the array, required length, indices read by the struct literal in member order) -/\n"
            "def fixedLen : List (String × String × Nat × List Nat) :=\n  [" +
            ",\n   ".join("(%s, %s, %d, [%s])" % (lean_str(t), lean_str(e), n, ", ".join(map(str, i)))
                          for t, e, n, i in rows) + "]\n")


def camel(s):
    p = s.split("_")
    return p[0] + "".join(x[:1].upper() + x[1:] for x in p[1:])


def record_rows(src, name):
    head, members = struct_members(src, name)
    if not re.search(r"derive\([^)]*\bDeserialize\b", head):
        raise NotFound("derive of " + name)
    deny = bool(re.search(r"serde\([^)]*deny_unknown_fields", head))
    rename_all = re.search(r'rename_all\s*=\s*"(\w+)"', head)
    if rename_all and rename_all.group(1) != "camelCase":
        raise NotFound("rename_all of " + name)
    rows = []
    for attrs, f, t in members:
        key = camel(f) if rename_all else f
        for a in attrs:
            mm = re.fullmatch(r'\s*serde\(\s*rename\s*=\s*"([^"]+)"\s*\)\s*', a)
            if mm:
                key = mm.group(1)
            else:
                raise NotFound("attribute of %s.%s" % (name, f))
        rows.append((key, t))
    return deny, sorted(rows)


def sec_records(S):
    src = S.get("fontinfo.rs")
    al = aliases_of(src)
    out = []
    for name in ("GaspRangeRecord", "NameRecord"):
        deny, rows = record_rows(src, name)
        out.append("(%s, %s, %s)" % (lean_str(name), "true" if deny else "false",
                                     pairs([(k, resolve(t, al)) for k, t in rows])))
    return ("/-- (record, deny_unknown_fields, (key, type with aliases resolved)) -/\n"
            "def records : List (String × Bool × List (String × String)) :=\n  [" + ",\n   ".join(out) + "]\n")


def sec_non_negative(S):
    src = S.get("fontinfo.rs")
    new = sq(impl_fn(src, r"impl\s+NonNegativeIntegerOrFloat\b", "new", "NonNegativeIntegerOrFloat::new"))
    m = re.fullmatch(r"if(.+?)\{Some\(NonNegativeIntegerOrFloat\(value\)\)\}else\{None\}", new)
    if not m:
        raise NotFound("NonNegativeIntegerOrFloat::new")
    tests = {"value.is_sign_positive()": "sign_positive", "!value.is_sign_negative()": "sign_positive",
             "value>=0.0": "ge_zero", "value>0.0": "gt_zero", "0.0<=value": "ge_zero", "0.0<value": "gt_zero"}
    if m.group(1) not in tests:
        raise NotFound("test of NonNegativeIntegerOrFloat::new: " + m.group(1)[:40])
    de = sq(impl_fn(src, r"impl\s*<\s*'de\s*>\s*Deserialize\s*<\s*'de\s*>\s*for\s+NonNegativeIntegerOrFloat\b",
                    "deserialize", "Deserialize for NonNegativeIntegerOrFloat"))
    if not re.fullmatch(r"let(\w+):f64=Deserialize::deserialize\(deserializer\)\?;"
                        r"NonNegativeIntegerOrFloat::try_from\(\1\)\.map_err\(serde::de::Error::custom\)", de):
        raise NotFound("Deserialize for NonNegativeIntegerOrFloat")
    tf = sq(impl_fn(src, r"impl\s+TryFrom\s*<\s*f64\s*>\s*for\s+NonNegativeIntegerOrFloat\b", "try_from",
                    "TryFrom<f64> for NonNegativeIntegerOrFloat"))
    if not re.fullmatch(r"matchNonNegativeIntegerOrFloat::new\(value\)\{Some\((\w+)\)=>Ok\(\1\),_=>Err\(\w+\),?\}", tf):
        raise NotFound("TryFrom<f64> for NonNegativeIntegerOrFloat")
    return ("/-- the test of `NonNegativeIntegerOrFloat::new`; its Deserialize is f64 -> try_from -> new -/\n"
            "def nonNegativeTest : String := %s\n" % lean_str(tests[m.group(1)]))


def sec_color(S):
    src = S.get("shared_types.rs")
    new = sq(impl_fn(src, r"impl\s+Color\b", "new", "Color::new"))
    m = re.fullmatch(r"if\[([\w,]+)\]\.iter\(\)\.all\(\|(\w+)\|\(([0-9._]+)\.\.=([0-9._]+)\)\.contains\(\2\)\)"
                     r"\{Ok\(Self\{([\w,]+)\}\)\}else\{Err\(ColorError::Value\)\}", new)
    if not m:
        raise NotFound("Color::new")
    tested = [x for x in m.group(1).split(",") if x]
    stored = [x for x in m.group(5).split(",") if x]
    if sorted(tested) != sorted(stored):
        raise NotFound("Color::new tests other channels than it stores")
    lo, hi = num(m.group(3)), num(m.group(4))
    fs = sq(impl_fn(src, r"impl\s+FromStr\s+for\s+Color\b", "from_str", "FromStr for Color"))
    m2 = re.fullmatch(r"letmut(\w+)=s\.split\('(.)'\)\.map\(\|(\w+)\|\3\.parse::<f64>\(\)\.map_err\(\|_\|[^;]*\)\);"
                      r"((?:let\w+=\1\.next\(\)\.unwrap_or_else\(\|\|Err\([^;]*\)\)\?;)+)"
                      r"if\1\.next\(\)\.is_some\(\)\{Err\([^{}]*\)\}else\{Color::new\(([\w,]+)\)\}", fs)
    if not m2:
        raise NotFound("FromStr for Color")
    lets = re.findall(r"let(\w+)=", m2.group(4))
    args = [x for x in m2.group(5).split(",") if x]
    if lets != args:
        raise NotFound("FromStr for Color passes the channels in another order")
    sep = m2.group(2)
    return ("/-- `Color::from_str`: separator, number of numbers parsed (more is refused); `Color::new`: number of\n"
            "    channels tested, inclusive range -/\n"
            "def colorSeparator : Char := Char.ofNat %d\ndef colorParsed : Nat := %d\ndef colorTested : Nat := %d\n"
            "def colorRange : Nat × Nat := (%d, %d)\n" % (ord(sep), len(lets), len(tested), lo, hi))


def sec_identifier(S):
    src = S.get("identifier.rs")
    body, _ = block_after(src, r"\bfn\s+is_valid_identifier\s*\([^)]*\)\s*->\s*bool\s*\{", "is_valid_identifier")
    b = sq(body)
    m = re.fullmatch(r"s\.len\(\)(<=|<)(\d+)&&s\.bytes\(\)\.all\(\|(\w+)\|\((\w+)\.\.=(\w+)\)\.contains\(&\3\)\)", b)
    if not m:
        raise NotFound("is_valid_identifier")
    n = int(m.group(2)) - (1 if m.group(1) == "<" else 0)
    new = sq(impl_fn(src, r"impl\s+Identifier\b", "new", "Identifier::new"))
    if not re.fullmatch(r"ifis_valid_identifier\(string\)\{Ok\(Identifier\(string\.into\(\)\)\)\}"
                        r"else\{Err\(ErrorKind::BadIdentifier\)\}", new):
        raise NotFound("Identifier::new")
    de = sq(impl_fn(src, r"impl\s*<\s*'de\s*>\s*Deserialize\s*<\s*'de\s*>\s*for\s+Identifier\b", "deserialize",
                    "Deserialize for Identifier"))
    if not re.fullmatch(r"let(\w+)=String::deserialize\(deserializer\)\?;"
                        r"Identifier::new\(\1\.as_str\(\)\)\.map_err\(de::Error::custom\)", de):
        raise NotFound("Deserialize for Identifier")
    return ("/-- `is_valid_identifier`: at most this many bytes, every byte in the inclusive range -/\n"
            "def identMaxLen : Nat := %d\ndef identByteRange : Nat × Nat := (%d, %d)\n"
            % (n, num(m.group(4)), num(m.group(5))))


def sec_guideline(S):
    src = S.get("guideline.rs")
    head, members = struct_members(src, "RawGuideline")
    if not re.search(r"derive\([^)]*\bDeserialize\b", head):
        raise NotFound("derive of RawGuideline")
    deny = bool(re.search(r"serde\([^)]*deny_unknown_fields", head))
    for a, f, _ in members:
        if a:
            raise NotFound("attribute of RawGuideline." + f)
    raw = sorted((f, t) for _, f, t in members)
    body = impl_fn(src, r"impl\s*<\s*'de\s*>\s*Deserialize\s*<\s*'de\s*>\s*for\s+Guideline\b", "deserialize",
                   "Deserialize for Guideline")
    b = sq(body)
    m = re.fullmatch(r"let(\w+)=RawGuideline::deserialize\(deserializer\)\?;"
                     r"letx=\1\.x;lety=\1\.y;letangle=\1\.angle;"
                     r"letline=match\(x,y,angle\)\{(.*)\};"
                     r"Ok\(Guideline::new\(line,\1\.name,\1\.color,\1\.identifier\)\)", b)
    if not m:
        raise NotFound("body of Deserialize for Guideline")
    arms_src = m.group(2)
    # split arms: pattern(s) => expr, at depth 0
    arms, depth, cur, i = [], 0, "", 0
    while i < len(arms_src):
        c = arms_src[i]
        if c in "({[":
            depth += 1
        elif c in ")}]":
            depth -= 1
        cur += c
        if depth == 0 and (c == "," or (c == "}" and "=>" in cur)):
            if cur.strip(","):
                arms.append(cur.strip(","))
            cur = ""
        i += 1
    if cur.strip(","):
        arms.append(cur.strip(","))
    pat1 = r"\((None|Some\(\w+\)|_),(None|Some\(\w+\)|_),(None|Some\(\w+\)|_)\)"
    parsed, angle_range = [], None

    def code(p):
        return 2 if p == "_" else (0 if p == "None" else 1)

    for a in arms:
        if "=>" not in a:
            raise NotFound("arm of the guideline match: " + a[:40])
        pat, expr = a.split("=>", 1)
        pats = []
        for p in pat.split("|"):
            mm = re.fullmatch(pat1, p)
            if not mm:
                raise NotFound("pattern of the guideline match: " + p[:40])
            pats.append(tuple(code(x) for x in mm.groups()))
        if re.fullmatch(r"Line::Vertical\(\w+\)", expr):
            out = 0
        elif re.fullmatch(r"Line::Horizontal\(\w+\)", expr):
            out = 1
        elif re.fullmatch(r"\{?return\s*Err\(.*\);?\}?", expr) or re.fullmatch(r"\{returnErr\(.*\)\}", expr):
            out = 3
        else:
            mm = re.fullmatch(r"\{if!\(([0-9._]+)\.\.=([0-9._]+)\)\.contains\(&(\w+)\)\{returnErr\(.*?\);\}"
                              r"Line::Angle\{x,y,degrees\}\}", expr)
            if not mm or mm.group(3) != "degrees":
                raise NotFound("expression of the guideline match: " + expr[:40])
            if angle_range is not None:
                raise NotFound("two angled arms")
            angle_range = (num(mm.group(1)), num(mm.group(2)))
            out = 2
        parsed.append((pats, out))
    if angle_range is None:
        raise NotFound("angled arm")
    table = []
    for x, y, a in itertools.product((0, 1), repeat=3):
        hit = None
        for pats, out in parsed:
            if any(all(pc == 2 or pc == v for pc, v in zip(p, (x, y, a))) for p in pats):
                hit = out
                break
        if hit is None:
            raise NotFound("guideline match is not exhaustive")
        table.append((x, y, a, hit))
    return ("/-- `match (x, y, angle)` of `Deserialize for Guideline` as a truth table: (x present, y present, angle\n"
            "    present, outcome) with outcome 0 = vertical, 1 = horizontal, 2 = angled (range-tested), 3 = refused -/\n"
            "def guidelineTable : List (Nat × Nat × Nat × Nat) :=\n  [" +
            ", ".join("(%d, %d, %d, %d)" % r for r in table) + "]\n"
            "/-- inclusive range of `degrees` in the angled arm -/\n"
            "def guidelineAngleRange : Nat × Nat := (%d, %d)\n" % angle_range +
            "def rawGuidelineDenyUnknown : Bool := %s\n" % ("true" if deny else "false") +
            "def rawGuidelineMembers : List (String × String) :=\n  " + pairs(raw) + "\n")


SECTIONS = [("aliases", sec_aliases), ("fields", sec_fields), ("styleNames", sec_style_names),
            ("woffDirs", sec_woff_dirs), ("reprEnums", sec_repr_enums), ("fixedLen", sec_fixed_len),
            ("records", sec_records), ("nonNegative", sec_non_negative), ("color", sec_color),
            ("identifier", sec_identifier), ("guideline", sec_guideline)]

HEADER = """/-!
GENERATED by tools/extract_fontinfo_deser.py from norad's src/fontinfo.rs, src/guideline.rs, src/shared_types.rs and
src/identifier.rs on every `./check` run.  Do not edit.  A pinned copy of every section lives in
tools/pinned/FontInfoDeser.lean and is used for a section whose anchor in the source is not found or whose region
has a shape the translator does not know (a refactor is not an alarm).  Core Lean only.
-/
namespace Generated.FontInfoDeser

"""


def split_sections(text):
    out = {}
    for m in re.finditer(r"-- BEGIN (\w+)\n(.*?)-- END \1\n", text, flags=re.S):
        out[m.group(1)] = m.group(2)
    return out


def generate(repo):
    pinned = split_sections(open(PINNED).read()) if os.path.exists(PINNED) else {}
    S = Src(repo)
    parts, fell_back = [], []
    for name, f in SECTIONS:
        try:
            body = f(S)
        except (NotFound, IndexError, ValueError, AttributeError, KeyError) as ex:
            if name not in pinned:
                raise
            body = pinned[name]
            fell_back.append("%s (%s)" % (name, ex))
        parts.append("-- BEGIN %s\n%s-- END %s\n" % (name, body, name))
    return HEADER + "\n".join(parts) + "\nend Generated.FontInfoDeser\n", fell_back


def run():
    repo = os.environ.get("VERIF_REPO", "/repo").rstrip("/") or "/repo"
    text, fell_back = generate(repo)
    old = open(OUT).read() if os.path.exists(OUT) else None
    if old != text:
        os.makedirs(os.path.dirname(OUT), exist_ok=True)
        with open(OUT, "w") as f:
            f.write(text)
    ptext = open(PINNED).read() if os.path.exists(PINNED) else None
    return {"extraction": "pinned" if fell_back else "full", "pinned_sections": fell_back, "source": repo,
            "changed_since_last_run": old != text, "differs_from_pinned_copy": ptext is not None and ptext != text,
            "table": os.path.relpath(OUT, ROOT)}


if __name__ == "__main__":
    r = run()
    print(r)
    if len(sys.argv) > 1 and sys.argv[1] == "--pin":
        import shutil
        os.makedirs(os.path.dirname(PINNED), exist_ok=True)
        shutil.copy(OUT, PINNED)
        print("pinned")
