#!/usr/bin/env python3
"""C16: translator for the store OPERATIONS of norad's src/datastore.rs.  Regenerates
lean/Norad/Generated/StoreOps.lean (namespace `C16.Gen`) on every run; the audited theorems of
lean/Norad/Props/C16Source.lean (`source_validate_eq_model`, `source_get_eq_model`, `source_insert_eq_model`, ...)
prove that every regenerated definition IS the model's, so the C16 theorems are theorems about the code as it is now.

What is translated (statement by statement, expression by expression - nothing inside a translated region is skipped:
a statement or an expression the translator does not know makes the whole section fall back to its pinned copy in
tools/pinned/StoreOps.lean, never an alarm; a KNOWN shape with different content gives different Lean and the
`source_*` theorem fails):

  validate   both `validate_entry`: a sequence of `if <cond> { return Err(StoreError::<E>); }` and
             `for <a> in <path>.ancestors().skip(1) { if <cond> { return Err(..); } }`, ended by `Ok(())` or by ONE call of
             a sibling method of the same impl block (inlined, one level); the clauses are emitted in a canonical order
             (their order decides only which error variant a doubly wrong path gets).  `let x = <expr>;` bindings are
             substituted.  <cond> is a real expression translator
             (`!`, `&&`, `||`, `==`, `!=`, method chains over Path / OsStr / Option<&Path> / the key map / byte slices,
             closures of `any` / `is_some_and`, `Some(..)`, byte-array literals).
  cell       `Store::load_item` (nested `match` over `try_load_item` / `validate_entry` results, arm by arm),
             `Store::get` (look-up with `?`, the `matches!(.., Item::X)` refill, the three-arm result `match`),
             both `try_load_item` (which directory constant is joined, resolved through src/font.rs).
  mutators   `Store::insert`, `remove`, `clear`: any sequence of the four known statements on `self.items`
             (validate_entry(..)?, insert, remove, clear) in SOURCE ORDER, threaded through the store value.
  readers    `keys`, `is_empty`, `len`, `contains_key` (one expression over `self.items` each), `iter`.
  traits     the fields of `struct Store<T>` (must be the three the model accounts for), `Clone` and `Default` (derived, or
             one hand-written struct literal: per field `self.f.clone()` / a default constructor), `PartialEq::eq` (through
             the expression translator).
  listing    both `try_list_contents`: the text around the `if attributes.is_file() .. else if .. else ..` chain must be
             exactly the known walk (queue-driven for data, one `read_dir` for images); each arm is translated to
             collect / descend / refuse.  `Store::new` and the `#[default]` variant of `Item`.
"""
import os
import re
import sys

ROOT = os.path.dirname(os.path.dirname(os.path.abspath(__file__)))
OUT = os.path.join(ROOT, "lean", "Norad", "Generated", "StoreOps.lean")
PINNED = os.path.join(ROOT, "tools", "pinned", "StoreOps.lean")


class NotFound(Exception):
    pass


# ----------------------------------------------------------------------------------------------- text helpers

def strip_comments(src):
    src = re.sub(r"/\*.*?\*/", "", src, flags=re.S)
    return re.sub(r"//[^\n]*", "", src)


_TOK = re.compile(r"\s+|[A-Za-z_]\w*|\d\w*|::|&&|\|\||==|!=|=>|->|<=|>=|.", re.S)


def tokens(text):
    return [t for t in _TOK.findall(text) if not t.isspace()]


def canon(text):
    """whitespace-free canonical text: tokens joined, one blank only between two word-like tokens"""
    out = []
    for t in tokens(text):
        if out and re.match(r"\w", t[0]) and re.match(r"\w", out[-1][-1]):
            out.append(" ")
        out.append(t)
    return "".join(out)


def block_at(src, i):
    """(text inside the braces, index after the closing brace) of the block whose '{' is the first at or after i"""
    i = src.find("{", i)
    if i < 0:
        raise NotFound("block")
    d, j = 0, i
    while j < len(src):
        c = src[j]
        if c == "{":
            d += 1
        elif c == "}":
            d -= 1
            if d == 0:
                return src[i + 1:j], j + 1
        j += 1
    raise NotFound("unbalanced block")


def impl_block(src, header_re):
    m = re.search(header_re, src)
    if not m:
        raise NotFound("impl block " + header_re)
    return block_at(src, m.end() - 1)[0]


def fn_parts(impl, name):
    """(parameter names without self, canonical body) of `fn name` in the impl block"""
    m = re.search(r"\bfn\s+" + name + r"\s*\(", impl)
    if not m:
        raise NotFound("fn " + name)
    i = impl.index("(", m.start())
    d, j = 0, i
    while True:
        if impl[j] == "(":
            d += 1
        elif impl[j] == ")":
            d -= 1
            if d == 0:
                break
        j += 1
    params = []
    depth = 0
    cur = ""
    for c in impl[i + 1:j]:
        if c in "<([":
            depth += 1
        elif c in ">)]":
            depth -= 1
        if c == "," and depth == 0:
            params.append(cur)
            cur = ""
        else:
            cur += c
    if cur.strip():
        params.append(cur)
    names = []
    for p in params:
        p = p.strip()
        if p in ("&self", "&mut self", "self"):
            continue
        names.append(p.split(":")[0].strip())
    k = impl.index("{", j)
    if ";" in impl[j:k]:
        raise NotFound("fn %s has no body" % name)
    body, _ = block_at(impl, j)
    return names, canon(body)


def balanced(s, i, op, cl):
    """index after the bracket that closes the one at s[i]"""
    d = 0
    j = i
    while j < len(s):
        if s[j] == op:
            d += 1
        elif s[j] == cl:
            d -= 1
            if d == 0:
                return j + 1
        j += 1
    raise NotFound("unbalanced " + op)


# ----------------------------------------------------------------------------------------------- expressions

ERRS = {"EmptyPath": ".emptyPath", "PathIsAbsolute": ".pathIsAbsolute", "DirUnderFile": ".dirUnderFile",
        "Subdir": ".subdir", "InvalidImage": ".invalidImage"}


PRIO = [".emptyPath", ".pathIsAbsolute", ".subdir", ".dirUnderFile", ".invalidImage"]


class Expr:
    """recursive-descent translator of a Rust boolean expression over the parameters of `validate_entry`.
    env: Rust variable -> (type, Lean text); types: key (raw key string, a &Path), P (component form), items, bytes"""

    def __init__(self, text, env):
        self.t = tokens(text)
        self.i = 0
        self.env = dict(env)

    def peek(self):
        return self.t[self.i] if self.i < len(self.t) else None

    def eat(self, tok=None):
        if self.i >= len(self.t) or (tok is not None and self.t[self.i] != tok):
            raise NotFound("expression: expected %s at %s" % (tok, "".join(self.t[self.i:self.i + 6])))
        self.i += 1
        return self.t[self.i - 1]

    def parse(self):
        r = self.p_or()
        if self.i != len(self.t):
            raise NotFound("expression: trailing " + "".join(self.t[self.i:self.i + 8]))
        return r

    def want(self, v, typ):
        if v[0] != typ:
            raise NotFound("expression: %s where %s is expected (%s)" % (v[0], typ, v[1]))
        return v[1]

    @staticmethod
    def as_p(v):
        """the component form of a path-typed value"""
        if v[0] == "key":
            return "(parse %s)" % v[1]
        if v[0] == "P":
            return v[1]
        raise NotFound("expression: %s is not a path" % v[1])

    def p_or(self):
        a = self.p_and()
        while self.peek() == "||":
            self.eat()
            b = self.p_and()
            a = ("bool", "(%s || %s)" % (self.want(a, "bool"), self.want(b, "bool")))
        return a

    def p_and(self):
        a = self.p_cmp()
        while self.peek() == "&&":
            self.eat()
            b = self.p_cmp()
            a = ("bool", "(%s && %s)" % (self.want(a, "bool"), self.want(b, "bool")))
        return a

    def p_cmp(self):
        a = self.p_unary()
        if self.peek() in ("==", "!="):
            op = self.eat()
            b = self.p_unary()
            if a[0] in ("key", "P") and b[0] in ("key", "P"):
                return ("bool", "(%s %s %s)" % (self.as_p(a), op, self.as_p(b)))
            if a[0] == "optP" and b[0] == "optP":
                return ("bool", "(%s %s %s)" % (a[1], op, b[1]))
            if a[0] == "nat" and b[0] == "nat":
                return ("bool", "(%s %s %s)" % (a[1], op, b[1]))
            raise NotFound("expression: comparison of %s and %s" % (a[0], b[0]))
        if self.peek() in ("<", ">", "<=", ">="):
            op = self.eat()
            b = self.p_unary()
            return ("bool", "(decide (%s %s %s))" % (self.want(a, "nat"), {"<": "<", ">": ">", "<=": "≤", ">=": "≥"}[op],
                                                      self.want(b, "nat")))
        return a

    def p_unary(self):
        if self.peek() == "!":
            self.eat()
            a = self.p_unary()
            return ("bool", "(!%s)" % self.want(a, "bool"))
        if self.peek() == "&":
            self.eat()
            return self.p_unary()
        return self.p_postfix()

    def p_primary(self):
        t = self.peek()
        if t == "(":
            self.eat()
            r = self.p_or()
            self.eat(")")
            return r
        if t == "[":
            self.eat()
            nums = []
            while self.peek() != "]":
                tok = self.eat()
                m = re.fullmatch(r"(0x[0-9a-fA-F_]+|[0-9_]+)(u8)?", tok)
                if not m:
                    raise NotFound("byte literal " + tok)
                v = int(m.group(1).replace("_", ""), 0)
                if not 0 <= v < 256:
                    raise NotFound("byte literal " + tok)
                nums.append(str(v))
                if self.peek() == ",":
                    self.eat()
            self.eat("]")
            return ("bytes", "[" + ", ".join(nums) + "]")
        if t == "Some":
            self.eat()
            self.eat("(")
            a = self.p_or()
            self.eat(")")
            return ("optP", "(some %s)" % self.as_p(a))
        if t == "None":
            self.eat()
            return ("optP", "(none : Option P)")
        if t is not None and re.fullmatch(r"[0-9]+(usize)?", t):
            self.eat()
            return ("nat", t.replace("usize", ""))
        if t is not None and re.fullmatch(r"[A-Za-z_]\w*", t) and t in self.env:
            self.eat()
            return self.env[t]
        raise NotFound("expression: unknown operand " + str(t))

    def closure(self, typ, lean_of):
        """`|v| body` with v bound at `typ`; lean_of(v) is the Lean text v stands for"""
        self.eat("|")
        v = self.eat()
        if not re.fullmatch(r"[A-Za-z_]\w*", v):
            raise NotFound("closure parameter " + v)
        self.eat("|")
        saved = self.env.get(v)
        self.env[v] = (typ, lean_of(v))
        body = self.p_or()
        if saved is None:
            del self.env[v]
        else:
            self.env[v] = saved
        return v, self.want(body, "bool")

    def p_postfix(self):
        a = self.p_primary()
        while self.peek() == ".":
            self.eat()
            m = self.eat()
            self.eat("(")
            if m == "as_os_str" and a[0] in ("key", "P"):
                self.eat(")")
                a = ("os", a)
            elif m == "is_empty" and a[0] == "os":
                self.eat(")")
                inner = a[1]
                # the raw key string is empty iff the path is (Lemmas/Path.parse_isEmpty_iff); the model tests the string
                a = ("bool", "%s.isEmpty" % inner[1])
            elif m == "len" and a[0] == "os" and a[1][0] == "key":
                self.eat(")")
                # bytes of the raw key (the protocol decodes one Char per byte)
                a = ("nat", "%s.length" % a[1][1])
            elif m == "len" and a[0] == "bytes":
                self.eat(")")
                a = ("nat", "%s.length" % a[1])
            elif m == "is_absolute" and a[0] in ("key", "P"):
                self.eat(")")
                a = ("bool", "%s.abs" % self.as_p(a))
            elif m == "parent" and a[0] in ("key", "P"):
                self.eat(")")
                a = ("optP", "%s.parent?" % self.as_p(a))
            elif m == "is_some_and" and a[0] == "optP":
                v, body = self.closure("P", lambda v: v)
                self.eat(")")
                a = ("bool", "(isSomeAnd %s fun %s => %s)" % (a[1], v, body))
            elif m == "is_some" and a[0] == "optP":
                self.eat(")")
                a = ("bool", "%s.isSome" % a[1])
            elif m == "is_none" and a[0] == "optP":
                self.eat(")")
                a = ("bool", "%s.isNone" % a[1])
            elif m == "starts_with" and a[0] in ("key", "P"):
                b = self.p_unary()
                self.eat(")")
                a = ("bool", "(%s.startsWith %s)" % (self.as_p(a), self.as_p(b)))
            elif m == "starts_with" and a[0] == "bytes":
                b = self.p_unary()
                self.eat(")")
                a = ("bool", "(List.isPrefixOf %s %s)" % (self.want(b, "bytes"), a[1]))
            elif m == "contains_key" and a[0] == "items":
                b = self.p_unary()
                self.eat(")")
                a = ("bool", "(hasKey %s %s)" % (a[1], self.as_p(b)))
            elif m == "keys" and a[0] == "items":
                self.eat(")")
                a = ("keys", a[1])
            elif m == "len" and a[0] == "items":
                self.eat(")")
                a = ("nat", "%s.length" % a[1])
            elif m == "all" and a[0] == "keys":
                v, body = self.closure("key", lambda v: "%s.1" % v)
                self.eat(")")
                a = ("bool", "(%s.all fun %s => %s)" % (a[1], v, body))
            elif m == "any" and a[0] == "keys":
                # the closure variable is an entry of the association list; as a path it is its key
                v, body = self.closure("key", lambda v: "%s.1" % v)
                self.eat(")")
                a = ("bool", "(%s.any fun %s => %s)" % (a[1], v, body))
            else:
                raise NotFound("expression: unknown method .%s on %s" % (m, a[0]))
        return a


def translate_cond(text, env):
    v = Expr(text, env).parse()
    if v[0] != "bool":
        raise NotFound("condition is not boolean: " + text[:60])
    return v[1]


# ----------------------------------------------------------------------------------------------- validate_entry

RET_ERR = r"return Err\(StoreError::(\w+)\);"


def split_if(body, pos):
    """at `if` : (condition text, block text, index after the block)"""
    assert body.startswith("if", pos)
    k = pos + 2
    d = 0
    while k < len(body):
        c = body[k]
        if c in "([":
            d += 1
        elif c in ")]":
            d -= 1
        elif c == "{" and d == 0:
            break
        k += 1
    blk, after = block_at(body, k)
    return body[pos + 2:k].strip(), blk, after


def err_of(block, what):
    m = re.fullmatch(RET_ERR, block)
    if not m:
        raise NotFound("%s: block is not a plain `return Err(StoreError::X);`: %s" % (what, block[:60]))
    if m.group(1) not in ERRS:
        raise NotFound("%s: StoreError::%s is not an error of the model" % (what, m.group(1)))
    return ERRS[m.group(1)]


def clauses(body, env, what):
    """[(lean condition, lean error)] of the early returns of a validation body, and the canonical tail"""
    out = []
    pos = 0
    while True:
        if re.match(r"if\b", body[pos:]):
            cond, blk, after = split_if(body, pos)
            if body.startswith("else", after):
                raise NotFound(what + ": else branch")
            out.append((translate_cond(cond, env), err_of(blk, what)))
            pos = after
            continue
        m = re.match(r"let (\w+)=([^;{}]*);", body[pos:])
        if m:
            # a pure binding: the translated value is substituted where the name is used
            env = dict(env)
            env[m.group(1)] = Expr(m.group(2), env).parse()
            if env[m.group(1)][0] == "os":
                raise NotFound(what + ": binding of an OsStr")
            pos += m.end()
            continue
        m = re.match(r"for (\w+) in (\w+)\.ancestors\(\)\.skip\(1\)", body[pos:])
        if m:
            var, src_var = m.group(1), m.group(2)
            if env.get(src_var, (None,))[0] != "key":
                raise NotFound(what + ": ancestors() of something that is not the path")
            blk, after = block_at(body, pos + m.end())
            if not re.match(r"if\b", blk):
                raise NotFound(what + ": loop body is not one `if`")
            cond, inner, end = split_if(blk, 0)
            if blk[end:].strip():
                raise NotFound(what + ": statements after the `if` of the ancestor loop: " + blk[end:][:40])
            env2 = dict(env)
            env2[var] = ("P", var)
            c = translate_cond(cond, env2)
            out.append(("((parse %s).properAncestors.any fun %s => %s)" % (env[src_var][1], var, c), err_of(inner, what)))
            pos = after
            continue
        break
    return out, body[pos:]


def validate_def(ds, kind, lean_name):
    impl = impl_block(ds, r"\bimpl\s+DataType\s+for\s+" + kind + r"\s*\{")
    params, body = fn_parts(impl, "validate_entry")
    what = kind + "::validate_entry"
    if len(params) != 3:
        raise NotFound(what + ": parameters")
    env = {params[0]: ("key", "path"), params[1]: ("items", "items"), params[2]: ("bytes", "data")}
    cl, tail = clauses(body, env, what)
    if tail != "Ok(())":
        m = re.fullmatch(r"self\.(\w+)\(([\w,& ]*)\)", tail)
        if not m or m.group(1) == "validate_entry":
            raise NotFound(what + ": tail is neither Ok(()) nor a call of a sibling method: " + tail[:60])
        args = [a.strip().lstrip("&").strip() for a in m.group(2).split(",") if a.strip()]
        cparams, cbody = fn_parts(impl, m.group(1))
        if len(cparams) != len(args) or any(a not in env for a in args):
            raise NotFound(what + ": arguments of the tail call")
        cenv = {p: env[a] for p, a in zip(cparams, args)}
        cl2, tail2 = clauses(cbody, cenv, kind + "::" + m.group(1))
        if tail2 != "Ok(())":
            raise NotFound("%s::%s: tail is not Ok(())" % (kind, m.group(1)))
        cl += cl2
    # The clauses are pure tests followed by an early return, so their ORDER decides only WHICH error a path that
    # violates several rules gets, never whether it is accepted (the property and the protocol do not speak about the
    # variant).  They are emitted in a canonical order - by error variant, then by condition text - so that a
    # reordering of independent early returns regenerates the same text; every clause is still emitted.
    cl.sort(key=lambda ce: (PRIO.index(ce[1]), ce[0]))
    lines = ["def %s (path : Key) (items : Items) (data : Bytes) : Except Err Unit :=" % lean_name]
    for c, e in cl:
        lines.append("  if %s then .error %s else" % (c, e))
    lines.append("  .ok ()")
    return lines


def sec_validate(ds, ft):
    return (validate_def(ds, "Data", "validateData") + [""] + validate_def(ds, "Image", "validateImage") + [""] +
            ["def validate (kind : Kind) (path : Key) (items : Items) (data : Bytes) : Except Err Unit :=",
             "  match kind with",
             "  | .data => validateData path items data",
             "  | .image => validateImage path items data"])


# ----------------------------------------------------------------------------------------------- load_item, get

STORE_IMPL = r"\bimpl\s*<\s*T\s*:\s*DataType\s*>\s*Store\s*<\s*T\s*>\s*\{"


def split_arms(body, what):
    """[(pattern, rhs)] of the canonical text of a `match` body"""
    arms = []
    pos = 0
    while pos < len(body):
        k = body.find("=>", pos)
        if k < 0:
            raise NotFound(what + ": arm without =>")
        pat = body[pos:k]
        r = k + 2
        if body.startswith("match", r):
            b = body.index("{", r)
            _, end = block_at(body, b)
        else:
            d = 0
            end = r
            while end < len(body):
                c = body[end]
                if c in "([{":
                    d += 1
                elif c in ")]}":
                    d -= 1
                elif c == "," and d == 0:
                    break
                end += 1
        arms.append((pat, body[r:end]))
        pos = end
        if body.startswith(",", pos):
            pos += 1
    return arms


def item_expr(rhs, names, what):
    m = re.fullmatch(r"Item::Loaded\((\w+)\.into\(\)\)", rhs)
    if m and m.group(1) in names:
        return ".loaded " + m.group(1)
    m = re.fullmatch(r"Item::Error\((\w+)\)", rhs)
    if m and m.group(1) in names:
        return ".error " + m.group(1)
    if rhs == "Item::NotLoaded":
        return ".notLoaded"
    raise NotFound(what + ": unknown arm value " + rhs[:60])


def result_match(text, p, bound, ind, what):
    """translate `match <call> { Ok(x) => .., Err(e) => .. }` (canonical text) into Lean lines"""
    m = re.match(r"match (\w+)\.(\w+)\(([^()]*)\)\{", text)
    if not m:
        raise NotFound(what + ": not a match over a method call: " + text[:60])
    body, end = block_at(text, m.end() - 1)
    if text[end:]:
        raise NotFound(what + ": text after the match: " + text[end:][:40])
    recv, meth, args = m.group(1), m.group(2), m.group(3)
    if recv != p["impl_type"]:
        raise NotFound(what + ": receiver " + recv)
    if meth == "try_load_item" and args == "%s,%s" % (p["ufo_root"], p["path"]):
        scrut = "tryLoadItem kind disk path"
    elif meth == "validate_entry" and re.fullmatch(r"%s,%s,&(\w+)" % (p["path"], p["items"]), args) and \
            args.split("&")[1] in bound:
        scrut = "validate kind path items " + args.split("&")[1]
    else:
        raise NotFound("%s: unknown scrutinee %s(%s)" % (what, meth, args))
    lines = [ind + "match %s with" % scrut]
    seen = set()
    for pat, rhs in split_arms(body, what):
        pm = re.fullmatch(r"(Ok|Err)\((\w+)\)", pat)
        if not pm or pm.group(1) in seen:
            raise NotFound(what + ": pattern " + pat)
        seen.add(pm.group(1))
        var = pm.group(2)
        lean_pat = (".ok " if pm.group(1) == "Ok" else ".error ") + var
        b2 = set(bound)
        if var != "_":
            b2.add(var)
        if rhs.startswith("match "):
            lines.append(ind + "| %s =>" % lean_pat)
            lines += result_match(rhs, p, b2, ind + "  ", what)
        else:
            lines.append(ind + "| %s => %s" % (lean_pat, item_expr(rhs, b2, what)))
    if seen != {"Ok", "Err"}:
        raise NotFound(what + ": arms are not exactly Ok and Err")
    return lines


def load_dir(ds, ft, kind):
    impl = impl_block(ds, r"\bimpl\s+DataType\s+for\s+" + kind + r"\s*\{")
    params, body = fn_parts(impl, "try_load_item")
    if len(params) != 2:
        raise NotFound(kind + "::try_load_item: parameters")
    m = re.fullmatch(r"std::fs::read\(%s\.join\(crate::font::(\w+)\)\.join\(%s\)\)\.map_err\(\|(\w+)\|\2\.into\(\)\)"
                     % (params[0], params[1]), body)
    if not m:
        raise NotFound(kind + "::try_load_item: body " + body[:80])
    return const_str(ft, m.group(1))


def const_str(ft, name):
    m = re.search(r"\b(?:static|const)\s+" + name + r"\s*:\s*&(?:'static\s+)?str\s*=\s*\"([^\"\\]*)\"\s*;", ft)
    if not m or not re.fullmatch(r"[A-Za-z0-9_.\-]*", m.group(1)):
        raise NotFound("constant " + name)
    return "\"%s\".toList" % m.group(1)


CELL = {"NotLoaded": ".notLoaded", "Loaded": ".loaded _", "Error": ".error _"}


def sec_cell(ds, ft):
    impl = impl_block(ds, STORE_IMPL)
    out = ["/-- the directory `try_load_item` reads below the UFO root -/",
           "def loadDir : Kind → List Char",
           "  | .data => " + load_dir(ds, ft, "Data"),
           "  | .image => " + load_dir(ds, ft, "Image"), ""]
    # load_item
    params, body = fn_parts(impl, "load_item")
    if len(params) != 4:
        raise NotFound("load_item: parameters")
    p = dict(zip(["impl_type", "ufo_root", "path", "items"], params))
    out.append("def loadItem (kind : Kind) (disk : Disk) (path : Key) (items : Items) : Cell :=")
    out += result_match(body, p, set(), "  ", "load_item")
    out.append("")
    # get
    params, body = fn_parts(impl, "get")
    if len(params) != 1:
        raise NotFound("get: parameters")
    path = params[0]
    m = re.match(r"let (\w+)=self\.items\.get\(%s\)\?;" % path, body)
    if not m:
        raise NotFound("get: look-up statement " + body[:60])
    cell = m.group(1)
    rest = body[m.end():]
    m = re.match(r"if matches!\(\*%s\.borrow\(\),Item::(\w+)\)\{" % cell, rest)
    if not m or m.group(1) not in CELL:
        raise NotFound("get: refill test " + rest[:60])
    trigger = CELL[m.group(1)]
    blk, after = block_at(rest, m.end() - 1)
    if blk != "*%s.borrow_mut()=Self::load_item(&self.impl_type,&self.ufo_root,%s,&self.items);" % (cell, path):
        raise NotFound("get: refill statement " + blk[:80])
    rest = rest[after:]
    m = re.match(r"match&\*%s\.borrow\(\)\{" % cell, rest)
    if not m:
        raise NotFound("get: result match " + rest[:60])
    mbody, end = block_at(rest, m.end() - 1)
    if rest[end:]:
        raise NotFound("get: statements after the result match: " + rest[end:][:40])
    arms = []
    seen = set()
    for pat, rhs in split_arms(mbody, "get"):
        pm = re.fullmatch(r"Item::(\w+)(?:\((\w+)\))?", pat)
        if not pm or pm.group(1) not in CELL or pm.group(1) in seen:
            raise NotFound("get: pattern " + pat)
        seen.add(pm.group(1))
        var = pm.group(2)
        if (pm.group(1) == "NotLoaded") != (var is None):
            raise NotFound("get: pattern " + pat)
        lean_pat = {"NotLoaded": ".notLoaded", "Loaded": ".loaded %s" % var, "Error": ".error %s" % var}[pm.group(1)]
        rm = re.fullmatch(r"Some\((Ok|Err)\((\w+)\.clone\(\)\)\)", rhs)
        if rm and rm.group(2) == var and (rm.group(1) == "Ok") == (pm.group(1) == "Loaded"):
            val = "some (%s %s)" % (".ok" if rm.group(1) == "Ok" else ".error", var)
        elif rhs == "unreachable!()":
            val = "some (.error .io) /- `unreachable!()` in the Rust: never reached after the refill -/"
        elif rhs == "None":
            val = "none"
        else:
            raise NotFound("get: arm value " + rhs[:60])
        arms.append("      | %s => %s" % (lean_pat, val))
    if seen != set(CELL):
        raise NotFound("get: arms are not exactly the three cell states")
    out += ["/-- `Store::get`; the path read from the disk is the one handed in, not the stored key -/",
            "def get (s : Store) (disk : Disk) (path : Key) : Store × Option (Except Err Bytes) :=",
            "  match find? s.items path with",
            "  | none => (s, none)",
            "  | some (_, cell) =>",
            "    let refill : Bool := (match cell with | %s => true | _ => false)" % trigger,
            "    let cell : Cell := if refill then loadItem s.kind disk path s.items else cell",
            "    let s : Store := if refill then { s with items := setCell s.items path cell } else s",
            "    (s, match cell with"] + arms[:-1] + [arms[-1] + ")"]
    return out


# ----------------------------------------------------------------------------------------------- insert, remove, clear

def mutator(impl, fn, lean_sig, returns_result):
    params, body = fn_parts(impl, fn)
    pos = 0
    lines = []
    path = params[0] if params else None
    data = params[1] if len(params) > 1 else None
    done = False
    while pos < len(body):
        rest = body[pos:]
        m = re.match(r"self\.impl_type\.validate_entry\(&(\w+),&self\.items,&(\w+)\)\?;", rest)
        if m:
            if not returns_result or (m.group(1), m.group(2)) != (path, data) or data is None:
                raise NotFound(fn + ": validate_entry call")
            lines += ["  match validate s.kind path s.items data with", "  | .error e => (s, .error e)", "  | .ok _ =>"]
            pos += m.end()
            continue
        m = re.match(r"self\.items\.insert\((\w+),RefCell::new\(Item::Loaded\((\w+)\.into\(\)\)\)\);", rest)
        if m:
            if (m.group(1), m.group(2)) != (path, data) or data is None:
                raise NotFound(fn + ": insert call")
            lines.append("  let s : Store := { s with items := setCell s.items path (.loaded data) }")
            pos += m.end()
            continue
        m = re.match(r"self\.items\.remove\(&?(\w+)\);", rest)
        if m:
            if m.group(1) != path:
                raise NotFound(fn + ": remove call")
            lines.append("  let s : Store := { s with items := hmRemove s.items path }")
            pos += m.end()
            continue
        m = re.match(r"self\.items\.clear\(\);", rest)
        if m:
            lines.append("  let s : Store := { s with items := [] }")
            pos += m.end()
            continue
        if returns_result and rest == "Ok(())":
            lines.append("  (s, .ok ())")
            done = True
            pos = len(body)
            continue
        raise NotFound("%s: unknown statement %s" % (fn, rest[:70]))
    if returns_result and not done:
        raise NotFound(fn + ": no Ok(()) tail")
    if not returns_result:
        lines.append("  s")
    return [lean_sig] + lines


def sec_mutators(ds, ft):
    impl = impl_block(ds, STORE_IMPL)
    return (mutator(impl, "insert", "def insert (s : Store) (path : Key) (data : Bytes) : Store × Except Err Unit :=", True)
            + [""] + mutator(impl, "remove", "def remove (s : Store) (path : Key) : Store :=", False)
            + [""] + mutator(impl, "clear", "def clear (s : Store) : Store :=", False))


# ----------------------------------------------------------------------------------------------- readers

def sec_readers(ds, ft):
    impl = impl_block(ds, STORE_IMPL)
    out = []
    want = {"keys": ("def keys (s : Store) : List Key :=", r"self\.items\.keys\(\)", "s.items.map (·.1)"),
            "is_empty": ("def isEmpty (s : Store) : Bool :=", None, None),
            "len": ("def len (s : Store) : Nat :=", None, None),
            "contains_key": ("def containsKey (s : Store) (k : Key) : Bool :=", None, None)}
    for fn in ("keys", "is_empty", "len", "contains_key"):
        params, body = fn_parts(impl, fn)
        sig = want[fn][0]
        if fn == "keys" and body == "self.items.keys()":
            e = "s.items.map (·.1)"
        elif fn == "is_empty" and body == "self.items.is_empty()":
            e = "s.items.isEmpty"
        elif fn == "is_empty" and body in ("self.items.len()==0", "self.len()==0"):
            e = "s.items.length == 0"
        elif fn == "len" and body == "self.items.len()":
            e = "s.items.length"
        elif fn == "contains_key" and len(params) == 1 and body == "self.items.contains_key(%s)" % params[0]:
            e = "hasKey s.items (parse k)"
        elif fn == "contains_key" and len(params) == 1 and body == "self.items.get(%s).is_some()" % params[0]:
            e = "(find? s.items k).isSome"
        else:
            raise NotFound("%s: body %s" % (fn, body[:60]))
        out += [sig, "  " + e, ""]
    params, body = fn_parts(impl, "iter")
    m = re.fullmatch(r"self\.items\.keys\(\)\.map\((?:move)?\|(\w+)\|\(\1,self\.get\(\1\)\.unwrap\(\)\)\)", body)
    if not m:
        raise NotFound("iter: body " + body[:80])
    out += ["/-- `Store::iter`, consumed completely: `get` on every stored key, in map order; `getD` is the `unwrap()` -/",
            "def iterFrom (s : Store) (disk : Disk) : List Key → Store × List (Key × Except Err Bytes)",
            "  | [] => (s, [])",
            "  | k :: r =>",
            "    let (s1, v) := get s disk k",
            "    let (s2, vs) := iterFrom s1 disk r",
            "    (s2, (k, v.getD (.error .io)) :: vs)",
            "",
            "def iter (s : Store) (disk : Disk) : Store × List (Key × Except Err Bytes) :=",
            "  iterFrom s disk (keys s)"]
    return out


# ----------------------------------------------------------------------------------------------- listing

DATA_WALK = ("let source_root=ufo_root.join(crate::font::@DIR@);let mut paths=Vec::new();"
             "let mut dir_queue:Vec<PathBuf>=vec![source_root.clone()];"
             "while let Some(dir_path)=dir_queue.pop(){for entry in std::fs::read_dir(&dir_path)"
             ".map_err(|e|StoreEntryError::new(dir_path.clone(),e.into()))?"
             "{let entry=entry.map_err(|e|StoreEntryError::new(dir_path.clone(),e.into()))?;let path=entry.path();"
             "let attributes=entry.metadata().map_err(|e|StoreEntryError::new(entry.path(),e.into()))?;@CHAIN@}}Ok(paths)")
IMAGE_WALK = ("let source_root=ufo_root.join(crate::font::@DIR@);let mut paths=Vec::new();"
              "for entry in std::fs::read_dir(&source_root)"
              ".map_err(|e|StoreEntryError::new(source_root.clone(),e.into()))?"
              "{let entry=entry.map_err(|e|StoreEntryError::new(source_root.clone(),e.into()))?;let path=entry.path();"
              "let attributes=entry.metadata().map_err(|e|StoreEntryError::new(path.clone(),e.into()))?;@CHAIN@}Ok(paths)")
COLLECT = "let key=path.strip_prefix(&source_root).unwrap().to_path_buf();paths.push(key);"
DESCEND = "dir_queue.push(path);"
TESTS = {"attributes.is_file()": "file", "attributes.is_dir()": "dir"}


def walk(ds, ft, kind):
    impl = impl_block(ds, r"\bimpl\s+DataType\s+for\s+" + kind + r"\s*\{")
    params, body = fn_parts(impl, "try_list_contents")
    what = kind + "::try_list_contents"
    if params != ["ufo_root"]:
        raise NotFound(what + ": parameters")
    k = body.find("if attributes.")
    if k < 0:
        raise NotFound(what + ": no test of the entry's attributes")
    acts = {}
    pos = k
    while True:
        cond, blk, after = split_if(body, pos)
        if cond not in TESTS or TESTS[cond] in acts:
            raise NotFound(what + ": unknown test " + cond)
        acts[TESTS[cond]] = blk
        pos = after
        if body.startswith("else if", pos):
            pos += 5
            continue
        if body.startswith("else{", pos):
            blk, after = block_at(body, pos)
            acts["other"] = blk
            pos = after
        break
    if sorted(acts) != ["dir", "file", "other"]:
        raise NotFound(what + ": the chain does not decide file / directory / anything else")
    m = re.match(r"let source_root=ufo_root\.join\(crate::font::(\w+)\);", body)
    if not m:
        raise NotFound(what + ": source_root")
    around = body[:k] + "@CHAIN@" + body[pos:]
    if around == DATA_WALK.replace("@DIR@", m.group(1)):
        recursive = True
    elif around == IMAGE_WALK.replace("@DIR@", m.group(1)):
        recursive = False
    else:
        # a translator must never ignore a statement: everything around the chain has to be one of the two known walks
        raise NotFound(what + ": the walk around the attribute chain is not a known text")
    lean = {}
    for nk, blk in acts.items():
        if blk == COLLECT:
            lean[nk] = ".collect"
        elif blk == DESCEND and recursive:
            lean[nk] = ".descend"
        elif re.fullmatch(r"return Err\(StoreEntryError::new\(path,StoreError::\w+\)\);", blk):
            lean[nk] = ".refuse"
        else:
            raise NotFound("%s: unknown action %s" % (what, blk[:60]))
    return const_str(ft, m.group(1)), lean, recursive


def sec_listing(ds, ft):
    d_dir, d_act, d_rec = walk(ds, ft, "Data")
    i_dir, i_act, i_rec = walk(ds, ft, "Image")
    m = re.search(r"\benum\s+Item\s*\{", ds)
    if not m:
        raise NotFound("enum Item")
    ebody = canon(block_at(ds, m.end() - 1)[0])
    dm = re.findall(r"#\[default\](\w+)", ebody)
    if len(dm) != 1 or dm[0] != "NotLoaded":
        # Loaded / Error carry a payload: they cannot be the `#[default]` variant of a derived Default
        raise NotFound("enum Item: #[default] variant")
    impl = impl_block(ds, STORE_IMPL)
    params, body = fn_parts(impl, "new")
    if params != ["ufo_root"] or body != (
            "let impl_type=T::default();let dir_contents=impl_type.try_list_contents(ufo_root)?;"
            "let items=dir_contents.into_iter().map(|path|(path,RefCell::new(Item::default()))).collect();"
            "Ok(Store{items,ufo_root:ufo_root.to_path_buf(),impl_type})"):
        raise NotFound("Store::new: body")
    out = ["/-- the directory `try_list_contents` lists below the UFO root -/",
           "def listDir : Kind → List Char",
           "  | .data => " + d_dir,
           "  | .image => " + i_dir,
           "",
           "/-- is the walk queue-driven (every depth) or one `read_dir` (top level only) -/",
           "def listRecursive : Kind → Bool",
           "  | .data => " + str(d_rec).lower(),
           "  | .image => " + str(i_rec).lower(),
           "",
           "/-- what the `if attributes.is_file() .. else if attributes.is_dir() .. else ..` chain does with an entry -/",
           "def listAct : Kind → NodeKind → ListAct"]
    for kind, act in ((".data", d_act), (".image", i_act)):
        for nk, lean_nk in (("file", ".file"), ("dir", ".dir"), ("other", ".symlink")):
            out.append("  | %s, %s => %s" % (kind, lean_nk, act[nk]))
    out += ["",
            "/-- `Item::default()`: the `#[default]` variant of `enum Item` -/",
            "def newCell : Cell := .notLoaded",
            "",
            "/-- `Store::new`: list, then one default cell per listed path -/",
            "def newStore (kind : Kind) (t : Listing) : Except Err Store :=",
            "  match listWith (listRecursive kind) (listAct kind) (listErr kind) t with",
            "  | .error e => .error e",
            "  | .ok ks => .ok ⟨kind, ks.map fun path => (path, newCell)⟩"]
    return out




# ----------------------------------------------------------------------------------------------- Clone, Default, PartialEq

KNOWN_FIELDS = ["items", "ufo_root", "impl_type"]
FIELD_INIT = {"Default::default()": "default", "T::default()": "default", "PathBuf::new()": "default",
              "HashMap::new()": "default"}


def struct_init(body, what):
    """`Self{f:e,..}` (canonical) -> [(field, how)]"""
    m = re.fullmatch(r"(?:Self|Store)\{(.*)\}", body)
    if not m:
        raise NotFound(what + ": body is not one struct literal: " + body[:60])
    out = []
    for part in [x for x in re.split(r",(?![^()]*\))", m.group(1)) if x]:
        fm = re.fullmatch(r"(\w+):(.*)", part)
        if not fm:
            raise NotFound(what + ": field initialiser " + part[:40])
        f, e = fm.group(1), fm.group(2)
        if e == "self.%s.clone()" % f:
            how = "clone"
        elif e in FIELD_INIT:
            how = FIELD_INIT[e]
        else:
            raise NotFound("%s: unknown initialiser of %s: %s" % (what, f, e[:40]))
        out.append((f, how))
    return out


def trait_impl(ds, trait):
    m = re.search(r"\bimpl\s*<[^{]*>\s*" + trait + r"\s+for\s+Store\s*<\s*T\s*>[^{]*\{", ds)
    return block_at(ds, m.end() - 1)[0] if m else None


def sec_traits(ds, ft):
    m = re.search(r"((?:#\[[^\]]*\]\s*)*)pub\s+struct\s+Store\s*<\s*T\s*>\s*\{", ds)
    if not m:
        raise NotFound("struct Store<T>")
    derives = set()
    for d in re.findall(r"#\[derive\(([^)]*)\)\]", m.group(1)):
        derives |= set(x.strip() for x in d.split(","))
    fields = re.findall(r"(?:^|,)(?:pub(?:\([a-z]+\))? )?(\w+):(?!:)", re.sub(r"<[^<>]*(<[^<>]*>)?[^<>]*>", "", canon(block_at(ds, m.end() - 1)[0])))
    if fields != KNOWN_FIELDS:
        # the model accounts for exactly these three; a store with other state is a shape it cannot speak about
        raise NotFound("struct Store<T>: fields %s" % fields)
    rows = {}
    for trait, fn, how in (("Clone", "clone", "clone"), ("Default", "default", "default")):
        impl = trait_impl(ds, trait)
        if trait in derives and impl is None:
            rows[trait] = [(f, how) for f in fields]      # a derived impl treats every field alike
        elif impl is not None and trait not in derives:
            params, body = fn_parts(impl, fn)
            rows[trait] = struct_init(body, "%s for Store" % trait)
        else:
            raise NotFound("%s for Store: neither derived nor one impl block" % trait)
    impl = trait_impl(ds, "PartialEq")
    if impl is None:
        raise NotFound("PartialEq for Store")
    params, body = fn_parts(impl, "eq")
    if len(params) != 1:
        raise NotFound("PartialEq::eq: parameters")
    other = params[0]
    text = re.sub(r"\bself\.items\b", "a_items", body)
    text = re.sub(r"\b%s\.items\b" % other, "b_items", text)
    if re.search(r"\bself\b|\b%s\b" % other, text):
        raise NotFound("PartialEq::eq: uses something else than the two key maps")
    cond = translate_cond(text, {"a_items": ("items", "a.items"), "b_items": ("items", "b.items")})

    def table(name, doc, rows_):
        return ["/-- %s -/" % doc, "def %s : List (String × String) :=" % name,
                "  [" + ", ".join("(\"%s\", \"%s\")" % r for r in rows_) + "]"]
    return (["/-- the fields of `struct Store<T>`, in declaration order -/",
             "def storeFields : List String := [" + ", ".join("\"%s\"" % f for f in fields) + "]"]
            + table("cloneFields", "`Clone for Store<T>`: where each field of the clone comes from (`clone` = the field's own clone)",
                    rows["Clone"])
            + table("defaultFields", "`Default for Store<T>`: how each field of the default store is made", rows["Default"])
            + ["/-- `PartialEq for Store<T>` -/", "def storeEq (a b : Store) : Bool :=", "  " + cond])

# ----------------------------------------------------------------------------------------------- the write plan of save_impl

def strip_map_err(stmt, what):
    """`<call>.map_err(<anything balanced>)?;` -> `<call>`   (how the I/O error is wrapped is not translated)"""
    k = stmt.find(".map_err(")
    if k < 0:
        raise NotFound(what + ": effect without map_err(..)?: " + stmt[:60])
    end = balanced(stmt, k + len(".map_err"), "(", ")")
    if stmt[end:] != "?;":
        raise NotFound(what + ": effect not followed by `?;`: " + stmt[end:][:30])
    return stmt[:k]


def statements(block):
    """split canonical text into top-level statements (`..;` or `for ..{..}`)"""
    out, pos = [], 0
    while pos < len(block):
        if block.startswith("for", pos) and re.match(r"for\b", block[pos:]):
            b = block.index("{", pos)
            _, end = block_at(block, b)
            out.append(block[pos:end])
            pos = end
            continue
        d, k = 0, pos
        while k < len(block):
            c = block[k]
            if c in "([{":
                d += 1
            elif c in ")]}":
                d -= 1
            elif c == ";" and d == 0:
                break
            k += 1
        if k >= len(block):
            raise NotFound("statement without `;`: " + block[pos:pos + 50])
        out.append(block[pos:k + 1])
        pos = k + 1
    return out


def plan_block(ft, body, store, dirs):
    """the `if !self.<store>.is_empty() { .. }` block of save_impl -> (effects before the loop, effects per entry)"""
    what = "save_impl, %s block" % store
    m = re.search(r"if!self\.%s\.is_empty\(\)\{" % store, body)
    if not m:
        raise NotFound(what + ": guard")
    block, _ = block_at(body, m.end() - 1)
    env = {"path": "(tC t)"}        # symbolic path values: Rust variable -> Lean text (component list)
    pre, item = [], []

    def effects(stmts, env, acc, key, data_src):
        data_var = None
        for st in stmts:
            mm = re.fullmatch(r"let (\w+)=(\w+)\.join\((\w+)\);", st)
            if mm and mm.group(2) in env:
                base, arg = env[mm.group(2)], mm.group(3)
                if arg in dirs and mm.group(2) == "path":
                    env[mm.group(1)] = "(sub t \"%s\")" % dirs[arg]
                elif arg == key:
                    env[mm.group(1)] = "(joinRel %s kb.1)" % base
                else:
                    raise NotFound(what + ": join with " + arg)
                continue
            mm = re.fullmatch(r"let (\w+)=(\w+)\.parent\(\)\.unwrap\(\);", st)
            if mm and mm.group(2) in env:
                env[mm.group(1)] = "%s.dropLast" % env[mm.group(2)]
                continue
            mm = re.fullmatch(r"let (\w+)=(\w+)\.expect\(\"[^\"]*\"\);", st)
            if mm and mm.group(2) == data_src and data_src is not None:
                data_var = mm.group(1)
                continue
            if st.startswith(("fs::", "close_already::fs::", "std::fs::")):
                call = strip_map_err(st, what)
                mm = re.fullmatch(r"(?:std::)?fs::create_dir_all\(&?(\w+)\)", call)
                if mm and mm.group(1) in env:
                    acc.append(".mkdirAll %s" % env[mm.group(1)])
                    continue
                mm = re.fullmatch(r"(?:std::)?fs::create_dir\(&?(\w+)\)", call)
                if mm and mm.group(1) in env:
                    acc.append(".mkdir %s" % env[mm.group(1)])
                    continue
                mm = re.fullmatch(r"(?:close_already::|std::)?fs::write\(&?(\w+),&\*(\w+)\)", call)
                if mm and mm.group(1) in env and mm.group(2) == data_var and data_var is not None:
                    acc.append(".write %s kb.2" % env[mm.group(1)])
                    continue
                raise NotFound(what + ": unknown effect " + call[:60])
            raise NotFound(what + ": unknown statement " + st[:60])

    loops = 0
    for st in statements(block):
        mm = re.match(r"for\((\w+),(\w+)\)in self\.%s\.iter\(\)\{" % store, st)
        if mm:
            loops += 1
            if loops > 1:
                raise NotFound(what + ": two loops")
            inner, end = block_at(st, mm.end() - 1)
            if st[end:]:
                raise NotFound(what + ": text after the loop")
            effects(statements(inner), dict(env), item, mm.group(1), mm.group(2))
        elif loops:
            raise NotFound(what + ": statements after the entry loop: " + st[:50])
        else:
            effects([st], env, pre, None, None)
    if loops != 1:
        raise NotFound(what + ": no entry loop")
    return pre, item


def sec_savePlan(ds, ft):
    impl_body = fn_parts(ft, "save_impl")[1]
    dirs = {}
    for c in ("DATA_DIR", "IMAGES_DIR"):
        mm = re.search(r"\b(?:static|const)\s+" + c + r"\s*:\s*&(?:'static\s+)?str\s*=\s*\"([A-Za-z0-9_.\-]*)\"\s*;", ft)
        if not mm:
            raise NotFound("constant " + c)
        dirs[c] = mm.group(1)
    out = []
    for store, name in (("data", "Data"), ("images", "Images")):
        pre, item = plan_block(ft, impl_body, store, dirs)
        out += ["/-- effects of the `%s` block of `save_impl` before its entry loop -/" % store,
                "def plan%sPre (t : APath) : List (Eff β) :=" % name, "  [" + ", ".join(pre) + "]",
                "/-- effects of one turn of the entry loop, in source order -/",
                "def plan%sItem (t : APath) (kb : Path.P × β) : List (Eff β) :=" % name, "  [" + ", ".join(item) + "]",
                "/-- the whole block: nothing for an empty store (`if !self.%s.is_empty()`) -/" % store,
                "def plan%s (t : APath) (items : List (Path.P × β)) : List (Eff β) :=" % name,
                "  if items.isEmpty then [] else plan%sPre t ++ items.flatMap (plan%sItem t)" % (name, name), ""]
    return out[:-1]

# ----------------------------------------------------------------------------------------------- file assembly

HEADER = """import Norad.Model.C16
/-!
GENERATED by tools/extract_store_ops.py from norad's src/datastore.rs (and the two directory constants of src/font.rs)
on every `./check C16` run.  Do not edit.  A pinned copy of every section lives in tools/pinned/StoreOps.lean and is used
for a section whose shape in the source the translator does not know (a refactor is not an alarm).  Core Lean only.

The definitions below are the Rust, statement by statement; `Norad/Props/C16Source.lean` proves them equal to the model.
-/
set_option linter.unusedVariables false
namespace C16.Gen
open C16 Path

/-! fixed text (not extracted): the std primitives the translation targets, on the model's types -/

/-- `Option::is_some_and` -/
def isSomeAnd {α : Type} (o : Option α) (f : α → Bool) : Bool :=
  match o with
  | none => false
  | some a => f a

/-- `HashMap::remove`: the entry whose key has the same components goes -/
def hmRemove (items : Items) (k : Key) : Items := items.filter fun e => !(parse e.1 == parse k)

/-- `std::fs::read(root/dir/path).map_err(|e| e.into())` on the abstract disk of the store's directory -/
def tryLoadItem (_kind : Kind) (disk : Disk) (path : Key) : Except Err Bytes :=
  match disk path with
  | none => .error .io
  | some b => .ok b

/-- what a directory walk does with one entry -/
inductive ListAct | collect | descend | refuse
  deriving DecidableEq, Repr

/-- the error class a refused listing is mapped to (the protocol's classes: the variant is not compared) -/
def listErr : Kind → Err
  | .data => .io
  | .image => .subdir

/-- a walk over a tree given as the list of its entries: a queue-driven walk meets every entry, a single `read_dir` the
    top level only; one refused entry refuses the listing, the collected entries are the keys -/
def listWith (recursive : Bool) (act : NodeKind → ListAct) (err : Err) (t : Listing) : Except Err (List Key) :=
  let seen := if recursive then t else t.filter fun e => e.1.length == 1
  if seen.any (fun e => act e.2 == .refuse) then .error err
  else .ok ((seen.filter fun e => act e.2 == .collect).map fun e => keyOfNames e.1)

"""

FOOTER = """/-! fixed text (not extracted): operation histories over the regenerated operations -/

def step (st : State) : Op → State × Obs
  | .insert k b => let (s, r) := insert st.store k b; ({ st with store := s }, .ins r)
  | .remove k => ({ st with store := remove st.store k }, .unit)
  | .get k => let (s, r) := get st.store st.disk k; ({ st with store := s }, .got r)
  | .clear => ({ st with store := clear st.store }, .unit)
  | .iter => let (s, r) := iter st.store st.disk; ({ st with store := s }, .all r)
  | .keys => (st, .ks (keys st.store))
  | .isEmpty => (st, .flag (isEmpty st.store))
  | .setDisk d => ({ st with disk := d }, .unit)

def run (st : State) : List Op → State
  | [] => st
  | op :: r => run (step st op).1 r

end C16.Gen
"""

OUT2 = os.path.join(ROOT, "lean", "Norad", "Generated", "StorePlanGen.lean")
PINNED2 = os.path.join(ROOT, "tools", "pinned", "StorePlanGen.lean")
HEADER2 = """import Norad.Model.FontSave
/-!
GENERATED by tools/extract_store_ops.py from `Font::save_impl` (src/font.rs) on every `./check C16` run.  Do not edit.
The two blocks that write the stores (`if !self.data.is_empty() { .. }`, `if !self.images.is_empty() { .. }`), statement by
statement: path bindings are evaluated symbolically, every file-system call becomes one effect of `FontSave.Eff`; how an I/O
error is wrapped (`map_err`) is not translated.  Pinned copy: tools/pinned/StorePlanGen.lean.  Core Lean only.
-/
set_option linter.unusedVariables false
namespace C16.PlanGen
open FontSave AbsFS
variable {β : Type}

"""
FOOTER2 = "end C16.PlanGen\n"
SECTIONS2 = [("savePlan", sec_savePlan)]

SECTIONS = [("validate", sec_validate), ("cell", sec_cell), ("mutators", sec_mutators), ("readers", sec_readers),
            ("listing", sec_listing), ("traits", sec_traits)]


def split_sections(text):
    out = {}
    for m in re.finditer(r"-- BEGIN (\w+)\n(.*?)-- END \1\n", text, flags=re.S):
        out[m.group(1)] = m.group(2)
    return out


def generate(repo, sections=None, header=None, footer=None, pinned_path=None):
    sections = SECTIONS if sections is None else sections
    header = HEADER if header is None else header
    footer = FOOTER if footer is None else footer
    pinned_path = PINNED if pinned_path is None else pinned_path
    pinned = split_sections(open(pinned_path).read()) if os.path.exists(pinned_path) else {}
    err = None
    try:
        ds = strip_comments(open(os.path.join(repo, "src", "datastore.rs")).read())
        ft = strip_comments(open(os.path.join(repo, "src", "font.rs")).read())
    except OSError as ex:
        ds = ft = None
        err = ex
    parts, fell_back = [], []
    for name, f in sections:
        try:
            if ds is None:
                raise NotFound(str(err))
            body = "\n".join(f(ds, ft)) + "\n"
        except (NotFound, IndexError, ValueError, KeyError, AssertionError) as ex:
            if name not in pinned:
                raise
            body = pinned[name]
            fell_back.append("%s (%s)" % (name, ex))
        parts.append("-- BEGIN %s\n%s-- END %s\n" % (name, body, name))
    return header + "\n".join(parts) + "\n" + footer, fell_back


def run():
    repo = os.environ.get("VERIF_REPO", "/repo").rstrip("/") or "/repo"
    text, fell_back = generate(repo)
    text2, fell_back2 = generate(repo, SECTIONS2, HEADER2, FOOTER2, PINNED2)
    changed = differs = False
    for out, pin, tx in ((OUT, PINNED, text), (OUT2, PINNED2, text2)):
        old = open(out).read() if os.path.exists(out) else None
        if old != tx:
            changed = True
            with open(out, "w") as f:
                f.write(tx)
        ptext = open(pin).read() if os.path.exists(pin) else None
        differs = differs or (ptext is not None and ptext != tx)
    fell_back = fell_back + fell_back2
    return {"extraction": "pinned" if fell_back else "full", "pinned_sections": fell_back, "source": repo,
            "changed_since_last_run": changed, "differs_from_pinned_copy": differs,
            "table": os.path.relpath(OUT, ROOT) + " " + os.path.relpath(OUT2, ROOT)}


if __name__ == "__main__":
    r = run()
    print(r)
    if len(sys.argv) > 1 and sys.argv[1] == "--pin":
        if r["extraction"] != "full":
            sys.exit("not pinning a partial extraction")
        import shutil
        os.makedirs(os.path.dirname(PINNED), exist_ok=True)
        shutil.copy(OUT, PINNED)
        shutil.copy(OUT2, PINNED2)
        print("pinned")
