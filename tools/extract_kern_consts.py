#!/usr/bin/env python3
"""C15 / C10: pull the constants and the iterated collection types of the groups validator and of the legacy
upconversions out of norad's src/groups.rs, src/upconversion.rs (and the `Kerning` alias of src/kerning.rs) and
regenerate lean/Norad/Generated/KernConsts.lean (DESIGN 3.5).

Sections (each falls back to the committed pinned copy tools/pinned/KernConsts.lean when its anchor in the source
is not found - a refactor is never an alarm; the result then says `extraction: pinned`):

  validator     validate_groups: every `starts_with("P") { if group_name.len() == N` -> (P, N)
  skipPrefixes  upconvert_kerning: `!first.starts_with("P")`, `!second.starts_with("P")` -> (side, P)
  newNames      upconvert_kerning: `format!("P{}", first.replace("L", ""))` -> (side, P, L)
  knownLegacy   find_known_kerning_groups: `starts_with("L") { groups_first.insert` -> (L, side)
  robofab       upconvert_ufov1_robofab_data: `#[serde(rename = "K")] field:` -> (field, K); `lib.remove("K")` -> K
  iterated      collection types iterated on result-affecting paths: declared types of `groups_first`,
                `groups_second` (find_known_kerning_groups), of the feature-block map (`features:` of LibData; when
                it is hashed, whether the collected keys are `.sort()`ed before the loop), and the `Groups` /
                `Kerning` aliases (what `for .. in kerning`, `groups.keys()` and the serialiser walk) and
                `Layer.contents` (contents.plist)
  hashedIter    every `.iter()`/`.keys()`/`.values()`/`.into_iter()`/`.drain()`/`for .. in` over an identifier declared as
                `HashSet`/`HashMap` (locals, fields, parameters, `if let Some(x) = ..field` aliases) in the four files outside
                their test modules, with its consumer: order-insensitive (`any`, `all`, `count`, `sum`, `contains`, `min`,
                `max`, collected into a set/map), sorted (collected into a local that is `.sort()`ed in the next statement),
                or order-dependent (`find`, `next`, `min_by_key`, `for`, `collect` into a Vec, ...).  Needs no anchor.

The tie theorems `source_*` of Norad/Props/C15.lean and Norad/Props/C10.lean (by `decide`) compare these with the
literals of the model, i.e. they are about what the code says NOW.
"""
import os
import re
import sys

sys.path.insert(0, os.path.dirname(os.path.abspath(__file__)))
from extract_filename_consts import NotFound, lean_str, unescape, fn_body, split_sections  # noqa: E402

ROOT = os.path.dirname(os.path.dirname(os.path.abspath(__file__)))
OUT = os.path.join(ROOT, "lean", "Norad", "Generated", "KernConsts.lean")
PINNED = os.path.join(ROOT, "tools", "pinned", "KernConsts.lean")

STR = r'"((?:\\.|[^"\\])*)"'


def strip_comments(s):
    return re.sub(r"//[^\n]*", "", s)


def lean_string(s):
    if not re.fullmatch(r"[A-Za-z0-9_.+:<>(), -]*", s):
        raise NotFound("unexpected characters in " + repr(s))
    return '"' + s + '"'


def sec_validator(src):
    body = strip_comments(fn_body(src["groups"], "validate_groups"))
    ms = re.findall(r"\.starts_with\(\s*" + STR + r"\s*\)\s*\{\s*if\s+\w+\.len\(\)\s*==\s*([0-9_]+)", body)
    if not ms:
        raise NotFound("starts_with(..) { if name.len() == N")
    rows = ["(%s, %d)" % (lean_str(unescape(p)), int(n.replace("_", ""))) for p, n in ms]
    return ("/-- (kerning-group prefix, byte length the validator compares `len()` with) in source order -/\n"
            "def validatorPrefixes : List (List Char × Nat) :=\n  [" + ",\n   ".join(rows) + "]\n")


def sec_skip(src):
    body = strip_comments(fn_body(src["upconv"], "upconvert_kerning"))
    ms = re.findall(r"!\s*(first|second)\.starts_with\(\s*" + STR + r"\s*\)", body)
    if not ms:
        raise NotFound("!first.starts_with(..)")
    rows = ["(%s, %s)" % (lean_string(side), lean_str(unescape(p))) for side, p in ms]
    return ("/-- (side, prefix a referenced group must not already carry) -/\n"
            "def skipPrefixes : List (String × List Char) :=\n  [" + ",\n   ".join(rows) + "]\n")


def sec_new_names(src):
    body = strip_comments(fn_body(src["upconv"], "upconvert_kerning"))
    ms = re.findall(r"format!\(\s*" + STR + r"\s*,\s*(first|second)\.replace\(\s*" + STR + r"\s*,\s*\"\"\s*\)\s*\)", body)
    if not ms:
        raise NotFound('format!("P{}", first.replace("L", ""))')
    rows = []
    for fmt, side, legacy in ms:
        if not fmt.endswith("{}") or "{" in fmt[:-2]:
            raise NotFound("format string shape")
        rows.append("(%s, %s, %s)" % (lean_string(side), lean_str(unescape(fmt[:-2])), lean_str(unescape(legacy))))
    return ("/-- (side, prefix of the new name, legacy marker removed from the old name) -/\n"
            "def newNames : List (String × List Char × List Char) :=\n  [" + ",\n   ".join(rows) + "]\n")


def sec_known(src):
    body = strip_comments(fn_body(src["upconv"], "find_known_kerning_groups"))
    ms = re.findall(r"\.starts_with\(\s*" + STR + r"\s*\)\s*\{\s*groups_(first|second)\.insert", body)
    if not ms:
        raise NotFound('starts_with("L") { groups_first.insert')
    rows = ["(%s, %s)" % (lean_str(unescape(p)), lean_string(side)) for p, side in ms]
    return ("/-- (legacy prefix, the set a group carrying it is put into), in the order of the `if`/`else if` chain -/\n"
            "def knownLegacy : List (List Char × String) :=\n  [" + ",\n   ".join(rows) + "]\n")


def sec_robofab(src):
    body = strip_comments(fn_body(src["upconv"], "upconvert_ufov1_robofab_data"))
    m = re.search(r"struct\s+LibData\s*\{(.*?)\n\s*\}", body, flags=re.S)
    if not m:
        raise NotFound("struct LibData")
    fields = re.findall(r"#\[serde\(rename\s*=\s*" + STR + r"\)\]\s*(\w+)\s*:", m.group(1))
    removed = re.findall(r"\blib\.remove\(\s*" + STR + r"\s*\)", body)
    if not fields or not removed:
        raise NotFound("serde renames / lib.remove")
    rows = ["(%s, %s)" % (lean_string(f), lean_str(unescape(k))) for k, f in fields]
    rem = [lean_str(unescape(k)) for k in removed]
    return ("/-- (field of `LibData`, lib key it is read from) -/\n"
            "def libDataKeys : List (String × List Char) :=\n  [" + ",\n   ".join(rows) + "]\n"
            "/-- keys removed from the lib after the conversion -/\n"
            "def removedKeys : List (List Char) :=\n  [" + ",\n   ".join(rem) + "]\n")


def sec_iterated(src):
    rows = []
    known = strip_comments(fn_body(src["upconv"], "find_known_kerning_groups"))
    for var in ("groups_first", "groups_second"):
        m = re.search(r"let\s+mut\s+" + var + r"\s*:\s*([\w:]+)\s*<", known)
        if not m:
            raise NotFound("let mut %s: T<..>" % var)
        rows.append((var, m.group(1).split("::")[-1]))
    robo = strip_comments(fn_body(src["upconv"], "upconvert_ufov1_robofab_data"))
    m = re.search(r"\bfeatures\s*:\s*Option<\s*([\w:]+)\s*<", robo)
    if not m:
        raise NotFound("features: Option<T<..>>")
    typ = m.group(1).split("::")[-1]
    if typ in ("HashMap",):
        # the order used when no featureorder exists: the collected keys, sorted or not
        m2 = re.search(r"let\s+mut\s+(\w+)\s*=\s*features_split\s*\.keys\(\)[^;]*;\s*\1\.(sort(?:_unstable)?)\(\)\s*;", robo)
        if m2:
            typ = typ + ".keys.sorted"
        elif re.search(r"\.sort\w*\(", robo):
            typ = typ + ".keys.custom-sort"
    rows.append(("feature_blocks", typ))
    m = re.search(r"\bpub\s+type\s+Groups\s*=\s*([\w:]+)\s*<", src["groups"])
    if not m:
        raise NotFound("pub type Groups")
    rows.append(("Groups", m.group(1).split("::")[-1]))
    m = re.search(r"\bpub\s+type\s+Kerning\s*=\s*([\w:]+)\s*<\s*Name\s*,\s*([\w:]+)\s*<", src["kerning"])
    if not m:
        raise NotFound("pub type Kerning")
    rows.append(("Kerning", m.group(1).split("::")[-1]))
    rows.append(("Kerning.seconds", m.group(2).split("::")[-1]))
    m = re.search(r"\bcontents\s*:\s*([\w:]+)\s*<\s*Name\s*,\s*PathBuf\s*>", src["layer"])
    if not m:
        raise NotFound("Layer.contents: T<Name, PathBuf>")
    rows.append(("Layer.contents", m.group(1).split("::")[-1]))
    body = ["(%s, %s)" % (lean_string(a), lean_string(b)) for a, b in rows]
    return ("/-- (what is iterated on a result-affecting path, the declared collection it is) -/\n"
            "def declaredCollections : List (String × String) :=\n  [" + ",\n   ".join(body) + "]\n")


# ---------------------------------------------------------------- every walk over a hashed collection

HASHED = r"(?:std::collections::)?(Hash(?:Set|Map))\b"
WALKS = ("iter", "iter_mut", "keys", "values", "values_mut", "into_iter", "into_keys", "into_values", "drain")
# the result does not depend on the order in which the items arrive
INSENSITIVE = {"any", "all", "count", "sum", "product", "contains", "len", "is_empty", "max", "min"}
# adaptors that keep the stream a stream of the same items in the same order
NEUTRAL = {"cloned", "copied", "map", "filter", "filter_map", "flat_map", "flatten", "inspect", "by_ref", "chain",
           "as_ref", "as_str", "to_string", "to_owned", "clone", "unwrap", "unwrap_or_default"}
ORDERED_TARGETS = ("BTreeSet", "BTreeMap", "HashSet", "HashMap")


def hashed_names(src):
    """identifiers declared with a hashed collection type (locals, fields, parameters), plus `if let Some(x) = ..field`
    aliases of such fields; name -> HashSet | HashMap"""
    names = {}
    for m in re.finditer(r"\b(\w+)\s*:\s*(?:&\s*(?:mut\s+)?)?(?:Option<\s*)?" + HASHED + r"\s*<", src):
        names[m.group(1)] = m.group(2)
    for m in re.finditer(r"\blet\s+(?:mut\s+)?(\w+)\s*=\s*" + HASHED + r"\s*::\s*(?:<[^>]*>\s*::\s*)?(?:new|with_capacity|default|from)\b", src):
        names[m.group(1)] = m.group(2)
    for m in re.finditer(r"\blet\s+(?:mut\s+)?(\w+)\s*=[^;]*?collect::<\s*" + HASHED + r"\s*<", src):
        names[m.group(1)] = m.group(2)
    changed = True
    while changed:
        changed = False
        for m in re.finditer(r"\b(?:if|while)\s+let\s+Some\(\s*(?:ref\s+)?(?:mut\s+)?(\w+)\s*\)\s*=\s*&?(?:mut\s+)?(?:\w+\.)*(\w+)\b", src):
            if m.group(2) in names and m.group(1) not in names:
                names[m.group(1)] = names[m.group(2)]
                changed = True
        for m in re.finditer(r"\blet\s+(?:mut\s+)?(\w+)\s*=\s*&?(?:mut\s+)?(?:\w+\.)*(\w+)\s*;", src):
            if m.group(2) in names and m.group(1) not in names:
                names[m.group(1)] = names[m.group(2)]
                changed = True
    return names


def chain_after(src, i):
    """method names applied at nesting depth 0 from position i up to the end of the statement; also the turbofish /
    text of the chain (for `collect::<T>`) and the end position"""
    depth, j, out = 0, i, []
    while j < len(src):
        c = src[j]
        if c in "([{":
            if c == "{" and depth == 0:
                break
            depth += 1
        elif c in ")]}":
            if depth == 0:
                break
            depth -= 1
        elif c == ";" and depth == 0:
            break
        elif c == "," and depth == 0:
            break
        elif c == "." and depth == 0:
            m = re.match(r"\.\s*(\w+)", src[j:])
            if m:
                out.append(m.group(1))
                j += m.end() - 1
        elif c == "?" and depth == 0:
            pass
        j += 1
    return out, src[i:j], j


def classify(kind, walk, chain, text, src, stmt_start, walk_start, stmt_end):
    """-> consumer label; "order-insensitive" / "sorted" when the order of the walk cannot reach the result"""
    for k, name in enumerate(chain):
        if name in NEUTRAL:
            continue
        if name in INSENSITIVE:
            return "order-insensitive"
        if name == "collect":
            m = re.search(r"collect::<\s*(?:std::collections::)?(\w+)", text)
            if m and m.group(1) in ORDERED_TARGETS:
                return "order-insensitive"
            # collected into a local that is sorted before anything else happens to it?
            lm = re.search(r"\blet\s+(?:mut\s+)?(\w+)\s*(?::\s*([^=;]+?))?\s*=\s*&?(?:mut\s+)?(?:\w+\s*\.\s*)*$", src[stmt_start:walk_start])
            if lm:
                if lm.group(2) and re.search(r"\b(BTreeSet|BTreeMap|HashSet|HashMap)\b", lm.group(2)):
                    return "order-insensitive"
                if re.match(r"\s*;\s*" + re.escape(lm.group(1)) + r"\.sort(?:_unstable)?\(\)\s*;", src[stmt_end:stmt_end + 200]):
                    return "sorted"
            return "collect"
        return name
    return "walk"


def sec_hashed_iter(src):
    rows = []
    for key, fname in (("groups", "groups.rs"), ("upconv", "upconversion.rs"), ("kerning", "kerning.rs"), ("layer", "layer.rs")):
        text = strip_comments(src[key])
        # the test modules are not result-affecting paths
        cut = re.search(r"#\[cfg\(test\)\]\s*mod\s+\w+", text)
        if cut:
            text = text[:cut.start()]
        names = hashed_names(text)
        for name, kind in sorted(names.items()):
            for m in re.finditer(r"\b" + re.escape(name) + r"\s*\.\s*(" + "|".join(WALKS) + r")\s*\(\s*\)", text):
                # `for pat in name.iter() {`: the loop body sees the items in walk order
                before = text[max(0, m.start() - 80):m.start()]
                stmt_start = max(text.rfind(";", 0, m.start()), text.rfind("{", 0, m.start()), text.rfind("}", 0, m.start())) + 1
                chain, ctext, end = chain_after(text, m.end())
                if re.search(r"\bfor\s+[^;{}]*\bin\s+&?(?:mut\s+)?(?:\w+\.)*$", before) and not chain:
                    label = "for"
                else:
                    label = classify(kind, m.group(1), chain, ctext, text, stmt_start, m.start(), end)
                rows.append(("%s:%s.%s" % (fname, name, m.group(1)),
                             "Hash." + label if label in ("order-insensitive", "sorted") else "%s.%s.%s" % (kind, m.group(1), label)))
            for m in re.finditer(r"\bfor\s+[^;{}]*?\bin\s+&?(?:mut\s+)?(?:self\s*\.\s*)?" + re.escape(name) + r"\s*\{", text):
                rows.append(("%s:%s" % (fname, name), "%s.for" % kind))
            # handed over as an iterable: `.chain(name)`, `.zip(&name)`
            for m in re.finditer(r"\.\s*(chain|zip)\s*\(\s*&?(?:mut\s+)?(?:self\s*\.\s*)?" + re.escape(name) + r"\s*\)", text):
                rows.append(("%s:%s" % (fname, name), "%s.into_iter.%s" % (kind, m.group(1))))
    body = ["(%s, %s)" % (lean_string(a), lean_string(b)) for a, b in rows]
    return ("/-- every walk (`iter`/`keys`/`values`/`into_iter`/`drain`/`for .. in`) over a `HashSet`/`HashMap` in the four files\n"
            "    outside their test modules, with what consumes it: `Hash.order-insensitive` (any/all/count/sum/contains/min/max/\n"
            "    collected into a set or map), `Hash.sorted` (collected and `.sort()`ed at once), otherwise type.walk.consumer -/\n"
            "def hashedIterations : List (String × String) :=\n  [" + ",\n   ".join(body) + "]\n")


SECTIONS = [("validator", sec_validator), ("skipPrefixes", sec_skip), ("newNames", sec_new_names),
            ("knownLegacy", sec_known), ("robofab", sec_robofab), ("iterated", sec_iterated),
            ("hashedIter", sec_hashed_iter)]

HEADER = """/-!
GENERATED by tools/extract_kern_consts.py from norad's src/groups.rs, src/upconversion.rs, src/kerning.rs, src/layer.rs on every
`./check C15` / `./check C10` run.  Do not edit.  A pinned copy of every section lives in tools/pinned/KernConsts.lean and
is used for a section whose anchor in the source is not found (a refactor is not an alarm).  Core Lean only.
-/
namespace Generated.KernConsts

"""


def generate(repo):
    pinned = split_sections(open(PINNED).read()) if os.path.exists(PINNED) else {}
    src, err = {}, None
    try:
        for k, fn in (("groups", "groups.rs"), ("upconv", "upconversion.rs"), ("kerning", "kerning.rs"),
                      ("layer", "layer.rs")):
            src[k] = open(os.path.join(repo, "src", fn)).read()
    except OSError as ex:
        src, err = None, ex
    parts, fell_back = [], []
    for name, f in SECTIONS:
        try:
            if src is None:
                raise NotFound(str(err))
            body = f(src)
        except (NotFound, IndexError, ValueError) as ex:
            if name not in pinned:
                raise
            body = pinned[name]
            fell_back.append("%s (%s)" % (name, ex))
        parts.append("-- BEGIN %s\n%s-- END %s\n" % (name, body, name))
    footer = ("\n/-- everything iterated on a result-affecting path: the declared collections and every walk over a hashed one -/\n"
              "def iteratedCollections : List (String × String) := declaredCollections ++ hashedIterations\n")
    return HEADER + "\n".join(parts) + footer + "\nend Generated.KernConsts\n", fell_back


def run():
    repo = os.environ.get("VERIF_REPO", "/repo").rstrip("/") or "/repo"
    text, fell_back = generate(repo)
    old = open(OUT).read() if os.path.exists(OUT) else None
    if old != text:
        with open(OUT, "w") as f:
            f.write(text)
    ptext = open(PINNED).read() if os.path.exists(PINNED) else None
    return {"extraction": "pinned" if fell_back else "full", "pinned_sections": fell_back, "source": repo,
            "changed_since_last_run": old != text, "differs_from_pinned_copy": ptext is not None and ptext != text,
            "table": os.path.relpath(OUT, ROOT)}


if __name__ == "__main__":
    r = run()
    print(r)
    if len(sys.argv) > 1 and sys.argv[1] == "--pin":
        import shutil
        os.makedirs(os.path.dirname(PINNED), exist_ok=True)
        shutil.copy(OUT, PINNED)
        print("pinned")
