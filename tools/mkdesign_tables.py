#!/usr/bin/env python3
"""Regenerates the machine-written tables of DESIGN.md (between the AUTO markers) from the files that are
the source of truth: evidence/*.json, lean/Norad/Audit/*.lean, known_findings.txt, seeded/*/meta.json."""
import glob, json, os, re, subprocess

ROOT = os.path.dirname(os.path.dirname(os.path.abspath(__file__)))


def status_table():
    rows = ["| id | theorems audited | quick: cases / non-trivial / wall | findings reproduced on every run | OPEN statements (comments in Props) |",
            "|---|---|---|---|---|"]
    for p in sorted(glob.glob(os.path.join(ROOT, "tools", "props", "C*.py"))):
        pid = os.path.basename(p)[:-3]
        ev = os.path.join(ROOT, "evidence", pid + ".json")
        audit = glob.glob(os.path.join(ROOT, "lean", "Norad", "Audit", pid + ".lean"))
        n = len(re.findall(r"^#print axioms", open(audit[0]).read(), flags=re.M)) if audit else 0
        opens = 0
        for f in glob.glob(os.path.join(ROOT, "lean", "Norad", "Props", pid + "*.lean")):
            opens += len(re.findall(r"\bOPEN\b", open(f).read()))
        if os.path.exists(ev):
            e = json.load(open(ev)); c = e["coverage"]
            rows.append(f"| {pid} | {n} | {c['evaluations']} / {c['distinct_nontrivial']} / {e['wall_s']:.0f} s | "
                        f"{', '.join(c.get('known_findings_reproduced') or []) or '–'} | {opens or '–'} |")
        else:
            rows.append(f"| {pid} | {n} | (no evidence yet) | | {opens or '–'} |")
    return "\n".join(rows)


def fixes_table():
    rows = ["| property | commit in /repo | what failed before the repair |", "|---|---|---|"]
    for line in open(os.path.join(ROOT, "known_findings.txt")):
        m = re.match(r"fixed: property=(\S+) (\S+) (.*)", line.strip())
        if m:
            rows.append(f"| {m.group(1)} | `{m.group(2)}` | {m.group(3)} |")
    return "\n".join(rows)


def findings_table():
    rows = ["| property | id | matched by (rule : features) | what fails |", "|---|---|---|---|"]
    for line in open(os.path.join(ROOT, "known_findings.txt")):
        line = line.strip()
        if not line.startswith("finding:"):
            continue
        head, _, text = line[len("finding:"):].partition("::")
        kv = dict(t.split("=", 1) for t in head.split() if "=" in t)
        t = text.strip()
        if len(t) > 260:
            t = t[:257] + "…"
        rows.append(f"| {kv.get('property')} | {kv.get('id')} | `{kv.get('rule')}` : `{kv.get('features', '')}` | {t} |")
    return "\n".join(rows)


def seeded_table():
    rows = ["| seeded change | breaks | what it needs to manifest | reported by |", "|---|---|---|---|"]
    for d in sorted(glob.glob(os.path.join(ROOT, "seeded", "*"))):
        mp = os.path.join(d, "meta.json")
        if not os.path.exists(mp):
            continue
        m = json.load(open(mp))
        rows.append(f"| `{os.path.basename(d)}`: {m['change']} | {m['property']} | {m['needs_to_manifest']} | {m['detected_by'].split('VIOLATION with concrete replay; ')[-1].split('VIOLATION, ')[-1]} |")
    return "\n".join(rows)


def main():
    p = os.path.join(ROOT, "DESIGN.md")
    s = open(p).read()
    for name, fn in [("STATUS", status_table), ("FIXES", fixes_table), ("FINDINGS", findings_table), ("SEEDED", seeded_table)]:
        a, b = f"<!-- AUTO:{name} -->", f"<!-- /AUTO:{name} -->"
        if a in s and b in s:
            i, j = s.index(a) + len(a), s.index(b)
            s = s[:i] + "\n" + fn() + "\n" + s[j:]
    open(p, "w").write(s)
    print("DESIGN.md tables regenerated")


if __name__ == "__main__":
    main()
