import propcfg
HOOK_COMMITS = []
NOTES = ("Every check: lake build of the property's theorem module + #print axioms audit, cargo rebuild of the harness "
         "against /repo's working tree, correspondence run, specification oracle. See DESIGN.md.")
PENDING = "check under construction in this build phase (model and correspondence not committed yet); see DESIGN.md section 5"
CHECKS = propcfg.MANIFESTS
ALL = ["C%02d" % i for i in range(1, 21)]
NOT_CLAIMED = {p: PENDING for p in ALL if p not in CHECKS}
