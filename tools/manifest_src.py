import propcfg
HOOK_COMMITS = []
NOTES = ("Every check: regeneration of the Lean tables / functions that are extracted from /repo's source (tools/extract_*.py, "
         "DESIGN.md 11.8), lake build of the property's theorem module + #print axioms audit (allowed: propext, Classical.choice, "
         "Quot.sound), cargo rebuild of the harness against /repo's working tree, correspondence run (model vs implementation on the "
         "same protocol lines), specification oracle on the implementation's own output, known-findings matching. See DESIGN.md.")
PENDING = "check under construction in this build phase (model and correspondence not committed yet); see DESIGN.md section 5"
CHECKS = propcfg.MANIFESTS
ALL = ["C%02d" % i for i in range(1, 21)]
NOT_CLAIMED = {p: PENDING for p in ALL if p not in CHECKS}
