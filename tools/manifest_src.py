HOOK_COMMITS = []
NOTES = ("Every check: lake build of the property's theorem module + #print axioms audit, cargo rebuild of the harness "
         "against /repo's working tree, correspondence run, specification oracle. See DESIGN.md.")

PENDING = "check under construction in this build phase (model and correspondence not committed yet); see DESIGN.md section 5"

CHECKS = {
    "C11": {
        "text": ("Theorem accepts_iff_legal: the transcription of OutlineBuilder::add_point/end_path accepts a point sequence of ANY length "
                 "iff it satisfies an independent declarative legality predicate (wrap-around included); accepted contours are returned unchanged, "
                 "empty ones dropped. The model is tied to the code by running Glyph::parse_raw on all sequences up to length 7/9 plus random "
                 "outlines and comparing with the compiled model; the executable oracle legalB (proved equivalent to the declarative rule) is "
                 "evaluated on the implementation's own verdict."),
        "design_ref": "5 / C11, Appendix A",
        "note": "trusted: Lean kernel, the three standard axioms, the harness and driver glue, quick-xml tokenising; u32 counter modelled as Nat",
        "technique": "Lean 4 theorem (induction over the point list, iff with a declarative spec) + exhaustive-to-length-7 correspondence",
    },
}

ALL = ["C%02d" % i for i in range(1, 21)]
NOT_CLAIMED = {p: PENDING for p in ALL if p not in CHECKS}
