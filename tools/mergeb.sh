#!/bin/bash
# usage: tools/mergeb.sh <builder> [Cxx ...]  -- merge build/<builder>, resolve additive conflicts, regenerate the manifest,
# rebuild, run the given checks
b=$1; shift
cd /verif
git merge --no-edit build/$b 2>&1 | grep -E "CONFLICT|Already|Merge made|files changed"
cf=$(git diff --name-only --diff-filter=U | grep -v MANIFEST.json)
[ -n "$cf" ] && python3 tools/union_resolve.py $cf
git diff --name-only --diff-filter=U | grep -q MANIFEST.json && git checkout --ours MANIFEST.json
python3 tools/mkmanifest.py
git add -A; git commit -qm "Merge build/$b" 2>/dev/null
(cd harness && cargo build --release --offline 2>&1 | grep -E "^error" | head -3)
# the whole library must build after a merge (builders share lemma files): under the lake lock, with the generated files of /repo
( flock 9; python3 tools/extract.py --all > /dev/null; cd lean && if ! lake build Norad driver > /tmp/mergeb.lake.log 2>&1; then echo "!!!!!!!! LAKE BUILD FAILED AFTER MERGE of $b:"; grep -E "^error|✖" /tmp/mergeb.lake.log | head; fi ) 9> /verif/.build/lake.lock
# a change to a SHARED observer re-runs every check that uses it (C17 was broken for a whole session by a change to
# harness/src/fsfam.rs that was only re-run against C08 and C09)
extra=""
if git diff --name-only HEAD~1 HEAD 2>/dev/null | grep -qE "harness/src/fsfam.rs|lean/Driver/FSFam.lean|lean/Norad/Model/(FontSave|AbsFS)"; then extra="C08 C09 C17"; fi
if git diff --name-only HEAD~1 HEAD 2>/dev/null | grep -qE "harness/src/(common|rng|small).rs|lean/Norad/Base/|^check$|tools/propcfg.py"; then extra="C01 C02 C03 C04 C05 C06 C07 C08 C09 C10 C11 C12 C13 C14 C15 C16 C17 C18 C19 C20"; fi
for c in $extra; do case " $* " in *" $c "*) ;; *) set -- "$@" $c;; esac; done
for c in "$@"; do ./check $c 2>&1 | tail -1 | cut -c1-160; done
git add -A; git commit -qm "evidence refresh ($*)" -q 2>/dev/null
