#!/bin/bash
# round 3 (or ROUND=4 ...): tools/seedbatch3.sh <logfile> Cxx [Cxx...]   (seeds in /tmp/seed$R/Cxx/out/1..3, demo <cxx>_r3_demo<k>;
# k = 1, 2 break the property, k = 3 is a BENIGN change: expected exit 0 or at most "no-failing-input-found")
LOG=$1; shift
R=${ROUND:-3}
for P in "$@"; do
  L=$(echo $P | tr A-Z a-z)
  F=""
  [ "$P" = "C19" ] && F=rayon
  [ "$P" = "C20" ] && F=kurbo
  for k in 1 2 3; do
    [ -d /tmp/seed$R/$P/out/$k ] || continue
    D=${L}_r${R}_demo$k
    FF=$F
    grep -q -- "--features kurbo" /tmp/seed$R/$P/out/$k/README.md 2>/dev/null && FF=kurbo
    grep -q -- "--features rayon" /tmp/seed$R/$P/out/$k/README.md 2>/dev/null && FF=rayon
    echo "===== $P seed r$R-$k ($D) features=$FF" >> "$LOG"
    FEATURES=$FF /verif/tools/seedtest.sh /tmp/seed$R/$P/out/$k "$D" $P 2>&1 | grep -E "^--- demo|test result|VIOLATION|^\[$P\]|PATCH|error" | grep -v "155 passed\|19 passed\|5 passed; 0 failed" | cut -c1-1500 >> "$LOG"
  done
done
echo "BATCH DONE" >> "$LOG"
