#!/usr/bin/env python3
"""C07: pull the table-shaped part of `user_name_to_file_name` out of norad's src/util.rs and regenerate
lean/Norad/Generated/FileNameConsts.lean (DESIGN 3.5).

Sections (each falls back to the committed pinned copy tools/pinned/FileNameConsts.lean when its anchor in the
source is not found - a refactor is never an alarm; the result then says `extraction: pinned`):

  maxLen     const MAX_LEN: usize = N;
  numberLen  const NUMBER_LEN: usize = N;
  illegal    static SPECIAL_ILLEGAL: &[char] = &[ 'c', .. ];
  reserved   static SPECIAL_RESERVED: &[&str] = &[ "w", .. ];
  counter    for counter in LO..HI u8   (HI exclusive; `..=` is normalised)
  affixes    the (prefix, suffix) literals the two wrappers pass to user_name_to_file_name

The tie theorems of Norad/Props/C07.lean (`source_*`, by `decide`) compare these with the constants of the model
and with the independent tables of Spec/C07.lean, i.e. they are about what the code says NOW.
"""
import os
import re
import sys

ROOT = os.path.dirname(os.path.dirname(os.path.abspath(__file__)))
OUT = os.path.join(ROOT, "lean", "Norad", "Generated", "FileNameConsts.lean")
PINNED = os.path.join(ROOT, "tools", "pinned", "FileNameConsts.lean")


class NotFound(Exception):
    pass


def lean_char(c):
    o = ord(c)
    if c == "\\":
        return "'\\\\'"
    if c == "'":
        return "'\\''"
    if 0x20 <= o < 0x7F:
        return "'" + c + "'"
    return "(Char.ofNat 0x%X)" % o


def lean_str(s):
    return "[" + ", ".join(lean_char(c) for c in s) + "]"


ESC = {"n": "\n", "r": "\r", "t": "\t", "\\": "\\", "0": "\0", "'": "'", '"': '"'}


def unescape(body):
    """Rust char/str literal body -> Python string"""
    out, i = [], 0
    while i < len(body):
        c = body[i]
        if c != "\\":
            out.append(c)
            i += 1
            continue
        n = body[i + 1]
        if n == "u":
            m = re.match(r"u\{([0-9a-fA-F_]+)\}", body[i + 1:])
            if not m:
                raise NotFound("escape in literal")
            out.append(chr(int(m.group(1).replace("_", ""), 16)))
            i += 1 + m.end()
        elif n == "x":
            out.append(chr(int(body[i + 2:i + 4], 16)))
            i += 4
        elif n in ESC:
            out.append(ESC[n])
            i += 2
        else:
            raise NotFound("escape in literal")
    return "".join(out)


def fn_body(src, name):
    m = re.search(r"\bfn\s+" + re.escape(name) + r"\b", src)
    if not m:
        raise NotFound("fn " + name)
    i = src.find("{", m.end())
    if i < 0:
        raise NotFound("fn " + name)
    depth, j = 1, i + 1
    while depth and j < len(src):
        depth += {"{": 1, "}": -1}.get(src[j], 0)
        j += 1
    return src[i:j]


def the_fn(src):
    return fn_body(src, "user_name_to_file_name")


def sec_const(name, lean_name):
    def f(src):
        m = re.search(r"\bconst\s+" + name + r"\s*:\s*usize\s*=\s*([0-9_]+)\s*;", the_fn(src))
        if not m:
            raise NotFound("const " + name)
        return "def %s : Nat := %d\n" % (lean_name, int(m.group(1).replace("_", "")))
    return f


def sec_illegal(src):
    m = re.search(r"\bstatic\s+SPECIAL_ILLEGAL\s*:\s*&\[char\]\s*=\s*&\[(.*?)\]\s*;", the_fn(src), flags=re.S)
    if not m:
        raise NotFound("static SPECIAL_ILLEGAL")
    body = re.sub(r"//[^\n]*", "", m.group(1))
    lits = re.findall(r"'((?:\\.[^']*|[^'\\]))'", body)
    rest = re.sub(r"'((?:\\.[^']*|[^'\\]))'", "", body)
    if not lits or rest.replace(",", "").strip():
        raise NotFound("SPECIAL_ILLEGAL literals")
    chars = [unescape(l) for l in lits]
    if any(len(c) != 1 for c in chars):
        raise NotFound("SPECIAL_ILLEGAL literals")
    return "def illegal : List Char :=\n  [" + ", ".join(lean_char(c) for c in chars) + "]\n"


def sec_reserved(src):
    m = re.search(r"\bstatic\s+SPECIAL_RESERVED\s*:\s*&\[&str\]\s*=\s*&\[(.*?)\]\s*;", the_fn(src), flags=re.S)
    if not m:
        raise NotFound("static SPECIAL_RESERVED")
    body = re.sub(r"//[^\n]*", "", m.group(1))
    lits = re.findall(r'"((?:\\.|[^"\\])*)"', body)
    rest = re.sub(r'"((?:\\.|[^"\\])*)"', "", body)
    if not lits or rest.replace(",", "").strip():
        raise NotFound("SPECIAL_RESERVED literals")
    words = [unescape(l) for l in lits]
    return "def reserved : List (List Char) :=\n  [" + ",\n   ".join(lean_str(w) for w in words) + "]\n"


def sec_counter(src):
    m = re.search(r"\bfor\s+counter\s+in\s+([0-9_]+)\s*\.\.(=?)\s*([0-9_]+)\s*(?:u8|u16|u32|u64|usize)?\s*\{", the_fn(src))
    if not m:
        raise NotFound("for counter in LO..HI")
    lo, hi = int(m.group(1).replace("_", "")), int(m.group(3).replace("_", ""))
    if m.group(2):
        hi += 1
    return ("/-- first counter tried -/\ndef counterLo : Nat := %d\n"
            "/-- end of the counter range, exclusive -/\ndef counterHi : Nat := %d\n" % (lo, hi))


def sec_affixes(src):
    out = []
    for fn, lean_name in (("default_file_name_for_glyph_name", "glyphAffixes"),
                          ("default_file_name_for_layer_name", "layerAffixes")):
        m = re.search(r'user_name_to_file_name\(\s*\w+\s*,\s*"((?:\\.|[^"\\])*)"\s*,\s*"((?:\\.|[^"\\])*)"\s*,', fn_body(src, fn))
        if not m:
            raise NotFound("affix literals of " + fn)
        out.append("/-- (prefix, suffix) passed by `%s` -/\ndef %s : List Char × List Char :=\n  (%s, %s)\n"
                   % (fn, lean_name, lean_str(unescape(m.group(1))), lean_str(unescape(m.group(2)))))
    return "".join(out)


SECTIONS = [("maxLen", sec_const("MAX_LEN", "maxLen")), ("numberLen", sec_const("NUMBER_LEN", "numberLen")),
            ("illegal", sec_illegal), ("reserved", sec_reserved), ("counter", sec_counter), ("affixes", sec_affixes)]

HEADER = """/-!
GENERATED by tools/extract_filename_consts.py from norad's src/util.rs on every `./check C07` run.  Do not edit.
A pinned copy of every section lives in tools/pinned/FileNameConsts.lean and is used for a section whose anchor
in the source is not found (a refactor is not an alarm).  Core Lean only.
-/
namespace Generated.FileNameConsts

"""


def split_sections(text):
    out = {}
    for m in re.finditer(r"-- BEGIN (\w+)\n(.*?)-- END \1\n", text, flags=re.S):
        out[m.group(1)] = m.group(2)
    return out


def generate(repo):
    pinned = split_sections(open(PINNED).read()) if os.path.exists(PINNED) else {}
    try:
        src = open(os.path.join(repo, "src", "util.rs")).read()
    except OSError as ex:
        src = None
        err = ex
    parts, fell_back = [], []
    for name, f in SECTIONS:
        try:
            if src is None:
                raise NotFound(str(err))
            body = f(src)
        except (NotFound, IndexError, ValueError) as ex:
            if name not in pinned:
                raise
            body = pinned[name]
            fell_back.append("%s (%s)" % (name, ex))
        parts.append("-- BEGIN %s\n%s-- END %s\n" % (name, body, name))
    return HEADER + "\n".join(parts) + "\nend Generated.FileNameConsts\n", fell_back


def run():
    repo = os.environ.get("VERIF_REPO", "/repo").rstrip("/") or "/repo"
    text, fell_back = generate(repo)
    old = open(OUT).read() if os.path.exists(OUT) else None
    if old != text:
        with open(OUT, "w") as f:
            f.write(text)
    ptext = open(PINNED).read() if os.path.exists(PINNED) else None
    return {"extraction": "pinned" if fell_back else "full", "pinned_sections": fell_back, "source": repo,
            "changed_since_last_run": old != text, "differs_from_pinned_copy": ptext is not None and ptext != text,
            "table": os.path.relpath(OUT, ROOT)}


if __name__ == "__main__":
    r = run()
    print(r)
    if len(sys.argv) > 1 and sys.argv[1] == "--pin":
        import shutil
        os.makedirs(os.path.dirname(PINNED), exist_ok=True)
        shutil.copy(OUT, PINNED)
        print("pinned")
