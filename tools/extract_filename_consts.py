#!/usr/bin/env python3
"""C07: source-level tie of `user_name_to_file_name` (src/util.rs), two generated files.

(1) lean/Norad/Generated/FileNameConsts.lean - the table-shaped part (DESIGN 3.5): MAX_LEN, NUMBER_LEN,
    SPECIAL_ILLEGAL, SPECIAL_RESERVED, the counter range, the affix literals of the two wrappers.
(2) lean/Norad/Generated/FileNameFn.lean - a statement-by-statement TRANSLATION of the function and its two
    wrappers into `C07.Gen.*` over the same `Str` / `U` / `lower` / `accept` parameters as Model/C07.lean:

      escape    the per-character loop: the arms of `match c` (pattern, guard, pushed characters), in source order
      reserved  `if let Some(stem) = result.split('.').next() { if SPECIAL_RESERVED.contains(&stem) { result.insert(0, '_'); } }`
      clip      `if <len expr> > <len expr> { let mut boundary = <expr>; while !is_char_boundary { boundary -= 1 } truncate }`
                (also the plain `result.truncate(<expr>)` without the walk)
      trailing  guard (`suffix.is_empty() &&`, `ends_with([..])`), the backwards walk's character set, the replacement
      cut       the if/else in front of the counter loop (same statement grammar as clip)
      counter   `for counter in ..`: format width, the argument of `accept_path`, the truncation at the end of a try,
                the `panic!` after the last try
      main      the ORDER of the blocks and the argument of the first `accept_path` call
      wrappers  prefix, suffix and closure of `default_file_name_for_glyph_name` / `_layer_name`

    Props/C07.lean proves `source_*_eq_model` (function equality) for every section, so every C07 theorem is
    re-checked against the source as it stands.

Policy: a translator never IGNORES a statement - every statement of the function body has to be one of the known
shapes (or exactly one of the known declaration / debug_assert texts).  Unknown shape => that section is taken from
the pinned copy (tools/pinned/FileNameFn.lean), `extraction: pinned`, never an alarm (the behavioural correspondence
remains the tie).  Known shape with different content => the generated definition differs and its theorem fails.
"""
import os
import re
import sys

ROOT = os.path.dirname(os.path.dirname(os.path.abspath(__file__)))
OUT = os.path.join(ROOT, "lean", "Norad", "Generated", "FileNameConsts.lean")
PINNED = os.path.join(ROOT, "tools", "pinned", "FileNameConsts.lean")


class NotFound(Exception):
    pass


def lean_char(c):
    o = ord(c)
    if c == "\\":
        return "'\\\\'"
    if c == "'":
        return "'\\''"
    if 0x20 <= o < 0x7F:
        return "'" + c + "'"
    return "(Char.ofNat 0x%X)" % o


def lean_str(s):
    return "[" + ", ".join(lean_char(c) for c in s) + "]"


ESC = {"n": "\n", "r": "\r", "t": "\t", "\\": "\\", "0": "\0", "'": "'", '"': '"'}


def unescape(body):
    """Rust char/str literal body -> Python string"""
    out, i = [], 0
    while i < len(body):
        c = body[i]
        if c != "\\":
            out.append(c)
            i += 1
            continue
        n = body[i + 1]
        if n == "u":
            m = re.match(r"u\{([0-9a-fA-F_]+)\}", body[i + 1:])
            if not m:
                raise NotFound("escape in literal")
            out.append(chr(int(m.group(1).replace("_", ""), 16)))
            i += 1 + m.end()
        elif n == "x":
            out.append(chr(int(body[i + 2:i + 4], 16)))
            i += 4
        elif n in ESC:
            out.append(ESC[n])
            i += 2
        else:
            raise NotFound("escape in literal")
    return "".join(out)


def fn_body(src, name):
    m = re.search(r"\bfn\s+" + re.escape(name) + r"\b", src)
    if not m:
        raise NotFound("fn " + name)
    i = src.find("{", m.end())
    if i < 0:
        raise NotFound("fn " + name)
    depth, j = 1, i + 1
    while depth and j < len(src):
        depth += {"{": 1, "}": -1}.get(src[j], 0)
        j += 1
    return src[i:j]


def the_fn(src):
    return fn_body(src, "user_name_to_file_name")


def sec_const(name, lean_name):
    def f(src):
        m = re.search(r"\bconst\s+" + name + r"\s*:\s*usize\s*=\s*([0-9_]+)\s*;", the_fn(src))
        if not m:
            raise NotFound("const " + name)
        return "def %s : Nat := %d\n" % (lean_name, int(m.group(1).replace("_", "")))
    return f


def sec_illegal(src):
    m = re.search(r"\bstatic\s+SPECIAL_ILLEGAL\s*:\s*&\[char\]\s*=\s*&\[(.*?)\]\s*;", the_fn(src), flags=re.S)
    if not m:
        raise NotFound("static SPECIAL_ILLEGAL")
    body = re.sub(r"//[^\n]*", "", m.group(1))
    lits = re.findall(r"'((?:\\.[^']*|[^'\\]))'", body)
    rest = re.sub(r"'((?:\\.[^']*|[^'\\]))'", "", body)
    if not lits or rest.replace(",", "").strip():
        raise NotFound("SPECIAL_ILLEGAL literals")
    chars = [unescape(l) for l in lits]
    if any(len(c) != 1 for c in chars):
        raise NotFound("SPECIAL_ILLEGAL literals")
    return "def illegal : List Char :=\n  [" + ", ".join(lean_char(c) for c in chars) + "]\n"


def sec_reserved(src):
    m = re.search(r"\bstatic\s+SPECIAL_RESERVED\s*:\s*&\[&str\]\s*=\s*&\[(.*?)\]\s*;", the_fn(src), flags=re.S)
    if not m:
        raise NotFound("static SPECIAL_RESERVED")
    body = re.sub(r"//[^\n]*", "", m.group(1))
    lits = re.findall(r'"((?:\\.|[^"\\])*)"', body)
    rest = re.sub(r'"((?:\\.|[^"\\])*)"', "", body)
    if not lits or rest.replace(",", "").strip():
        raise NotFound("SPECIAL_RESERVED literals")
    words = [unescape(l) for l in lits]
    return "def reserved : List (List Char) :=\n  [" + ",\n   ".join(lean_str(w) for w in words) + "]\n"


def sec_counter(src):
    m = re.search(r"\bfor\s+counter\s+in\s+([0-9_]+)\s*\.\.(=?)\s*([0-9_]+)\s*(?:u8|u16|u32|u64|usize)?\s*\{", the_fn(src))
    if not m:
        raise NotFound("for counter in LO..HI")
    lo, hi = int(m.group(1).replace("_", "")), int(m.group(3).replace("_", ""))
    if m.group(2):
        hi += 1
    return ("/-- first counter tried -/\ndef counterLo : Nat := %d\n"
            "/-- end of the counter range, exclusive -/\ndef counterHi : Nat := %d\n" % (lo, hi))


def sec_affixes(src):
    out = []
    for fn, lean_name in (("default_file_name_for_glyph_name", "glyphAffixes"),
                          ("default_file_name_for_layer_name", "layerAffixes")):
        m = re.search(r'user_name_to_file_name\(\s*\w+\s*,\s*"((?:\\.|[^"\\])*)"\s*,\s*"((?:\\.|[^"\\])*)"\s*,', fn_body(src, fn))
        if not m:
            raise NotFound("affix literals of " + fn)
        out.append("/-- (prefix, suffix) passed by `%s` -/\ndef %s : List Char × List Char :=\n  (%s, %s)\n"
                   % (fn, lean_name, lean_str(unescape(m.group(1))), lean_str(unescape(m.group(2)))))
    return "".join(out)


SECTIONS = [("maxLen", sec_const("MAX_LEN", "maxLen")), ("numberLen", sec_const("NUMBER_LEN", "numberLen")),
            ("illegal", sec_illegal), ("reserved", sec_reserved), ("counter", sec_counter), ("affixes", sec_affixes)]

HEADER = """/-!
GENERATED by tools/extract_filename_consts.py from norad's src/util.rs on every `./check C07` run.  Do not edit.
A pinned copy of every section lives in tools/pinned/FileNameConsts.lean and is used for a section whose anchor
in the source is not found (a refactor is not an alarm).  Core Lean only.
-/
namespace Generated.FileNameConsts

"""


def split_sections(text):
    out = {}
    for m in re.finditer(r"-- BEGIN (\w+)\n(.*?)-- END \1\n", text, flags=re.S):
        out[m.group(1)] = m.group(2)
    return out


def generate(repo):
    pinned = split_sections(open(PINNED).read()) if os.path.exists(PINNED) else {}
    try:
        src = open(os.path.join(repo, "src", "util.rs")).read()
    except OSError as ex:
        src = None
        err = ex
    parts, fell_back = [], []
    for name, f in SECTIONS:
        try:
            if src is None:
                raise NotFound(str(err))
            body = f(src)
        except (NotFound, IndexError, ValueError) as ex:
            if name not in pinned:
                raise
            body = pinned[name]
            fell_back.append("%s (%s)" % (name, ex))
        parts.append("-- BEGIN %s\n%s-- END %s\n" % (name, body, name))
    return HEADER + "\n".join(parts) + "\nend Generated.FileNameConsts\n", fell_back


# ====================================================================================================
# (2) the translator
# ====================================================================================================

FN_OUT = os.path.join(ROOT, "lean", "Norad", "Generated", "FileNameFn.lean")
FN_PINNED = os.path.join(ROOT, "tools", "pinned", "FileNameFn.lean")
C = "Generated.FileNameConsts."
CHAR_LIT = r"'(?:\\.[^']*|[^'\\])'"


def strip_comments(src):
    """remove // comments (the function body has no string literal containing //)"""
    return re.sub(r"//[^\n]*", "", src)


def norm(t):
    return re.sub(r"\s+", " ", t).strip()


def flat(t):
    return re.sub(r"\s+", "", t)


def skip_literal(t, i):
    """index after a char or string literal starting at t[i], else i"""
    if t[i] == "'":
        m = re.match(CHAR_LIT, t[i:])
        return i + m.end() if m else i
    if t[i] == '"':
        m = re.match(r'"(?:\\.|[^"\\])*"', t[i:])
        return i + m.end() if m else i
    return i


def split_statements(block):
    """top-level statements of a brace-less block text; a block statement (`if/for/while/match .. { }`) ends at its
    closing brace unless `else` follows"""
    out, i, start, depth = [], 0, 0, 0
    n = len(block)
    while i < n:
        j = skip_literal(block, i)
        if j != i:
            i = j
            continue
        c = block[i]
        if c in "{([":
            depth += 1
        elif c in "})]":
            depth -= 1
            if depth < 0:
                raise NotFound("unbalanced block")
            if depth == 0 and c == "}":
                head = block[start:i + 1].lstrip()
                if re.match(r"(if|for|while|match|loop)\b", head):
                    rest = block[i + 1:].lstrip()
                    if not rest.startswith("else"):
                        out.append(block[start:i + 1])
                        start = i + 1
        elif c == ";" and depth == 0:
            out.append(block[start:i + 1])
            start = i + 1
        i += 1
    if block[start:].strip():
        out.append(block[start:])
    return [norm(x) for x in out if x.strip()]


def braces(t, i=0):
    """(inside, index after) of the brace block starting at the first `{` at or after i (literals skipped)"""
    n = len(t)
    while i < n and t[i] != "{":
        j = skip_literal(t, i)
        i = j if j != i else i + 1
    if i >= n:
        raise NotFound("block")
    depth, k = 0, i
    while k < n:
        j = skip_literal(t, k)
        if j != k:
            k = j
            continue
        if t[k] == "{":
            depth += 1
        elif t[k] == "}":
            depth -= 1
            if depth == 0:
                return t[i + 1:k], k + 1
        k += 1
    raise NotFound("block")


# ---------------------------------------------------------------- arithmetic expressions over byte lengths

ATOMS = [(r"result\.len\(\)", "usize result"), (r"suffix\.len\(\)", "usize suf"), (r"prefix\.len\(\)", "usize pre"),
         (r"MAX_LEN\b", C + "maxLen"), (r"NUMBER_LEN\b", C + "numberLen"), (r"boundary\b", "boundary")]


class Expr:
    def __init__(self, op, l=None, r=None, atom=None):
        self.op, self.l, self.r, self.atom = op, l, r, atom

    def lean(self):
        if self.op == "atom":
            return self.atom
        r = self.r.lean()
        if self.r.op != "atom":
            r = "(" + r + ")"
        return "%s %s %s" % (self.l.lean(), self.op, r)

    def arg(self):
        t = self.lean()
        return t if re.fullmatch(r"\w+", t) else "(" + t + ")"


def parse_expr(t):
    t = t.strip()
    e, rest = _expr(t)
    if rest.strip():
        raise NotFound("expression: " + t)
    return e


def _expr(t):
    l, t = _term(t)
    while True:
        m = re.match(r"\s*([+-])\s*(?![=])", t)
        if not m:
            return l, t
        r, t = _term(t[m.end():])
        l = Expr(m.group(1), l, r)


def _term(t):
    t = t.lstrip()
    e = None
    for pat, lean in ATOMS:
        m = re.match(pat, t)
        if m:
            e, t = Expr("atom", atom=lean), t[m.end():]
            break
    if e is None:
        m = re.match(r"(\d+)(?:usize)?\b", t)
        if m:
            e, t = Expr("atom", atom=m.group(1)), t[m.end():]
        elif t.startswith("("):
            e, t = _expr(t[1:])
            if not t.lstrip().startswith(")"):
                raise NotFound("expression")
            t = t.lstrip()[1:]
            e = Expr("atom", atom="(" + e.lean() + ")") if e.op != "atom" else e
        else:
            raise NotFound("expression atom: " + t[:40])
    while True:
        m = re.match(r"\.saturating_(add|sub)\(", t)
        if not m:
            return e, t
        inner, t = _expr(t[m.end():])
        if not t.startswith(")"):
            raise NotFound("expression")
        t = t[1:]
        e = Expr("+" if m.group(1) == "add" else "-", e, inner)


def parse_cond(t):
    m = re.fullmatch(r"(.+?)\s(>=|<=|>|<)\s(.+)", t.strip())
    if not m:
        raise NotFound("condition: " + t)
    op = {">": ">", "<": "<", ">=": "≥", "<=": "≤"}[m.group(2)]
    return "%s %s %s" % (parse_expr(m.group(1)).lean(), op, parse_expr(m.group(3)).lean())


WALK = "while !result.is_char_boundary(boundary) { boundary -= 1; }"


def truncation(block):
    """the statements of a clipping block -> Lean term of type Option Str"""
    st = split_statements(block)
    if len(st) == 3:
        m = re.fullmatch(r"let mut boundary = (.+);", st[0])
        if m and st[1] == WALK and st[2] == "result.truncate(boundary);":
            return "truncateAt result (backoff result %s)" % parse_expr(m.group(1)).arg()
    if len(st) == 2:
        m = re.fullmatch(r"let (?:mut )?boundary = (.+);", st[0])
        if m and st[1] == "result.truncate(boundary);":
            return "truncateAt result %s" % parse_expr(m.group(1)).arg()
    if len(st) == 1:
        m = re.fullmatch(r"result\.truncate\((.+)\);", st[0])
        if m:
            return "truncateAt result %s" % parse_expr(m.group(1)).arg()
    raise NotFound("clipping block: " + " ".join(st)[:80])


HELPERS = {}   # name -> Lean term over `result`, for one-argument helper functions of util.rs with a known body


def scan_helpers(src):
    """`fn f(s: &str) -> Cow<'_, str> { if s.chars().any(char::is_uppercase) { Cow::Owned(s.to_lowercase()) } else
    { Cow::Borrowed(s) } }`: lower-casing only when some character is `is_uppercase` - NOT the same function"""
    HELPERS.clear()
    for m in re.finditer(r"\bfn\s+(\w+)\s*\(\s*(\w+)\s*:\s*&str\s*\)\s*->\s*Cow<'_,\s*str>", src):
        try:
            body = norm(fn_body(src, m.group(1)))
        except NotFound:
            continue
        v = m.group(2)
        if body == "{ if %s.chars().any(char::is_uppercase) { Cow::Owned(%s.to_lowercase()) } else { Cow::Borrowed(%s) } }" % (v, v, v):
            HELPERS[m.group(1)] = "(if result.any U = true then lower result else result)"


def accept_arg(t):
    t = t.strip()
    if t == "&result.to_lowercase()":
        return "(lower result)"
    if t == "&result":
        return "result"
    if t == "&result.to_ascii_lowercase()":
        return "(result.map Char.toLower)"   # ASCII letters only: not `str::to_lowercase`
    m = re.fullmatch(r"&(\w+)\(&result\)", t)
    if m and m.group(1) in HELPERS:
        return HELPERS[m.group(1)]
    raise NotFound("argument of accept_path: " + t)


def chars_of(t):
    cs = [unescape(x[1:-1]) for x in re.findall(CHAR_LIT, t)]
    if any(len(c) != 1 or ord(c) >= 0x80 for c in cs):
        raise NotFound("non-ASCII character in a one-byte context")
    return cs


# ---------------------------------------------------------------- sections

def t_escape(stmt):
    m = re.fullmatch(r"for c in name\.chars\(\) \{ match c \{ (.*) \} \}", stmt)
    if not m:
        raise NotFound("per-character loop")
    t = m.group(1).strip()
    arms = []
    while t:
        m = re.match(r"(%s|c)(?: if (.+?))? => " % CHAR_LIT, t)
        if not m:
            raise NotFound("match arm: " + t[:50])
        pat, guard = m.group(1), m.group(2)
        t = t[m.end():]
        if t.startswith("{"):
            body, k = braces(t)
            t = t[k:].lstrip().lstrip(",").lstrip()
            stmts = split_statements(body)
        else:
            k = t.index(",") if "," in t else len(t)
            # a char literal may be ',': search the first comma outside literals
            i = 0
            while i < len(t):
                j = skip_literal(t, i)
                if j != i:
                    i = j
                    continue
                if t[i] == ",":
                    break
                i += 1
            stmts = [t[:i].strip() + ";"]
            t = t[i + 1:].lstrip()
        pushed = []
        for st in stmts:
            pm = re.fullmatch(r"result\.push\((%s|c)\);" % CHAR_LIT, st)
            if not pm:
                raise NotFound("arm statement: " + st)
            pushed.append("c" if pm.group(1) == "c" else lean_char(unescape(pm.group(1)[1:-1])))
        conds = []
        if pat != "c":
            conds.append("c = " + lean_char(unescape(pat[1:-1])))
        if guard is not None:
            g = {"result.is_empty()": "atStart = true", "SPECIAL_ILLEGAL.contains(&c)": "c ∈ " + C + "illegal",
                 "c.is_uppercase()": "U c = true",
                 "c.is_ascii_uppercase()": "(65 ≤ c.toNat ∧ c.toNat ≤ 90)"}.get(guard.strip())
            if g is None:
                raise NotFound("arm guard: " + guard)
            conds.append(g)
        arms.append((conds, pushed))
    if not arms or arms[-1][0]:
        raise NotFound("last arm is not a catch-all")
    lines = ["/-- the arms of `match c` in the per-character loop, in source order -/",
             "def escChar (U : Char → Bool) (atStart : Bool) (c : Char) : Str :="]
    for k, (conds, pushed) in enumerate(arms):
        val = "[" + ", ".join(pushed) + "]"
        if k == len(arms) - 1:
            lines.append("  else " + val if k else "  " + val)
        else:
            if not conds:
                raise NotFound("catch-all arm before the last")
            lines.append("  %sif %s then %s" % ("else " if k else "", " ∧ ".join(conds), val))
    lines += ["", "/-- `for c in name.chars() { match c { .. } }` -/",
              "def escapeInto (U : Char → Bool) : Str → Str → Str",
              "  | result, [] => result",
              "  | result, c :: cs => escapeInto U (result ++ escChar U result.isEmpty c) cs"]
    return "\n".join(lines) + "\n"


def t_reserved(stmt):
    m = re.fullmatch(r"if let Some\(stem\) = result\.split\((%s)\)\.next\(\) \{ if SPECIAL_RESERVED\.contains\(&stem\) "
                     r"\{ result\.insert\((\d+), (%s)\); \} \}" % (CHAR_LIT, CHAR_LIT), stmt)
    if not m:
        raise NotFound("reserved-name test")
    sep, pos, ch = lean_char(unescape(m.group(1)[1:-1])), m.group(2), lean_char(unescape(m.group(3)[1:-1]))
    return ("/-- `result.split(%s).next()` -/\n"
            "def stem (result : Str) : Str := result.takeWhile (· ≠ %s)\n\n"
            "/-- `if let Some(stem) = .. { if SPECIAL_RESERVED.contains(&stem) { result.insert(%s, %s); } }` -/\n"
            "def insertReserved (result : Str) : Str :=\n"
            "  if stem result ∈ %sreserved then insertAtByte result %s %s else result\n"
            % (sep, sep, pos, ch, C, pos, ch))


def t_clip(stmt):
    m = re.match(r"if (.+?) \{", stmt)
    if not m or not stmt.endswith("}"):
        raise NotFound("clip statement")
    body, k = braces(stmt)
    if stmt[k:].strip():
        raise NotFound("clip statement has an else")
    return ("def clip (pre suf result : Str) : Option Str :=\n  if %s then\n    %s\n  else some result\n"
            % (parse_cond(m.group(1)), truncation(body)))


def t_cut(stmt):
    m = re.match(r"if (.+?) \{", stmt)
    if not m:
        raise NotFound("cut statement")
    b1, k = braces(stmt)
    rest = stmt[k:].strip()
    if not rest.startswith("else"):
        raise NotFound("cut statement without else")
    b2, k2 = braces(rest)
    if rest[k2:].strip() or rest[4:rest.index("{")].strip():
        raise NotFound("cut statement")
    return ("def cutForCounter (pre suf result : Str) : Option Str :=\n  if %s then\n    %s\n  else\n    %s\n"
            % (parse_cond(m.group(1)), truncation(b1), truncation(b2)))


def t_trailing(stmt):
    m = re.fullmatch(r"if (suffix\.is_empty\(\) && )?result\.ends_with\(\[(.+?)\]\) \{ let mut boundary = result\.len\(\); "
                     r"for \(i, c\) in result\.char_indices\(\)\.rev\(\) \{ if (.+?) \{ break; \} boundary = i; \} "
                     r"let underscores = \"(.)\"\.repeat\(result\.len\(\) - boundary\); "
                     r"result\.replace_range\(boundary\.\.result\.len\(\), &underscores\); \}", stmt)
    if not m:
        raise NotFound("trailing period/space block")
    guard_set = chars_of(m.group(2))
    cond = m.group(3)
    if not re.fullmatch(r"c != %s(?: && c != %s)*" % (CHAR_LIT, CHAR_LIT), cond):
        raise NotFound("trailing walk condition: " + cond)
    walk_set = chars_of(cond)
    rep = m.group(4)
    if ord(rep) >= 0x80:
        raise NotFound("replacement is not one byte")
    ls = lambda cs: "[" + ", ".join(lean_char(c) for c in cs) + "]"
    guard = ("suf.isEmpty = true ∧ " if m.group(1) else "") + "endsWithAny result %s = true" % ls(guard_set)
    return ("/-- the `char_indices().rev()` walk, `\"%s\".repeat(..)` and `replace_range` -/\n"
            "def fixTrailing (result : Str) : Str :=\n"
            "  let k := (result.reverse.takeWhile (fun c => %s.contains c)).length\n"
            "  result.take (result.length - k) ++ List.replicate k %s\n\n"
            "def trailing (pre suf result : Str) : Str :=\n"
            "  if %s then fixTrailing result else result\n" % (rep, ls(walk_set), lean_char(rep), guard))


def t_counter(stmts):
    """[`let mut found_unique = false;`, `for counter in ..`, `if !found_unique { panic!(..) }`]"""
    if len(stmts) != 3 or stmts[0] != "let mut found_unique = false;":
        raise NotFound("counter loop frame")
    if not re.fullmatch(r'if !found_unique \{ panic!\("[^"]*"\) \}', stmts[2]):
        raise NotFound("panic after the last try")
    m = re.fullmatch(r"for counter in [0-9_]+ ?\.\.=? ?[0-9_]+(?:u8|u16|u32|u64|usize)? \{ (.*) \}", stmts[1])
    if not m:
        raise NotFound("counter loop")
    body = split_statements(m.group(1))
    if len(body) != 4:
        raise NotFound("counter loop body")
    f = re.fullmatch(r'write!\(&mut result, "\{:0>(\d+)\}", counter\)\.unwrap\(\);', body[0])
    if not f or body[1] != "result.push_str(suffix);":
        raise NotFound("counter formatting")
    a = re.fullmatch(r"if accept_path\((.+?)\) \{ found_unique = true; break; \}", body[2])
    tr = re.fullmatch(r"result\.truncate\((.+)\);", body[3])
    if not a or not tr:
        raise NotFound("counter loop body")
    digits = "twoDigits counter" if f.group(1) == "2" else "padDigits %s counter" % f.group(1)
    return ("/-- `for counter in LO..HI { .. }` with `fuel` = remaining iterations; `none` = the `panic!` after the last try -/\n"
            "def tryCounters (U : Char → Bool) (lower : Str → Str) (accept : Nat → Str → Bool) (pre suf : Str) :\n"
            "    Nat → Nat → Str → Option Str\n"
            "  | 0, _, _ => none\n"
            "  | fuel + 1, counter, result =>\n"
            "    let result := result ++ %s\n"
            "    let result := result ++ suf\n"
            "    if accept counter %s = true then some result\n"
            "    else\n"
            "      match truncateAt result %s with\n"
            "      | none => none\n"
            "      | some result => tryCounters U lower accept pre suf fuel (counter + 1) result\n"
            % (digits, accept_arg(a.group(1)), parse_expr(tr.group(1)).arg()))


def t_wrappers(src):
    out = []
    for fn, lean_name in (("default_file_name_for_glyph_name", "glyphFileName"),
                          ("default_file_name_for_layer_name", "layerDirName")):
        body = norm(strip_comments(fn_body(src, fn)))
        m = re.fullmatch(r'\{ user_name_to_file_name\(name, "((?:\\.|[^"\\])*)", "((?:\\.|[^"\\])*)", '
                         r'\|name\| !existing\.contains\(name\)\) \}', body)
        if not m:
            raise NotFound("wrapper " + fn)
        out.append("/-- `%s` -/\n"
                   "def %s (U : Char → Bool) (lower : Str → Str) (name : Str) (existing : List Str) : Option Str :=\n"
                   "  userNameToFileName U lower name %s %s (fun _ name => !existing.contains name)\n"
                   % (fn, lean_name, lean_str(unescape(m.group(1))), lean_str(unescape(m.group(2)))))
    return "\n".join(out)


# declarations and assertions that do not touch `result`: exactly these texts (flattened), nothing else
KNOWN_DECL = [
    r"letname=name\.as_ref\(\);",
    r"letmutresult=String::with_capacity\(prefix\.len\(\)\+name\.len\(\)\+suffix\.len\(\)\);",
    r"staticSPECIAL_ILLEGAL:&\[char\]=&\[.*\];",
    r"staticSPECIAL_RESERVED:&\[&str\]=&\[.*\];",
    r"constMAX_LEN:usize=[0-9_]+;",
    r"constNUMBER_LEN:usize=[0-9_]+;",
    r'debug_assert!\(!prefix\.chars\(\)\.any\(\|c\|SPECIAL_ILLEGAL\.contains\(&c\)\),"[^"]*"\);',
    r'debug_assert!\(suffix\.is_empty\(\)\|\|suffix\.starts_with\(\'\.\'\),"[^"]*"\);',
    r'debug_assert!\(!suffix\.chars\(\)\.any\(\|c\|SPECIAL_ILLEGAL\.contains\(&c\)\),"[^"]*"\);',
    r'debug_assert!\(!suffix\.ends_with\(\[\'\.\',\'\'\]\),"[^"]*"\);',
]


def is_decl(stmt):
    f = flat(stmt)
    return any(re.fullmatch(p, f) for p in KNOWN_DECL)


def classify(stmt):
    if is_decl(stmt):
        return "decl"
    if stmt == "result.push_str(prefix);":
        return "push_prefix"
    if stmt == "result.push_str(suffix);":
        return "push_suffix"
    if stmt.startswith("for c in name.chars()"):
        return "escape"
    if stmt.startswith("if let Some(stem) ="):
        return "reserved"
    if stmt.startswith("if !accept_path("):
        return "accept"
    if stmt.startswith("if ") and "replace_range" in stmt:
        return "trailing"
    if stmt.startswith("if ") and "truncate" in stmt and "accept_path" not in stmt:
        return "clip"
    if stmt == "result.into()":
        return "into"
    return "unknown"


def translate_fn(src):
    """-> ({section: text}, {section: reason it could not be translated})"""
    done, failed = {}, {}

    def attempt(name, f, *a):
        try:
            done[name] = f(*a)
        except (NotFound, IndexError, ValueError, KeyError) as ex:
            failed[name] = str(ex)

    src = strip_comments(src)   # first: a commented-out line of the body contains a brace
    scan_helpers(src)
    body = fn_body(src, "user_name_to_file_name").strip()[1:-1]
    top = split_statements(body)
    kinds = [classify(s) for s in top]
    by_kind = {}
    for k, s in zip(kinds, top):
        by_kind.setdefault(k, []).append(s)
    for sec, f in (("escape", t_escape), ("reserved", t_reserved), ("clip", t_clip), ("trailing", t_trailing)):
        if len(by_kind.get(sec, [])) == 1:
            attempt(sec, f, by_kind[sec][0])
        else:
            failed[sec] = "statement not found (or found %d times)" % len(by_kind.get(sec, []))
    # inside `if !accept_path(..) { .. }`
    inner_ok, first_arg = False, None
    if len(by_kind.get("accept", [])) == 1:
        st = by_kind["accept"][0]
        m = re.match(r"if !accept_path\((.+?)\) \{", st)
        inner, k = braces(st)
        if st[k:].strip():
            failed["main"] = "else after the accept test"
        else:
            try:
                first_arg = accept_arg(m.group(1))
            except NotFound as ex:
                failed["main"] = str(ex)
            ist = [x for x in split_statements(inner) if not is_decl(x)]
            cut = [x for x in ist if x.startswith("if ") and "truncate" in x and "found_unique" not in x]
            if len(cut) == 1:
                attempt("cut", t_cut, cut[0])
            else:
                failed["cut"] = "statement not found"
            rest = [x for x in ist if x not in cut]
            attempt("counter", t_counter, rest)
            # order inside: cut, then the three statements of the loop frame, nothing else
            inner_ok = len(cut) == 1 and len(rest) == 3 and ist == cut + rest
    else:
        failed["cut"] = failed["counter"] = "accept test not found"
    attempt("wrappers", t_wrappers, src)
    # main: every statement known, one of each step, `accept` last before `into`
    steps = [k for k in kinds if k != "decl"]
    need = ["push_prefix", "escape", "reserved", "clip", "trailing", "push_suffix", "accept", "into"]
    if "main" in failed:
        pass
    elif "unknown" in kinds:
        failed["main"] = "unknown statement: " + top[kinds.index("unknown")][:70]
    elif sorted(steps) != sorted(need) or steps[-2:] != ["accept", "into"] or not inner_ok or first_arg is None:
        failed["main"] = "blocks are not the known set: %s" % steps
    else:
        L = ["def userNameToFileName (U : Char → Bool) (lower : Str → Str) (name pre suf : Str)",
             "    (accept : Nat → Str → Bool) : Option Str :=", "  let result : Str := []"]
        ind = "  "
        for k in steps[:-2]:
            if k == "push_prefix":
                L.append(ind + "let result := result ++ pre")
            elif k == "push_suffix":
                L.append(ind + "let result := result ++ suf")
            elif k == "escape":
                L.append(ind + "let result := escapeInto U result name")
            elif k == "reserved":
                L.append(ind + "let result := insertReserved result")
            elif k == "trailing":
                L.append(ind + "let result := trailing pre suf result")
            elif k == "clip":
                L += [ind + "match clip pre suf result with", ind + "| none => none", ind + "| some result =>"]
                ind += "  "
        L += [ind + "if accept 0 %s = true then some result" % first_arg, ind + "else",
              ind + "  match cutForCounter pre suf result with", ind + "  | none => none", ind + "  | some result =>",
              ind + "    tryCounters U lower accept pre suf", ind + "      (%scounterHi - %scounterLo)" % (C, C),
              ind + "      %scounterLo result" % C]
        done["main"] = "\n".join(L) + "\n"
    return done, failed


FN_SECTIONS = ["escape", "reserved", "clip", "trailing", "cut", "counter", "main", "wrappers"]

FN_HEADER = """import Norad.Model.C07
import Norad.Generated.FileNameConsts
/-!
GENERATED by tools/extract_filename_consts.py from norad's src/util.rs on every `./check C07` run.  Do not edit.
Statement-by-statement translation of `user_name_to_file_name` and its two wrappers.  Primitives of `std`
(`str::len` = `usize`, `str::is_char_boundary`, `String::truncate`, the `while !is_char_boundary { b -= 1 }`
walk = `backoff`, `{:0>2}` of a counter below 100 = `twoDigits`) are the ones of `Model/C07.lean`.  A section
whose statements do not have the known shape is taken from tools/pinned/FileNameFn.lean (a refactor is not an alarm).
-/
namespace C07.Gen
open C07

/-- `String::insert(idx, ch)` (byte index) -/
def insertAtByte : Str → Nat → Char → Str
  | s, 0, x => x :: s
  | [], _ + 1, x => [x]
  | c :: cs, n + 1, x => c :: insertAtByte cs (n + 1 - c.utf8Size) x

/-- `str::ends_with([..])` -/
def endsWithAny (s : Str) (cs : List Char) : Bool :=
  match s.getLast? with
  | some c => cs.contains c
  | none => false

/-- `{:0>w}` of a counter: decimal digits, left-padded with `0` to width `w` -/
def padDigits (w k : Nat) : Str :=
  let d := (Nat.toDigits 10 k)
  List.replicate (w - d.length) '0' ++ d

"""


def generate_fn(repo):
    pinned = split_sections(open(FN_PINNED).read()) if os.path.exists(FN_PINNED) else {}
    try:
        src = open(os.path.join(repo, "src", "util.rs")).read()
        done, failed = translate_fn(src)
    except (OSError, NotFound, IndexError, ValueError) as ex:
        done, failed = {}, {n: str(ex) for n in FN_SECTIONS}
    parts, fell_back = [], []
    for name in FN_SECTIONS:
        if name in done:
            body = done[name]
        else:
            if name not in pinned:
                raise NotFound("section %s: %s (and no pinned copy)" % (name, failed.get(name)))
            body = pinned[name]
            fell_back.append("%s (%s)" % (name, failed.get(name, "?")))
        parts.append("-- BEGIN %s\n%s-- END %s\n" % (name, body, name))
    return FN_HEADER + "\n".join(parts) + "\nend C07.Gen\n", fell_back


def write_if_changed(path, text):
    old = open(path).read() if os.path.exists(path) else None
    if old != text:
        with open(path, "w") as f:
            f.write(text)
    return old != text


def run():
    repo = os.environ.get("VERIF_REPO", "/repo").rstrip("/") or "/repo"
    text, fell_back = generate(repo)
    changed = write_if_changed(OUT, text)
    ftext, ffell = generate_fn(repo)
    fchanged = write_if_changed(FN_OUT, ftext)
    ptext = open(PINNED).read() if os.path.exists(PINNED) else None
    fptext = open(FN_PINNED).read() if os.path.exists(FN_PINNED) else None
    allfell = fell_back + ffell
    return {"extraction": "pinned" if allfell else "full", "pinned_sections": allfell, "source": repo,
            "translated_sections": [n for n in FN_SECTIONS if not any(x.startswith(n + " ") for x in ffell)],
            "changed_since_last_run": changed or fchanged,
            "differs_from_pinned_copy": (ptext is not None and ptext != text) or (fptext is not None and fptext != ftext),
            "table": os.path.relpath(OUT, ROOT), "translation": os.path.relpath(FN_OUT, ROOT)}


if __name__ == "__main__":
    r = run()
    print(r)
    if len(sys.argv) > 1 and sys.argv[1] == "--pin":
        import shutil
        os.makedirs(os.path.dirname(PINNED), exist_ok=True)
        shutil.copy(OUT, PINNED)
        shutil.copy(FN_OUT, FN_PINNED)
        print("pinned")
