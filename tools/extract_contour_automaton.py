"""Translator for the contour-acceptance automaton (C11): regenerates lean/Norad/Generated/ContourAutomaton.lean
from src/glyph/builder.rs (`OutlineBuilder::add_point` and the wrap-around loop of `end_path`) on every run.

The Rust is a `match` over the point type whose arms are built from three statement shapes only:
    if <cond> { return Err(ErrorKind::<E>); }        cond: !scratch_contour.points.is_empty() | *number_of_offcurves > K | smooth
    *number_of_offcurves = 0;                         |  number_of_offcurves = <same>
    *number_of_offcurves = number_of_offcurves.saturating_add(1);
(+ `break`, `unreachable!()` in the loop).  Each arm is translated to the corresponding Lean arm; the property file
proves `Gen.addPoint = C11.addPoint`, `Gen.wrap = C11.wrap`, `Gen.endPath = C11.endPath`, so every C11 theorem is
re-checked against what the code says NOW.  If the code no longer has this shape (a refactor), the pinned copy is
used and the run reports `extraction: pinned` — never an alarm.
"""
import os, re, sys

ROOT = os.path.dirname(os.path.dirname(os.path.abspath(__file__)))
REPO = os.environ.get("VERIF_REPO", "/repo").rstrip("/") or "/repo"
GEN = os.path.join(ROOT, "lean", "Norad", "Generated", "ContourAutomaton.lean")
PINNED = os.path.join(ROOT, "tools", "pinned", "ContourAutomaton.lean")

PT = {"Move": ".move", "Line": ".line", "OffCurve": ".off", "Curve": ".curve", "QCurve": ".qcurve"}
ERR = {"UnexpectedMove": ".unexpectedMove", "UnexpectedPointAfterOffCurve": ".afterOff", "UnexpectedSmooth": ".smoothOff",
       "TooManyOffCurves": ".tooMany", "TrailingOffCurves": ".trailing"}


class Anchor(Exception):
    pass


def block_after(src, start):
    """text of the brace block starting at the first '{' at or after `start` (exclusive of the braces)"""
    i = src.index("{", start)
    depth, j = 0, i
    while True:
        c = src[j]
        if c == "{":
            depth += 1
        elif c == "}":
            depth -= 1
            if depth == 0:
                return src[i + 1:j], j + 1
        j += 1


def split_arms(body):
    """[(PointType name, arm text)] of a `match` body over `PointType::X =>`"""
    arms = []
    pos = 0
    for m in re.finditer(r"PointType::(\w+)\s*=>", body):
        pass
    it = list(re.finditer(r"PointType::(\w+)\s*=>", body))
    for k, m in enumerate(it):
        start = m.end()
        rest = body[start:].lstrip()
        if rest.startswith("{"):
            txt, _ = block_after(body, start)
        else:
            end = it[k + 1].start() if k + 1 < len(it) else len(body)
            txt = body[start:end].strip().rstrip(",")
        arms.append((m.group(1), txt))
    if sorted(a for a, _ in arms) != sorted(PT):
        raise Anchor("match arms are not exactly the five point types: %s" % [a for a, _ in arms])
    return arms


def cond_to_lean(c):
    c = re.sub(r"\s+", " ", c.strip())
    if c == "!scratch_contour.points.is_empty()":
        return "!empty"
    m = re.fullmatch(r"\*?number_of_offcurves > (\d+)", c)
    if m:
        return "n > %s" % m.group(1)
    if c == "smooth":
        return "p.smooth"
    raise Anchor("unknown condition: " + c)


def translate_stmts(txt, loop):
    """-> list of ('if', cond, err) | ('set0',) | ('inc',) | ('break',) | ('err', e) | ('unreachable',)"""
    out = []
    t = re.sub(r"//[^\n]*", "", txt)
    t = re.sub(r"\s+", " ", t).strip()
    while t:
        m = re.match(r"if (.*?) \{ return Err\(ErrorKind::(\w+)\); \}", t)
        if m:
            out.append(("if", cond_to_lean(m.group(1)), ERR[m.group(2)])); t = t[m.end():].strip(); continue
        m = re.match(r"\*?number_of_offcurves = 0;?", t)
        if m:
            out.append(("set0",)); t = t[m.end():].strip(); continue
        m = re.match(r"\*?number_of_offcurves = number_of_offcurves\.saturating_add\(1\);?", t)
        if m:
            out.append(("inc",)); t = t[m.end():].strip(); continue
        m = re.match(r"return Err\(ErrorKind::(\w+)\);?", t)
        if m:
            out.append(("err", ERR[m.group(1)])); t = t[m.end():].strip(); continue
        if loop and re.match(r"break;?", t):
            out.append(("break",)); t = re.sub(r"^break;?", "", t).strip(); continue
        if re.match(r"unreachable!\(\);?", t):
            out.append(("unreachable",)); t = re.sub(r"^unreachable!\(\);?", "", t).strip(); continue
        raise Anchor("unknown statement: " + t[:60])
    return out


def arm_addpoint(stmts):
    """Lean expression for an `add_point` arm: nested ifs, then the new counter"""
    new_n = "n"
    conds = []
    for s in stmts:
        if s[0] == "if":
            conds.append(s)
        elif s[0] == "set0":
            new_n = "0"
        elif s[0] == "inc":
            new_n = "n + 1"
        else:
            raise Anchor("statement not allowed in add_point: %s" % (s,))
    e = ".ok (%s)" % new_n if new_n != "n" and new_n != "0" else ".ok %s" % new_n
    for c in reversed(conds):
        e = "if %s then .error %s else %s" % (c[1], c[2], e)
    return e


def arm_wrap(stmts):
    """Lean expression for an arm of the wrap-around loop: continue with n+1, stop ok, stop with a test, fail"""
    kinds = [s[0] for s in stmts]
    if kinds == ["inc"]:
        return "wrap ps (n + 1)"
    if kinds == ["break"]:
        return ".ok ()"
    if kinds == ["if", "break"]:
        return "if %s then .error %s else .ok ()" % (stmts[0][1], stmts[0][2])
    if kinds == ["err"]:
        return ".error %s" % stmts[0][1]
    if kinds == ["unreachable"]:
        return ".ok ()   -- `unreachable!()` in the Rust; shown unreachable in Props/C03"
    raise Anchor("wrap arm of unknown shape: %s" % kinds)


def flat(t):
    return re.sub(r"\s+", "", re.sub(r"//[^\n]*", "", t))


ADD_TAIL = "scratch_contour.points.push(ContourPoint::new(x,y,segment_type,smooth,name,identifier,));Ok(self)"
END_TAIL = "if!scratch_contour.points.is_empty(){self.contours.push(scratch_contour);}Ok(self)"


def nothing_else(what, text, allowed=""):
    """a translator must never IGNORE a statement: everything around the translated shapes has to be exactly the known text"""
    if flat(text) != allowed:
        raise Anchor("%s: statements the translator does not know: %s" % (what, flat(text)[:80]))


def generate():
    src = open(os.path.join(REPO, "src", "glyph", "builder.rs")).read()
    i = src.index("pub(crate) fn add_point(")
    j = src.index("match segment_type", i)
    body, after_match = block_after(src, j)
    # the arm `OutlineBuilderState::Drawing { .. } => { <nothing> match segment_type { .. } <push; Ok(self)> }`
    pat = "OutlineBuilderState::Drawing { scratch_contour, number_of_offcurves } =>"
    arm = src.index(pat, i)
    if not arm < j:
        raise Anchor("add_point: Drawing arm")
    arm_body, _ = block_after(src, arm + len(pat))
    k0 = arm_body.index("match segment_type")
    nothing_else("add_point, before the match", arm_body[:k0])
    _, k1 = block_after(arm_body, k0)
    nothing_else("add_point, after the match", arm_body[k1:], ADD_TAIL)
    add_arms = {a: arm_addpoint(translate_stmts(t, False)) for a, t in split_arms(body)}
    k = src.index("pub(crate) fn end_path(")
    # outer test: `if number_of_offcurves > K { if scratch_contour.is_closed() { for ... } else { return Err(E); } }`
    m = re.search(r"if number_of_offcurves > (\d+) \{\s*if scratch_contour\.is_closed\(\) \{", src[k:])
    if not m:
        raise Anchor("end_path outer test")
    outer_k = m.group(1)
    l = src.index("for point in &scratch_contour.points", k)
    lm = src.index("match point.typ", l)
    lbody, after = block_after(src, lm)
    # nothing but the known shapes around them
    epat = "OutlineBuilderState::Drawing { scratch_contour, mut number_of_offcurves } =>"
    earm = src.index(epat, k)
    earm_body, _ = block_after(src, earm + len(epat))
    o0 = earm_body.index("if number_of_offcurves >")
    nothing_else("end_path, before the trailing-off-curve test", earm_body[:o0])
    obody, o1 = block_after(earm_body, o0)
    nothing_else("end_path, after the trailing-off-curve test", earm_body[o1:], END_TAIL)
    c0 = obody.index("if scratch_contour.is_closed()")
    nothing_else("end_path, before the closed test", obody[:c0])
    cbody, _ = block_after(obody, c0)
    f0 = cbody.index("for point in &scratch_contour.points")
    nothing_else("end_path, before the wrap loop", cbody[:f0])
    fbody, f1 = block_after(cbody, f0)
    nothing_else("end_path, after the wrap loop", cbody[f1:])
    m0 = fbody.index("match point.typ")
    nothing_else("wrap loop, before the match", fbody[:m0])
    _, m1 = block_after(fbody, m0)
    nothing_else("wrap loop, after the match", fbody[m1:])
    wrap_arms = {a: arm_wrap(translate_stmts(t, True)) for a, t in split_arms(lbody)}
    m2 = re.search(r"\}\s*else\s*\{\s*return Err\(ErrorKind::(\w+)\);\s*\}", src[after:after + 400])
    if not m2:
        raise Anchor("end_path else branch")
    open_err = ERR[m2.group(1)]
    order = ["Move", "Line", "OffCurve", "QCurve", "Curve"]
    out = []
    out.append("import Norad.Model.C11")
    out.append("/-! GENERATED by tools/extract_contour_automaton.py from src/glyph/builder.rs — do not edit.")
    out.append("    The automaton of `OutlineBuilder::add_point` / `end_path`, arm by arm as the Rust has it now. -/")
    out.append("namespace C11.Gen")
    out.append("open C11")
    out.append("")
    out.append("def addPoint (empty : Bool) (n : Nat) (p : Pt) : Except Err Nat :=")
    out.append("  match p.typ with")
    for a in order:
        out.append("  | %s => %s" % (PT[a], add_arms[a]))
    out.append("")
    out.append("def wrap : List Pt → Nat → Except Err Unit")
    out.append("  | [], _ => .ok ()")
    out.append("  | p :: ps, n =>")
    out.append("    match p.typ with")
    for a in ["OffCurve", "QCurve", "Curve", "Line", "Move"]:
        out.append("    | %s => %s" % (PT[a], wrap_arms[a]))
    out.append("")
    out.append("def endPath (pts : List Pt) (n : Nat) : Except Err Unit :=")
    out.append("  if n > %s then (if isClosed pts then wrap pts n else .error %s) else .ok ()" % (outer_k, open_err))
    out.append("")
    out.append("end C11.Gen")
    return "\n".join(out) + "\n"


def run():
    try:
        text = generate()
    except (Anchor, ValueError, KeyError, OSError, IndexError) as e:
        if os.path.exists(PINNED):
            ptext = open(PINNED).read()
            if not os.path.exists(GEN) or open(GEN).read() != ptext:
                os.makedirs(os.path.dirname(GEN), exist_ok=True)
                open(GEN, "w").write(ptext)
        return {"extraction": "pinned", "reason": "anchor not found: %s" % e}
    old = open(GEN).read() if os.path.exists(GEN) else None
    if old != text:
        os.makedirs(os.path.dirname(GEN), exist_ok=True)
        open(GEN, "w").write(text)
    ptext = open(PINNED).read() if os.path.exists(PINNED) else None
    return {"extraction": "fresh", "source": REPO, "differs_from_pinned_copy": ptext is not None and ptext != text}


if __name__ == "__main__":
    r = run()
    print(r)
    if "--pin" in sys.argv and r.get("extraction") == "fresh":
        os.makedirs(os.path.dirname(PINNED), exist_ok=True)
        open(PINNED, "w").write(open(GEN).read())
        print("pinned")
