#!/bin/bash
# usage: tools/seedtest.sh <seed-dir containing patch.diff, demo.rs> <demo target name> <Cxx> [more Cxx...]
# Confirms a seeded change in a scratch worktree of /repo (never in /repo itself): suite green with the change,
# demo fails with it and passes without; then runs the given checks against it with VERIF_REPO.
set -u
SEED=$(readlink -f "$1"); DEMO=$2; shift 2
W=/tmp/sw/$(basename "$SEED")-$$
mkdir -p /tmp/sw
git -C /repo worktree add -q --detach "$W" HEAD || exit 2
cd "$W"
mkdir -p tests
cp "$SEED/demo.rs" "tests/$DEMO.rs"
echo "--- demo WITHOUT the change"
CARGO_NET_OFFLINE=true cargo test --offline ${FEATURES:+--features $FEATURES} --test "$DEMO" 2>&1 | grep -E "^test result|error\[" | head -3
git apply "$SEED/patch.diff" || { echo "PATCH DOES NOT APPLY"; }
echo "--- demo WITH the change"
CARGO_NET_OFFLINE=true cargo test --offline ${FEATURES:+--features $FEATURES} --test "$DEMO" 2>&1 | grep -E "^test result|error\[" | head -3
rm -f "tests/$DEMO.rs"
echo "--- suite WITH the change"
CARGO_NET_OFFLINE=true cargo test --offline 2>&1 | grep -E "^test result|error\[" | head -4
rm -rf target
for P in "$@"; do
  echo "--- check $P against the change"
  ( cd /verif && VERIF_REPO="$W" ./check "$P" 2>&1 | grep -E "VIOLATION|KNOWN|^\[$P\]|tooling" | cut -c1-220 )
done
cd /
git -C /repo worktree remove --force "$W"
H=$(python3 -c "import hashlib,sys;print(hashlib.blake2b(sys.argv[1].encode(),digest_size=4).hexdigest())" "$W")
rm -rf /verif/.build/harness-$H /verif/.build/target-$H /verif/.build/target-$H-*
