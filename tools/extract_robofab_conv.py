#!/usr/bin/env python3
"""C14: translate the statement sequence of `upconvert_ufov1_robofab_data` (src/upconversion.rs) into the table
(robofab lib key / hint entry, target, conversion) and regenerate lean/Norad/Generated/RobofabConv.lean.

The body of the function is parsed as a SEQUENCE of statements; every statement must be one this translator knows,
otherwise the sections that depend on the sequence fall back to the pinned copy tools/pinned/RobofabConv.lean
(`extraction: pinned`, never an alarm).  A known statement with other content (another target member, a dropped
`flatten`, an unconditional assignment made conditional, a missing `validate`, another removed key) gives other
Lean, and the theorems `source_robofab_*` of Norad/Props/C14.lean fail.

Sections:
  libKeys     members of the local `struct LibData`: (serde key, member, type)
  hintTypes   members of the local `struct PsHintingData` (rename_all camelCase): (entry, member, type)
  hints       the statements inside `if let Some(h) = lib_data.<hint member> { .. }`, in source order:
                font_info.F = h.M;                                      -> (entry of M, key of F, .direct)
                if let Some(x) = h.M { font_info.F = Some(x.into_iter().flatten().collect()); };
                                                                        -> (entry of M, key of F, .flattenIfPresent)
                font_info.validate().map_err(FontLoadError::FontInfoV1Upconversion)?;
                                                                        -> hintValidateAfter = number of rows before it
              (an unconditional assignment rewritten as a conditional one, or the reverse, is an UNKNOWN shape: no
              format-1 attribute reaches these members, so the two are indistinguishable and must not raise an alarm)
              (key of F = serde key of the member F of `struct FontInfo`, src/fontinfo.rs)
  features    the statements that build the feature text:
                if let Some(c) = lib_data.A { features.push_str(&c); }  -> (key of A, "features", .appendText)
                if let Some(fs) = lib_data.B { let order = if let Some(o) = lib_data.C { o } else { <fallback> };
                    features.push('\\n'); for key in order { if let Some(t) = fs.get(&key) { features.push_str(t); } } }
                                                                        -> (key of B, "features", .newlineThenBlocks),
                                                                           (key of C, "features", .blockOrder)
              featureFallbackOrder = "sorted" (`keys.sort()`, or plain iteration of a `BTreeMap`) | "mapOrder" (plain
              iteration of a `HashMap`; a map of another type is an unknown shape);  featuresNoneWhenEmpty from the final `if features.is_empty()`
  removed     the `lib.remove("..")` statements, in order
"""
import os
import re
import sys

sys.path.insert(0, os.path.dirname(os.path.abspath(__file__)))
from extract_fontinfo_deser import NotFound, matched, strip_comments, sq, lean_str, struct_members, camel  # noqa: E402

ROOT = os.path.dirname(os.path.dirname(os.path.abspath(__file__)))
OUT = os.path.join(ROOT, "lean", "Norad", "Generated", "RobofabConv.lean")
PINNED = os.path.join(ROOT, "tools", "pinned", "RobofabConv.lean")


def fn_body(src, name):
    m = re.search(r"\bfn\s+" + name + r"\s*\(", src)
    if not m:
        raise NotFound("fn " + name)
    i = src.index("{", src.index(")", m.end()))
    # the return type may contain `<..>` but no brace
    return strip_comments(matched(src, i))


def local_struct(body, name):
    m = re.search(r"((?:\s*#\[[^\n]*\]\n)*)\s*struct\s+" + name + r"\s*\{", body)
    if not m:
        raise NotFound("struct " + name)
    inner = matched(body, m.end() - 1)
    head = m.group(1)
    if not re.search(r"derive\([^)]*\bDeserialize\b", head):
        raise NotFound("derive of " + name)
    rename_all = re.search(r'rename_all\s*=\s*"(\w+)"', head)
    if rename_all and rename_all.group(1) != "camelCase":
        raise NotFound("rename_all of " + name)
    # reuse the member parser on a synthetic top-level struct
    _, members = struct_members("struct %s {%s}" % (name, inner), name)
    rows = []
    for attrs, f, t in members:
        key = camel(f) if rename_all else f
        for a in attrs:
            mm = re.fullmatch(r'\s*serde\(\s*rename\s*=\s*"([^"]+)"\s*\)\s*', a)
            if not mm:
                raise NotFound("attribute of %s.%s" % (name, f))
            key = mm.group(1)
        mt = re.fullmatch(r"Option<(.+)>", t)
        if not mt:
            raise NotFound("member of %s that is not an Option: %s" % (name, f))
        rows.append((key, f, mt.group(1)))
    span = (m.start(), m.end() + len(inner) + 1)
    return rows, span


def fontinfo_keys(repo):
    src = open(os.path.join(repo, "src", "fontinfo.rs")).read()
    _, members = struct_members(src, "FontInfo")
    keyof = {}
    for attrs, f, _ in members:
        key = camel(f)
        for a in attrs:
            mm = re.fullmatch(r'\s*serde\(\s*rename\s*=\s*"([^"]+)"\s*\)\s*', a)
            if mm:
                key = mm.group(1)
        keyof[f] = key
    return keyof


class Parsed:
    pass


def parse(repo):
    try:
        src = open(os.path.join(repo, "src", "upconversion.rs")).read()
    except OSError as ex:
        raise NotFound(str(ex))
    body = fn_body(src, "upconvert_ufov1_robofab_data")
    P = Parsed()
    P.lib, span1 = local_struct(body, "LibData")
    P.hint, span2 = local_struct(body, "PsHintingData")
    libkey = {m: k for k, m, _ in P.lib}
    hintkey = {m: k for k, m, _ in P.hint}
    P.seq_error = None
    try:
        rest = body[:min(span1[0], span2[0])] + body[max(span1[1], span2[1]):]
        between = body[min(span1[1], span2[1]):max(span1[0], span2[0])]
        if sq(between) or sq(body[:min(span1[0], span2[0])]):
            raise NotFound("statements between / before the local structs")
        s = sq(rest)
        keyof = fontinfo_keys(repo)

        def eat(pattern, what):
            nonlocal s
            m = re.match(pattern, s)
            if not m:
                raise NotFound("statement sequence at %s: %s" % (what, s[:50]))
            s = s[m.end():]
            return m

        eat(r"let(\w+):LibData=plist::from_file\(lib_path\)\.map_err\(\|source\|FontLoadError::ParsePlist\{name:LIB_FILE,source\}\)\?;",
            "re-reading lib.plist")
        eat(r"letmutfeatures=String::new\(\);", "features")
        P.feature_rows = []
        m = eat(r"ifletSome\((\w+)\)=lib_data\.(\w+)\{features\.push_str\(&\1\);\}", "feature classes")
        P.feature_rows.append((libkey[m.group(2)], "features", "appendText"))
        m = eat(r"ifletSome\((\w+)\)=lib_data\.(\w+)\{letorder:Vec<String>=ifletSome\((\w+)\)=lib_data\.(\w+)\{\3\}else\{", "feature dictionary")
        fs = m.group(1)
        P.feature_rows.append((libkey[m.group(2)], "features", "newlineThenBlocks"))
        P.feature_rows.append((libkey[m.group(4)], "features", "blockOrder"))
        fb = re.match(r"letmut(\w+)=" + fs + r"\.keys\(\)\.cloned\(\)\.collect::<Vec<String>>\(\);\1\.sort\(\);\1\};", s)
        if fb:
            P.fallback = "sorted"
        else:
            fb = re.match(fs + r"\.keys\(\)\.cloned\(\)\.collect(?:::<Vec<String>>)?\(\)\};", s)
            if not fb:
                raise NotFound("fallback order: " + s[:50])
            # plain iteration of the block map: sorted iff the map is an ordered one
            mtype = {m: t for _, m, t in P.lib}[m.group(2)]
            if re.match(r"(?:std::collections::)?BTreeMap<", mtype):
                P.fallback = "sorted"
            elif re.match(r"(?:std::collections::)?HashMap<", mtype):
                P.fallback = "mapOrder"
            else:
                raise NotFound("block map of unknown type " + mtype)
        s = s[fb.end():]
        eat(r"features\.push\('\\n'\);for(\w+)inorder\{ifletSome\((\w+)\)=" + fs + r"\.get\(&\1\)\{features\.push_str\(\2\);\}\}\}",
            "feature loop")
        m = eat(r"ifletSome\((\w+)\)=lib_data\.(\w+)\{", "hint block")
        h = m.group(1)
        P.hint_lib_key = libkey[m.group(2)]
        P.hint_rows, P.validate_after = [], None
        while not s.startswith("}"):
            m = re.match(r"font_info\.(\w+)=" + h + r"\.(\w+);", s)
            if m:
                P.hint_rows.append((hintkey[m.group(2)], keyof[m.group(1)], "direct"))
                s = s[m.end():]
                continue
            m = re.match(r"ifletSome\((\w+)\)=" + h + r"\.(\w+)\{font_info\.(\w+)=Some\(\1\.into_iter\(\)\.flatten\(\)\.collect\(\)\);\};?", s)
            if m:
                P.hint_rows.append((hintkey[m.group(2)], keyof[m.group(3)], "flattenIfPresent"))
                s = s[m.end():]
                continue
            m = re.match(r"font_info\.validate\(\)\.map_err\(FontLoadError::FontInfoV1Upconversion\)\?;", s)
            if m:
                if P.validate_after is not None:
                    raise NotFound("two validate statements")
                P.validate_after = len(P.hint_rows)
                s = s[m.end():]
                continue
            raise NotFound("statement of the hint block: " + s[:60])
        s = s[1:]
        P.removed = []
        while True:
            m = re.match(r'lib\.remove\("([^"]+)"\);', s)
            if not m:
                break
            P.removed.append(m.group(1))
            s = s[m.end():]
        if re.fullmatch(r"iffeatures\.is_empty\(\)\{Ok\(None\)\}else\{Ok\(Some\(features\)\)\}", s):
            P.none_when_empty = True
        elif re.fullmatch(r"Ok\(Some\(features\)\)", s):
            P.none_when_empty = False
        else:
            raise NotFound("result: " + s[:60])
    except (NotFound, KeyError) as ex:
        P.seq_error = ex if isinstance(ex, NotFound) else NotFound("unknown member %s" % ex)
    return P


def triples(rows):
    return "[" + ",\n   ".join("(%s, %s, %s)" % (lean_str(a), lean_str(b), lean_str(c)) for a, b, c in rows) + "]"


def conv_rows(rows):
    return "[" + ",\n   ".join("(%s, %s, .%s)" % (lean_str(a), lean_str(b), c) for a, b, c in rows) + "]"


def sec_lib_keys(P):
    return ("/-- members of `LibData`: (lib key, member, type) -/\n"
            "def libKeys : List (String × String × String) :=\n  " + triples(P.lib) + "\n")


def sec_hint_types(P):
    return ("/-- members of `PsHintingData`: (hint entry, member, type) -/\n"
            "def hintTypes : List (String × String × String) :=\n  " + triples(P.hint) + "\n")


def need_seq(P):
    if P.seq_error is not None:
        raise P.seq_error


def sec_hints(P):
    need_seq(P)
    va = P.validate_after
    return ("/-- the lib key whose dictionary is the hint data -/\n"
            "def hintLibKey : String := %s\n" % lean_str(P.hint_lib_key) +
            "/-- the assignments of the hint block, in source order: (hint entry, font-info attribute, conversion) -/\n"
            "def hintTable : List (String × String × RConv) :=\n  " + conv_rows(P.hint_rows) + "\n"
            "/-- number of assignments in front of `font_info.validate()?` (none: the block does not validate) -/\n"
            "def hintValidateAfter : Option Nat := %s\n" % ("none" if va is None else "some %d" % va))


def sec_features(P):
    need_seq(P)
    return ("/-- the statements that build the feature text, in source order -/\n"
            "def featureTable : List (String × String × RConv) :=\n  " + conv_rows(P.feature_rows) + "\n"
            "/-- order of the blocks when the lib has no order list -/\n"
            "def featureFallbackOrder : String := %s\n" % lean_str(P.fallback) +
            "/-- an empty text is reported as `None` (the existing features.fea is then kept) -/\n"
            "def featuresNoneWhenEmpty : Bool := %s\n" % ("true" if P.none_when_empty else "false"))


def sec_removed(P):
    need_seq(P)
    return ("/-- `lib.remove(..)` statements, in order -/\n"
            "def removed : List String :=\n  [" + ", ".join(lean_str(k) for k in P.removed) + "]\n")


SECTIONS = [("libKeys", sec_lib_keys), ("hintTypes", sec_hint_types), ("hints", sec_hints),
            ("features", sec_features), ("removed", sec_removed)]

HEADER = """import Norad.Model.FIConv
/-!
GENERATED by tools/extract_robofab_conv.py from `upconvert_ufov1_robofab_data` (norad's src/upconversion.rs) on every
`./check` run.  Do not edit.  A pinned copy of every section lives in tools/pinned/RobofabConv.lean and is used when
the statement sequence has a shape the translator does not know (a refactor is not an alarm).  Core Lean only.
-/
namespace Generated.RobofabConv
open C14

"""


def split_sections(text):
    out = {}
    for m in re.finditer(r"-- BEGIN (\w+)\n(.*?)-- END \1\n", text, flags=re.S):
        out[m.group(1)] = m.group(2)
    return out


def generate(repo):
    pinned = split_sections(open(PINNED).read()) if os.path.exists(PINNED) else {}
    try:
        P, perr = parse(repo), None
    except (NotFound, IndexError, ValueError, AttributeError, KeyError) as ex:
        P, perr = None, ex
    parts, fell_back = [], []
    for name, f in SECTIONS:
        try:
            if P is None:
                raise NotFound(str(perr))
            body = f(P)
        except (NotFound, IndexError, ValueError, AttributeError, KeyError) as ex:
            if name not in pinned:
                raise
            body = pinned[name]
            fell_back.append("%s (%s)" % (name, ex))
        parts.append("-- BEGIN %s\n%s-- END %s\n" % (name, body, name))
    return HEADER + "\n".join(parts) + "\nend Generated.RobofabConv\n", fell_back


def run():
    repo = os.environ.get("VERIF_REPO", "/repo").rstrip("/") or "/repo"
    text, fell_back = generate(repo)
    old = open(OUT).read() if os.path.exists(OUT) else None
    if old != text:
        os.makedirs(os.path.dirname(OUT), exist_ok=True)
        with open(OUT, "w") as f:
            f.write(text)
    ptext = open(PINNED).read() if os.path.exists(PINNED) else None
    return {"extraction": "pinned" if fell_back else "full", "pinned_sections": fell_back, "source": repo,
            "changed_since_last_run": old != text, "differs_from_pinned_copy": ptext is not None and ptext != text,
            "table": os.path.relpath(OUT, ROOT)}


if __name__ == "__main__":
    r = run()
    print(r)
    if len(sys.argv) > 1 and sys.argv[1] == "--pin":
        import shutil
        os.makedirs(os.path.dirname(PINNED), exist_ok=True)
        shutil.copy(OUT, PINNED)
        print("pinned")
