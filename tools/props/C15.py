CFG = {
    "lean_targets": ["Norad.Props.C15"],
    "extract": ["kern_consts", "upconv", "upconv_site"],
    "audit": "Norad/Audit/C15.lean",
    "rule": ("groups/kerning/glyph-set triples written as format 1, 2 and 3 UFO trees and loaded with Font::load: every triple over a "
             "6-name colliding pool (A, @MMK_L_A, @MMK_L_@MMK_L_A, public.kern1.A, @MMK_R_A, public.kern2.A) with <=3 groups and <=1 pair (quick: "
             "format 2; <=2 groups and <=2 pairs format 1, two-pair cases with the empty glyph set only) / <=3 pairs (thorough), each with no glyph or one glyph named like a group; "
             "plus random triples over a 34-name pool (prefix-only names, nested and re-forming legacy prefixes, non-ASCII, suffix-shaped names, "
             "groups on both sides, dangling kerning keys, missing groups/kerning files, interned non-glyph names); plus validator boundary "
             "maps through Font::save and format-3 loads. Every save goes through Font::save, Font::save_with_options(default) and save_with_options(custom); "
             "every random/validator load (every third exhaustive one) through Font::load and three of 13 DataRequest shapes in rotation (kerning off / groups off / both / lib off / layers off / none()+single switches / both builder orders / toggled switches; what is not requested counts as an absent file for model and specification); 108 near-prefix names (both prefixes cut at byte 10..15 followed by a 2/3/4-byte character) through all save entry points and loads; a 30-name self-similar pool (kerning prefix repeated 2-4x, other side's prefix, proper prefixes/suffixes of the prefix, legacy marker + new-style prefix) goes through all save entry points, format-3 loads and legacy loads under all 14 shapes. non-trivial = a legacy load with at least one group to duplicate, or a map "
             "holding a public.kern1./public.kern2. group; distinct by input tokens"),
    "exhaustive": {"quick": True, "thorough": True},
    "search_timeout": 200,
    "exhaustive_note": "triples over the 6-name pool (one private member per group): quick <=3 groups x <=1 pair (format 2) and <=2 groups x <=2 pairs (format 1); thorough <=3 groups x <=3 pairs (format 2) and <=3 groups x <=2 pairs (format 1); glyph set empty or one group name (cases with >=2 pairs in the larger enumeration: empty glyph set only); the random part is not exhaustive",
    "trusted_base": COMMON_TRUST + [
        "modelled, not verified: plist parsing of groups.plist / kerning.plist into BTreeMaps (the harness writes the files, norad's observation is compared with the maps the harness intended)",
        "decimal rendering of the uniqueness counter (`{}` of an integer) is the parameter `sfx`; the theorems need it injective and digit-free of control characters, the driver instantiates Nat.repr",
        "Rust str::replace(pat, \"\") is transcribed as StrMap.removeAll (left-to-right, non-overlapping, no re-scan) and compared on names with nested and re-forming prefixes",
    ],
    "assumptions": [
        "tools/extract_upconv.py translates the statement sequences of validate_groups, make_unique_group_name, find_known_kerning_groups and upconvert_kerning of the tree under check into Kern.Gen.* (lean/Norad/Generated/Upconv.lean) on every run; source_validate_eq_model / source_upconvert_eq_model (Props/KernSource.lean) identify them with the model functions for all inputs (a statement the translator does not know makes its section fall back to tools/pinned/Upconv.lean, `extraction: pinned`; the `while` of make_unique_group_name is translated in do-while form after checking that the early return establishes its first test; fuel is the model's)",
        "tools/extract_kern_consts.py re-extracts the prefixes, the prefix-only length, the legacy markers with their sides from src/groups.rs and src/upconversion.rs on every run (regex anchors; a section whose anchor is missing uses the pinned copy and the evidence says `extraction: pinned`); the source_* theorems tie them to the model literals",
        "the glyph set norad consults is its interning table after loading the layers; the harness passes that set to the model and the glyph names of the layers to the specification",
        "kerning values are opaque 64-bit patterns in the model (never inspected by the conversion)",
    ],
}

MANIFEST = {
    "text": ("Theorems about the transcription of validate_groups and upconvert_kerning: the validator accepts exactly the maps with no prefix-only "
             "name and no glyph occurring twice on a side (validate_iff); for every visiting order of the two sets the conversion keeps every "
             "original group, adds exactly one fresh, correctly prefixed copy per source group with identical members, alters nothing else, "
             "never panics and never runs out of fuel; kerning values are preserved under an explicit guard, with the counterexample (a kerning "
             "key that is no group and equals a generated name) recorded. The model is tied to the code by loading generated format 1/2/3 trees "
             "with Font::load (exhaustive small pool + random colliding pool) and saving boundary group maps; an independent specification "
             "(search for rename tables) is evaluated on what norad returned."),
    "design_ref": "5 / C15, Appendix G",
    "note": "trusted: Lean kernel, the three standard axioms, harness and driver glue, plist parsing; counter rendering is a parameter",
    "technique": "Lean 4 theorems (induction over the visiting order with a growing map; iff with a declarative validity predicate) + exhaustive small-pool and random correspondence through Font::load/save",
}
