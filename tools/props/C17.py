CFG = {
    "extract": ["save_order", "data_request"],
    "lean_targets": ["Norad.Props.C17"],
    "audit": "Norad/Audit/C17.lean",
    "rule": ("Font::load_requested_data vs Font::load on generated format-3 trees (0-3 extra layers in varying file order, default layer named or not, every optional "
             "file present, guidelines with and without identifiers and object libs, data/ and images/): exhaustive over the 2^6 request switches x 11 layer-filter shapes "
             "(all, none, default only, by name, by directory, always true, always false, default + by name, filter then layers(true), layers(true) then default_layer(false), everything but the default directory); default layer listed first / in the middle / last in layercontents.plist, a layer directory `GLYPHS` next to `glyphs`; trees with every optional file present and trees with subsets of them absent, each in two variants: intact tree, and every file outside the "
             "read set overwritten with garbage (un-selected layers lose or corrupt their contents.plist and glifs, un-requested images/ gets a sub-directory, store files "
             "always garbage). non-trivial = anything but the full request; distinct by recipe"),
    "exhaustive": {"quick": True, "thorough": True},
    "exhaustive_note": "all 64 switch combinations x 11 filter shapes per generated tree (6 trees quick, 60 thorough); the trees are sampled",
    "trusted_base": COMMON_TRUST + [
        "parsing is uninterpreted (plist / glif readers are third-party or other properties): the harness tells the driver the parsed value of every file it wrote",
        "std::fs vs the abstract file system; read_dir order and HashMap order of the stores are compared as sets",
        "format 1/2 trees are outside the model (C17 speaks about format 3); Store equality is key-set equality as in norad's PartialEq",
    ],
    "assumptions": [
        "layercontents.plist names each directory once and uses plain directory names (what norad writes); duplicated `glyphs` entries are excluded by the theorem guard",
    ],
}

MANIFEST = {
    "text": ("Theorems about loadImpl / finishLayers / restrict (transcription of Font::load_impl, LayerContents::load, DataRequest): partial_layers_eq_restricted_full "
             "(for every request incl. arbitrary custom predicates and every list of loaded layers, filter + placeholder + move-to-front equals restrictLayers of the full "
             "result), default_layer_always_present_and_first (every successful load, any request), default_layer_empty_when_filtered_out. Correspondence and oracle: "
             "exhaustive switch x filter-shape enumeration on generated trees; PART = restrict(FULL) on the implementation's own dumps; the garbage variant loads and dumps the same."
             " Second phase: file-level partial_eq_restricted_full, partial_succeeds_if_full_does and unrequested_files_not_read (AgreeOnReadSet) are proved."
             " Third phase: 10 filter shapes (two builder-order shapes added) and trees with absent optional files."
             " Source-level tie: source_switches_match_model - the request.<switch> -> file table extracted from fn load_impl equals the table MEASURED on loadImpl (which corrupt file makes which single-switch load fail), by decide."
             " Last phase: Req.apply (documented meaning of DataRequest calls applied in order) with the laws all_none_reset, later_call_wins, part_call_touches_only_its_switch, filter_then_default_keeps_predicate, layers_after_filter, call_idempotent; the driver recomputes the request of every recipe with Req.apply and disagrees if the harness's interpreter differs."
             " Session 2026-09-29: tools/extract_data_request.py translates src/data_request.rs (both structs, every method of DataRequest / LayerFilter, assignment by assignment) into Generated/DataRequest.lean; source_request_builders_eq_model (constructors, every builder call on every request, every chain of calls = Req.apply; the public builders are exactly the model's calls), source_layer_filter_eq_model (should_load clause by clause, includes_default_layer), source_partial_eq_restricted_full (the partial-load theorem for the requests the regenerated builders build)."),
    "design_ref": "5 / C17, 8",
    "note": "trusted: Lean kernel + 3 standard axioms; harness/driver glue; parsers abstract; see docs/notes/C17.md",
    "technique": "Lean 4 proof about a switch-guarded load model + exhaustive differential partial/full loads with corrupted un-requested files",
}
