CFG = {
    "lean_targets": ["Norad.Props.C02"],
    "audit": "Norad/Audit/C02.lean",
    "rule": ("valid glyphs built through the public API (every field; anchors, guidelines, contours, points, components with names, colours, "
             "identifiers, transforms and object libs under explicit identifiers; contours without points at the first, middle and last position, several in a row, with identifiers and libs; lib values of every plist type nested to depth 3; strings and keys "
             "from 16 classes: multi-line, blanks, XML metacharacters, CR, non-BMP; numbers incl. 1e300, subnormal, -0, one ulp around 1) x three "
             "WriteOptions per glyph (all 36 combinations tab/space x width 0..8 x quote style covered every 12 glyphs) through "
             "Glyph::encode_xml_with_options then Glyph::parse_raw. two thirds of the glyphs stay inside the guards of glif_roundtrip_partial. "
             "non-trivial = the written document has more than 4 events; distinct by input tokens"),
    "exhaustive": {"quick": False, "thorough": False},
    "timeout": {"quick": 900, "thorough": 7200},
    "trusted_base": COMMON_TRUST + [
        "Rust's f64::to_string, format!(\"{:.3}\") and str::parse::<f64> are parameters of the model (tables computed by std in the harness for the numbers of the glyph)",
        "modelled, not verified: quick-xml writer/reader (the harness tokenises the produced bytes with norad's reader configuration); the plist writer's XML for the lib "
        "(the events between <lib> and </lib> are not compared; the dictionary the plist reader returns for the written slice is)",
        "the lib re-indentation is modelled at the value level (every newline inside a string or key is followed by two indents), validated by the correspondence on every string class x option",
    ],
    "assumptions": [
        "glyphs are built through the public API only; norad never invents identifiers (object libs are attached after an explicit identifier)",
        "NaN and infinite coordinates are not generated (not valid glyph data); the model's gates cover them",
        "tolerance: |a-b| <= 1e-9*max(|a|,|b|) on the exact values of the doubles; colours |a-b| <= 0.0005 (three decimals)",
    ],
}

MANIFEST = {
    "text": ("encodeGlif, the transcription of Glyph::encode_xml_impl to quick-xml events (attribute order and omission rules, advance gate, transform gates, "
             "object-lib dump, lib re-indentation at value level, note trimming), is compared event by event with the tokenised bytes the real writer produces, and "
             "parseGlif(encodeGlif g) with the real parse_raw(encode(g)); the specification oracle compares parse(encode(g)) with g through public getters with the "
             "tolerances of DESIGN.md section 8 and across options. Theorems: the re-indentation is the identity exactly on newline-free text and for indent width 0 "
             "(so the result depends on the options otherwise), note trimming is idempotent and the identity on trimmed text, the transform/advance gates drop only "
             "values that parse back within tolerance, element-level writer->parser round trips, and the recorded counterexamples."),
    "design_ref": "5 / C02, Appendix F",
    "note": "trusted: Lean kernel, quick-xml and plist as parameters, Rust number formatting; five recorded findings (two from DESIGN.md section 6, three found by the check), each matched only when the result equals Spec02.recorded exactly",
    "technique": "Lean 4 theorems about the writer model + event-level correspondence on generated glyphs x all WriteOptions + round-trip oracle with tolerances",
}
