CFG = {
    "lean_targets": ["Norad.Props.C13"],
    "audit": "Norad/Audit/C13.lean",
    "extract": ["fontinfo_rules", "fontinfo_deser"],
    "rule": ("per rule an exhaustive sweep across its boundary, each value sent through FontInfo::validate, Font::save and Font::save_with_options (default and custom options) "
             "(over an existing directory) and Font::load of a generated fontinfo.plist: the six PostScript lists at every "
             "length 0..17; all 256 subsets of selection bits 0..7; family class 0..16 x 0..17; every two-digit date field "
             "at all 100 values, every position of the date replaced by 13 characters, 18/19/20-byte strings and 19-byte "
             "strings with 2-, 3- and 4-byte characters; all gasp lists of length 0..4 over 4 ppem values; 21 angle bit "
             "patterns around 0 and 360 incl. NaN/inf/-0.0; identifier collisions over all guideline lists of length 0..3; "
             "WOFF emptiness at each nesting level; ill-typed file values (family class of 1/3 numbers, bit 256, ppem -1 and "
             "2^32, panose of 9/11, width class 0/10, unknown style names); plus random combinations (half conforming). "
             "Values that only use attributes of format 2 also go through Font::load of a format-2 tree, list-only values through a format-1 tree carrying them as robofab hint data (the two upconversion paths that call validate). "
             "Glue stream: the three routes of font info into a loaded Font x the other optional files of a UFO x nine load entry points / data requests, with the oracle that every returned font validates. "
             "non-trivial = at least one attribute present; distinct by input tokens"),
    "exhaustive": {"quick": True, "thorough": True},
    "exhaustive_note": "the per-rule boundary sweeps listed in `rule` are enumerated completely in both tiers; the random combinations are not exhaustive",
    "trusted_base": COMMON_TRUST + [
        "modelled, not verified: plist/serde decoding of fontinfo.plist into the typed fields (the model's `deser` states what is assumed: u8/u32 narrowing, fixed lengths, enum tables) and plist encoding on save",
        "the projection: PostScript lists are represented by their length, WOFF records by their emptiness structure; the harness builds list elements and record texts itself",
        "tools/extract_fontinfo_rules.py (regex over FontInfo::validate and Os2FamilyClass::is_valid; per section it falls back to the pinned copy when a block contains a test it does not recognise): a wrong extraction can only make a source_* theorem fail or report `extraction: pinned`",
        "Norad/Model/FINum.lean: decoding of f64 bit patterns to exact magnitudes (comparison with 0 and 360)",
        "tools/extract_fontinfo_deser.py (regex over the hand-written and derived Deserialize impls of fontinfo.rs, guideline.rs, shared_types.rs, identifier.rs; per section it falls back to the pinned copy when the region has a shape it does not know): a wrong extraction can only make a source_deser_* theorem fail or report `extraction: pinned`; what serde / serde_repr / plist do with a derive is assumed (integer outside the Rust type refused, unknown discriminant refused, deny_unknown_fields)",
    ],
    "assumptions": [
        "the checked tree carries the two fix: commits of branch fix/fontinfo (month/day lower bound; guideline angle checked in validate); on a tree without them the check reports the two violations",
        "Identifier and Name validity are enforced by their own types and are not part of this property",
    ],
}

MANIFEST = {
    "text": ("The typed deserialisers that enforce rules at load time (style-map names, WOFF direction, width class / character set / gasp behaviour discriminants, fixed-length family class and panose with their element types, bit lists, non-negative integers and numbers, name and gasp records, colour and identifier syntax, the guideline shape match and its angle range) are re-extracted from the Rust on every run; the acceptor those tables denote is proved equal to the model's typed layer for every file-level value (source_deser_rules_match_model: a load succeeds iff the regenerated acceptor accepts and the rules hold) and the tables equal an independent table of what the file format demands (source_deser_rules_match_spec). The rule constants (list limits, pairs set, date length / separators / field ranges, selection bits, class bounds, angle range, WOFF emptiness tests) are re-extracted from src/fontinfo.rs on every run and tied to the model's literals and to an independent rule table by decide-theorems (source_*). Theorem validate_iff_rules: the transcription of FontInfo::validate (date slicing as partial byte-offset operations on characters "
             "with UTF-8 sizes, gasp loop, identifier set loop, bit/class/list/WOFF checks, in source order) returns ok for ANY font info exactly "
             "when the independent per-rule specification holds; it never reaches a slicing panic; a loaded or saved info satisfies the rules; the "
             "three entry points agree on every value that can reach all three. The model is tied to the code by exhaustive per-rule boundary "
             "sweeps through validate(), Font::save and Font::load, and the specification predicates are evaluated on the implementation's own verdicts."),
    "design_ref": "5 / C13",
    "note": "trusted: Lean kernel, three standard axioms, harness and driver glue, plist/serde decoding (modelled as `deser`); two defects repaired on fix/fontinfo",
    "technique": "Lean 4 theorem (iff between a source-order transcription and a declarative rule set, for all values) + boundary-exhaustive correspondence through three entry points",
}
