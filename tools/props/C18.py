CFG = {
    "lean_targets": ["Norad.Props.C18"],
    "audit": "Norad/Audit/C18.lean",
    "extract": "ds_consts",
    "rule": ("generated designspace documents built through the public structs (1-3 axes continuous/discrete/hidden with "
             "maps, 0-3 rules with 1-3 condition sets and substitutions, both processing modes, 1-3 sources, 0-2 instances "
             "with all seven optional attributes present/absent, document and instance libs with every plist type incl. "
             "data, date, nested arrays/dicts; strings with XML metacharacters, non-BMP, inner/edge blanks; f32 boundary "
             "bit patterns) -> DesignSpaceDocument::save -> ::load and -> python xml.etree; ~4% documents outside the stated "
             "well-formedness and ~10% with one kind of known trouble; every other document is saved over an existing longer file. "
             "Second stream (tag foreign-surface, 1 500 quick / 30 000 thorough): well-formed documents written by an independent "
             "writer in other tools' spelling (other/no declaration, BOM, CRLF/tab/no indentation, shuffled single-quoted "
             "attributes, character references, CDATA, comments, explicit close tags, 400.0/4e2 numbers, hidden=\"1\", wrapped "
             "<data>, format-5 elements norad ignores) -> ::load; oracle: loaded == description. Every generated document has at least one axis "
             "attribute table, location and number to get right, so every case counts as non-trivial; distinct by input tokens"),
    "exhaustive": {"quick": False, "thorough": False},
    "timeout": {"quick": 600, "thorough": 7200},
    "trusted_base": COMMON_TRUST + [
        "modelled, not verified: quick-xml 0.37 serializer/deserializer (field -> attribute/element mapping, text trimming, xs:list splitting, escaping), serde derive, plist::Dictionary (IndexMap insert semantics)",
        "codec parameter (hypothesis CodecLaws of the theorems; satisfiable with NO hypothesis left for real decimal integers, real base64, the real RFC 3339 date codec (calendar_inverse: days_from_civil . civil_from_days = id proved via one complete-era table by decide +kernel + structural lift) and floats that are exact on the simple fragment (+-N/2^j: integers below 2^24/2^53 and few-bit dyadics, codec_laws_simple_floats); what REMAINS a hypothesis is the shortest-round-trip Display/FromStr law of f32/f64 outside that fragment; the driver instantiates the codec per line from Rust's own strings, checks the laws on every string (codec-law-broken) and compares the Lean date and simple-float implementations with plist::Date / Rust Display+FromStr on every value of every run (date-impl-differs, float-impl-differs)): f32/f64/i64/u64 Display and FromStr, base64 STANDARD, plist::Date RFC 3339 formatting",
        "tools/extract_ds_consts.py (regex translator of designspace.rs, serde_xml_plist.rs and the vendored quick-xml 0.37 / plist 1.x / time 0.3 sources into lean/Norad/Generated/DsConsts.lean; trusted in one direction only: a wrong extraction can make a source_* theorem fail or fall back to tools/pinned/DsConsts.lean, it cannot make a false theorem check)",
        "python3 xml.etree (expat) as the independent XML reader; harness/src/c18_xmltree.py turns its tree into protocol tokens",
        "Spec.conformView (attribute-value and line-end normalisation of a conforming XML processor) predicts what xml.etree sees; ds_spec_reader_finds_values is stated over it",
        "the independent foreign-surface writer in harness/src/c18.rs (its files are checked to be XML by xml.etree on every case)",
        "driver-side dropBlankInContainers (quick-xml skips white-space-only text events) on the load-only streams",
    ],
    "assumptions": [
        "the model follows branch fix/ds (two fix: commits); on the pinned tree the data/date and processing=last witnesses in corpus/C18 are reported as violations",
        "NaN floats are outside the statement (a document holding one is not equal to itself); documents outside the stated well-formedness are only compared model vs implementation",
    ],
}

MANIFEST = {
    "text": ("Theorems ds_roundtrip (WellFormed d -> load(save d) = d on the transcription of the serde attribute table, list wrappers, "
             "skip rules and rules/processing), ds_spec_reader_finds_values (an independent reader that knows only the designspace "
             "specification's names finds the same values in the written tree), plist_glue_roundtrip (every plist value type except Uid, "
             "nested to any depth, by mutual induction), glue_never_panics; counterexample theorems for the recorded findings. The model is "
             "tied to the code by saving generated documents with norad, loading them back (==) and reading the file with xml.etree; the "
             "tree and the loaded document must equal the model's, and the specification reader is run on the file's tree. Source-level tie: "
             "twelve source_* theorems state that the escape/unescape tables, serializer defaults, norad's writer settings, the serde field "
             "table (names, skip rules, defaults, list wrappers), the glue keywords and the date format/range regenerated from the Rust "
             "sources of the run are the model's; escape_unescape_text/attr prove unescape . escape = id for every string. The codec hypothesis is "
             "discharged for integers, base64, dates (calendar_inverse, date_codec_roundtrip, unconditional) and for floats on the simple "
             "fragment (codec_laws_simple_floats); only the general float shortest-round-trip law stays assumed."),
    "design_ref": "5 / C18",
    "note": "trusted: Lean kernel, quick-xml/serde/plist behaviour as modelled, number/base64/date formatting as a codec parameter with checked laws, xml.etree as independent reader",
    "technique": "Lean 4 theorems (structural + mutual induction over plist values) + save/load/independent-reader correspondence",
}
