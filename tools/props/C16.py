CFG = {
    "lean_targets": ["Norad.Props.C16", "Norad.Props.C16Source"],
    "audit": "Norad/Audit/C16.lean",
    "gens": ["C16", "C16path", "C16req"],
    "extract": ["store_consts", "store_ops"],
    "search_timeout": 75,
    "rule": ("operation histories (insert/remove/get/contains_key/clear/iter/keys/len/is_empty, environment steps on the source "
             "tree, Font::save into a sandbox with sentinels whose target holds sentinels / is absent / is an empty directory) on font.data / font.images, empty or loaded lazily from a generated tree; "
             "non-trivial = the history contains an insert, a get, an iter or a save; distinct by input tokens. "
             "Request stream: Font::load_requested_data for every request call sequence of length <= 3 over ten calls (plus random longer ones), both stores' keys/get/len, a save elsewhere and in place (non-trivial: >= 2 calls). Path stream: every string over {a,b,.,/} up to length 6 (non-trivial: length >= 2) and pairs"),
    "exhaustive": {"quick": True, "thorough": True},
    "exhaustive_note": ("all 6 insert orders of every 3-subset of the 12-key nesting pool, both store kinds, followed by a save; "
                        "all strings over {a,b,.,/} up to length 6 for the path model; the random histories are not exhaustive"),
    "trusted_base": COMMON_TRUST + [
        "modelled, not verified: std::path component semantics (validated by the exhaustive small-alphabet stream C16path), "
        "HashMap as an association list compared by path components (order-insensitive comparison), std::fs::read as the abstract Disk",
        "the harness' environment steps and the driver's flat tree are two implementations of the same small semantics (make prefixes directories, replace the node)",
    ],
    "assumptions": [
        "the per-case trees live in a memory-backed directory (/dev/shm/verif-c16-<pid>) when there is one, else in the check's scratch directory; tmpfs and disk are assumed to behave alike for read/write/mkdir/symlink",
        "I/O errors other than not-found / is-a-directory / not-a-directory are not generated (the sandbox runs as root)",
        "a look-up of a lazily loaded entry through a spelling that differs from the stored key in the trailing separator (`a/` for `a`) may read the handed-in path (the code as it is) or the stored key: the correspondence accepts either, the oracle judges both",
        "after a refused save (some cells may stay lazy in hash order) no environment step is executed, so the partial forcing is unobservable",
        "for stores holding keys with `.`/`..` components or a trailing separator the tree left by a save is not predicted by the model (only the oracle judges it)",
    ],
}

MANIFEST = {
    "text": ("Theorems about the transcription of datastore.rs and the store part of Font::save: the invariant (keys non-empty, relative, "
             "pairwise distinct and prefix-free by components; image keys single-component; loaded image contents start with the PNG signature) "
             "is preserved by every operation and hence under every history with arbitrary disk changes in between; a rejected insertion changes nothing; "
             "a lazy get returns the disk's bytes of the moment of first access and is stable afterwards; save refuses before any effect when an entry is in "
             "error and otherwise writes every entry verbatim. A store listed from a well-formed tree satisfies the invariant and contains every plain file; iter's forcing and the tree a save leaves do not depend on the HashMap order; the store-writing plan (data: mkdirAll+write per entry, images: mkdir then writes) runs on the FS family's abstract file system and leaves exactly the verbatim files; PNG signature, directory names, validate_entry clauses and the force-load loop are re-extracted from the source on every run and tied by decide theorems; the store operations themselves (both validate_entry clause by clause, load_item, get, insert, remove, clear, keys, is_empty, len, contains_key, iter, both directory walks, Store::new, and the two store-writing blocks of save_impl) are TRANSLATED from src/datastore.rs / src/font.rs into Lean on every run (Generated/StoreOps.lean, Generated/StorePlanGen.lean) and proved equal to the model (source_*_eq_model), so the theorems are about the code as it is now. Tied to the code by operation histories on the real stores (empty and lazily loaded) "
             "with environment steps and sandboxed saves, and by an exhaustive small-alphabet comparison of the path model with std::path."),
    "design_ref": "5 / C16, 4 (Path), Appendix C",
    "note": "trusted: Lean kernel, the three standard axioms, harness and driver glue, std::path/std::fs as modelled; keys with ./.. components and trailing separators are recorded findings",
    "technique": "Lean 4 theorems (invariant preservation by induction over histories, with the disk as a changing environment) + history correspondence + exhaustive path-model stream",
}
