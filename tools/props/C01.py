CFG = {
    "lean_targets": ["Norad.Props.C01", "Norad.Props.C01Bridge", "Norad.Props.C01Stores"],
    "extract": "roundtrip",
    "audit": "Norad/Audit/C01.lean",
    "rule": ("fonts built through the public API (every int-or-float font-info field and list, unitsPerEm, ~100 other font-info fields from a seed, guidelines with "
             "identifiers and libs, lib with every plist type incl. empty arrays/dicts, blank strings, keys with line breaks, groups, kerning, feature text with CR/LF/CRLF "
             "mixes, 1..5 layers with colour-only / lib-only layer info and a renamed default layer, glyphs with every legal contour shape (closed contours from line / curve with 0-2 off-curves / qcurve with 0-6 off-curves in every rotation of the cyclic point list, all-off-curve contours, open contours; the point-type distribution is printed into the evidence as pt-* / seam-offcurves-* tags), data and images) x WriteOptions "
             "(tab/space x width 0,1,2,4,8 x quote style); part 1 is exhaustive over a boundary pool of ~130 doubles (one and two ulps and +-eps around 0, +-1, 2, 0.5, 1.5, 2.5, "
             "1000, +-2^31, +-2^31+-1, eps, 3e9, 1e300, 2^53, -0.0) put into kerning, ascender, a blue-values pair and unitsPerEm; Font::save_with_options then Font::load; "
             "compared: which files exist, metainfo, integer-vs-real of every number written to fontinfo.plist and kerning.plist, layercontents, colour strings, feature bytes, "
             "the loaded font field by field (glyphs per NAME -> content incl. the order of the code points). Every save goes to a target in one of six prior states (absent, empty, complete bigger UFO, the same with junk, "
             "partial UFO remains without metainfo, junk directory); name pools hold groups that sanitise to one file name with non-ASCII capitals; part 3: foreign trees with non-default glif names are loaded, edited through insert_glyph, saved and loaded (C04 edit lines). Every second random font is built through a HISTORY of container calls (token h=): glyph inserts in a random order, detours (temporary names + rename_glyph / rename_layer, overwriting insert and rename, remove and re-insert, a scratch layer removed again) interleaved with REFUSED calls of every kind (rename_glyph / rename_layer / new_layer with an invalid new name - empty, C0, DEL, C1 -, duplicate without overwrite, missing, reserved, onto the default layer; removals that find nothing; data / image inserts refused for empty, absolute, nested, dir-under-file, non-PNG); the containers must accept / refuse as documented and REPORT (len(), names of iter()) the described state, and the loaded font is compared with that reported state. "
             "Clash groups of glyph and layer names by case class: non-ASCII capitals, the Unicode TITLECASE letters (U+01C5, U+01C8, U+01CB, U+01F2, U+1F88: not uppercase, yet changed by to_lowercase) without any capital, titlecase against its lowercase form, lowercase only, uppercase only, mixed; one font in five draws its layer names from one group, in both creation orders. non-trivial = at least one optional part present; distinct by input tokens"),
    "exhaustive": {"quick": False, "thorough": False},
    "exhaustive_note": "part 1 enumerates the whole boundary pool of doubles for the three number writers; the font space itself is sampled",
    "timeout": {"quick": 600, "thorough": 7200},
    "search_timeout": 90,
    "trusted_base": COMMON_TRUST + [
        "source-level tie (DESIGN 11.8): tools/extract_roundtrip.py reads the glif writer's per-attribute gates and formatting (serialize.rs), the glif parser's defaults (parse.rs, mod.rs), the optional-file gates of save_impl / layerinfo and what load gives for absent files (font.rs, layer.rs, fontinfo.rs) and the tests, constants and casts of the three number writers (kerning.rs, fontinfo.rs) on every run; the regex translator is trusted in one direction only (a wrong extraction can fail a source_* theorem or fall back to the pinned section, it cannot make a false theorem check); control flow outside these shapes is tied by behaviour only",
        "the plist crate: XML plist writer/reader round trip of values (strings incl. blanks and line breaks, integers, reals, data, dates, nested containers); "
        "Rust's shortest round-trip f64 formatting/parsing (a value written as <real> reads back bit-identically) - both are parameters of the model, exercised on every case by the oracle",
        "the model is generic over the un-modelled parts (Parts/PartLaws, one named law per hypothesis); Props/C01Bridge.lean discharges the glyph-file law by C02 glif_roundtrip_partial_no_object_libs, "
        "the rule-bearing font-info fields by C13 entry_points_agree / validate_iff_rules and the container fields of ValidFont by C06 SInv; remaining assumptions: serde of the rule-free font-info fields and of guideline geometry, "
        "stores carried verbatim (justified by C16 save_writes_verbatim / lazy_get_is_disk_at_first_access, types not bridged); the correspondence runs the token instance",
        "the specification predicate of this property lives in lean/Driver/C01.lean (specFont) and is evaluated on the implementation's loaded font only",
    ],
    "assumptions": [
        "numbers are finite; a non-zero number of magnitude <= 2^-52 in kerning / int-or-float font info / unitsPerEm is read back as 0 (recorded finding, generated rarely and tagged)",
        "inherited guards (C02): glyph notes without blanks at the ends, glyph-lib strings and keys without line breaks, glyph colours with at most 3 decimals",
        "guideline libs are attached through Guideline::replace_lib with an explicit identifier (norad never has to invent a UUID)",
        "feature text is compared in line-ending normal form (every run of CRs directly before an LF dropped): replace(CRLF, LF) is not idempotent (CR CR LF)",
    ],
}

MANIFEST = {
    "text": ("Theorems: int_or_float_within_1e9 (each of the three int-or-float writers, modelled exactly on finite doubles as rationals incl. round/trunc/fract, the EPSILON tests and the "
             "saturating i32 cast, reads back within 1e-9 relative for every value that is 0 or of magnitude > 2^-52; counterexample at 1e-17 recorded), the pinned tree's "
             "truncation (1-2^-53 -> 0) and saturation (3e9 -> 2147483647) as counterexample theorems next to the repaired writers (fix: commits), num_roundtrip at the level of "
             "in-memory numbers, lib_roundtrip (recursive key sorting shows the same node at every path), features_roundtrip (CRLF->LF keeps the line-ending normal form; "
             "non-idempotence counterexample), layers_roundtrip_order / layers_default_moved_to_front, metainfo_roundtrip. Instantiated parts: glyph files by C02 (glif_roundtrip_partial_no_object_libs; noradNorm: a glyph read back is inside the guard again, so norad_output_is_fixed_point_glif has no glyph assumption), font-info serde by the table-driven fontinfo_fieldtable_roundtrip / metainfo_ / guideline_ (read(write v) = v for every value of the 108-field table regenerated from the source, records and vectors nested, under the leaf law only; shape decided on the table: source_field_tables_shape), stores by C16 through an explicit embedding (data_files_roundtrip, image_files_roundtrip: plan runs, every file holds the entry's bytes, the lazily listed store returns them at first access; lazy_iter_any_order). Source-level tie (regenerated from the Rust on every run): source_gates_match_defaults (every attribute the glif writer omits under a gate is omitted exactly at the value the parser assumes when it is absent), source_element_gates_match_defaults, source_absent_files_read_as_empty (every file written only when non-empty reads back as the empty value), source_file_gates_match_model, source_glif_gates_match_model_encoder (the extracted gate table confirmed row by row on the C02 model encoder), source_number_writers_match_model (tests, EPSILON, i32 bounds, casts, colour decimals). Correspondence: generated fonts x WriteOptions through "
             "Font::save_with_options / Font::load, written files and loaded font compared with the model, specification oracle on the loaded font."),
    "design_ref": "5 / C01, Appendix E, sections 6 and 8",
    "note": "trusted: Lean kernel + 3 standard axioms; harness/driver glue; plist crate and f64 formatting as parameters; glyphs, other font-info fields and stores as opaque tokens (their own properties)",
    "technique": "Lean 4 exact-rational tolerance proof of the number writers + per-part codec lemmas + differential save/load of generated fonts against the model",
}
