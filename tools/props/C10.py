CFG = {
    "lean_targets": ["Norad.Props.C10"],
    "extract": ["kern_consts", "upconv"],
    "audit": "Norad/Audit/C10.lean",
    "rule": ("generated format 1/2/3 trees whose kerning groups collide after prefixing (up to 12 groups over both sides, pairs among them) and, "
             "for format 1, robofab feature data (0-4 blocks over an 8-tag pool, with/without classes, with/without a featureorder list incl. "
             "repeated and unknown tags), optionally with nested lib dictionaries written in descending key order, data/images stores and a "
             "second layer with glyph libs and layerinfo; each tree is loaded 12x (quick) / 32x (thorough) in-process (fresh RandomState per "
             "HashMap) and every 8th tree in 2 / 4 freshly spawned processes; every loaded font is saved, the first one three times; dumps and "
             "tree hashes are compared; a third of the trees additionally get 1-4 data-store inserts through the API before each save (keys from a "
             "pool with aliases: a.txt, ./a.txt, b/c.txt, b/./c.txt, n.txt, ./n.txt). The first font of every tree is also saved over five pre-states of the target (absent, empty directory, non-empty non-UFO directory with stale feature file/data/hidden file/glyphs, another UFO, UFO-like directory without metainfo.plist) and must give one tree. Plus 80 (quick) / 800 (thorough) format-1 trees whose feature dictionary holds 2-4 spellings that collapse onto a tag of the order list under a normalisation (blanks incl. Unicode, BOM/zero-width, case, NFC/NFD, _/-), without and with the exact key, every second one also in fresh processes. Plus 30 `dup` trees (a shared identifier between every ordered pair of glyph object kinds, between the fontinfo guidelines, and accepted controls) that the unchanged code refuses: the outcome must be the same in every load and process. Plus `lib` cases: 1200 (quick) / 20000 (thorough) random lib values "
             "(depth <=4, dictionaries, arrays, dictionaries inside arrays) set as font lib, layer lib and glyph lib of two fonts built through the API "
             "with the same map but another insertion order at every dictionary (a quarter also inside arrays), saved and compared byte for byte. "
             "non-trivial = at least one generated group name needs a numeric suffix, or a requested tag has no exact key among >=2 blocks, or a format-1 tree has >=2 feature blocks and no featureorder, "
             "or the store inserts alias, or (lib) the two values are equal but not identical; distinct by input tokens"),
    "exhaustive": {"quick": False, "thorough": False},
    "search_timeout": 150,
    "trusted_base": COMMON_TRUST + [
        "hash order of std HashMap/HashSet is modelled as an arbitrary order parameter; the harness samples it (fresh RandomState per instance and per process), it cannot enumerate it",
        "thread scheduling (rayon) is not exercised by this check: the harness is built without the rayon feature (C19 covers parallel = sequential)",
        "plist::Value equality (`==`, insertion order ignored) and IndexMap::sort_keys are transcribed as pvEq / sortEntries and compared with the crate on every lib case",
        "the byte identity of saved trees is observed (hash over sorted path/kind/bytes), not modelled; the model predicts groups, kerning and the features text",
    ],
    "assumptions": [
        "tools/extract_upconv.py regenerates upconvert_kerning statement by statement (Kern.Gen.*): the two sets are built with BTreeSet::insert in loop order (a set declared with another type is an unknown shape: pinned fallback, and source_iteration_is_ordered reports it); source_sets_eq_model / source_gen_upconvert_order_independent state the order independence of the regenerated pass",
        "tools/extract_kern_consts.py re-extracts the declared collection types of groups_first/groups_second, of the feature-block map (+ whether its keys are sorted), of the Groups/Kerning aliases and of Layer.contents, and the robofab lib keys, on every run; source_iteration_is_ordered fails when one of them is a hashed collection (pinned fallback when an anchor is missing: the sampling remains the tie)",
        "plist::Dictionary keeps insertion (file) order and sort_keys sorts it; dictionaries inside arrays are not sorted by norad and keep file order, which is a function of the input",
    ],
}

MANIFEST = {
    "text": ("The kerning and feature upconversions are modelled with every hash-ordered iteration as an explicit order parameter. For the code "
             "as repaired (sorted visiting order, sorted feature tags) the result is proved independent of every such order "
             "(upconvert_order_independent, features_order_independent: any permutation of the insertion order of the sets / of the block map "
             "gives the same output; the glyph-name set, the validator's sets and the rename tables are proved to be consulted for membership / "
             "lookup only), and the two defects of the unrepaired code are kept as counterexample theorems. The correspondence loads each "
             "generated legacy tree 16-32 times in-process and in fresh processes, saves every result, and demands one dump, one tree hash and "
             "sorted dictionaries; the model predicts the unique groups/kerning/features. "
             "recursive_sort_plist_keys is modelled on plist values: written_plists_sorted (every dictionary reachable through dictionaries is sorted; "
             "arrays are not visited), written_lib_function_of_map (the written lib does not depend on the insertion history wherever the sort reaches), "
             "store_save_order_independent (writes to pairwise different files commute); the two places where equal fonts are NOT written identically "
             "(dictionary inside an array; aliasing store keys) are proved as counterexamples, reproduced on the crate and listed as known findings."),
    "design_ref": "5 / C10",
    "note": "hash order and process identity are sampled, not enumerated; rayon scheduling is C19; store write order is argued (distinct files commute), not modelled here",
    "technique": "Lean 4 theorems quantified over all permutations (order parameters) + repeated in-process / fresh-process load-save comparison",
}
