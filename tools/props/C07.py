CFG = {
    "lean_targets": ["Norad.Props.C07", "Norad.Props.C07Containers"],
    "gens": ["C07", "C06"],
    "gen_rules": {"C06": ["glyph-paths-distinct", "layer-paths-distinct", "one-default-first"]},
    "audit": "Norad/Audit/C07.lean",
    "extract": "filename_consts",
    "rule": ("norad::user_name_to_file_name through the public API with both norad affix pairs ('' + '.glif', 'glyphs.' + ''), a few foreign pairs, "
             "and closures that are stateful (accept the k-th call, k in 0..103) or taken-sets built from earlier results (0,1,2,..,98,99,100 clashes). "
             "Exhaustive part: every name of length <= 4 over {c o n m 1 . space N _ / E-acute sparkling-heart} x 2 affix pairs x {accepted at once, one clash}. "
             "Random part: per-case alphabets (printable ASCII with all 14 illegal characters, clash-prone a/A/_/./space, 2/3/4-byte characters, non-ASCII upper case "
             "incl. Other_Uppercase and letters whose lower case has another byte length, combining marks, reserved words with case/dot variants), escaped length "
             "peaked at 238..261 bytes with multi-byte characters and period/space runs straddling the cuts; colliding pairs of different user names; histories; "
             "period/space runs of 236..252 characters followed by one 1..4-byte character (byte-exact guard of the layer prefix); every name of length <= 4 over {a A Sigma sigma .} containing a capital sigma "
             "(accepted at once, one clash, taken-set = its own lower-casing, taken-set = the other lower-case sigma). "
             "Compared: the returned string AND every string the closure was called with (already lower-cased). Oracle on norad's own result: the seven predicates "
             "of Spec/C07.lean. non-trivial = the model escaped a character, inserted the reserved-word underscore, clipped, replaced a trailing run or needed a counter; distinct by input tokens"),
    "exhaustive": {"quick": True, "thorough": True},
    "exhaustive_note": "all 22620 names of length 1..4 over a 12-symbol alphabet, both affix pairs, accepted at call 0 and at call 1 (90480 cases); thorough: also all 248832 names of length 5 with the glif pair; the random part is not exhaustive",
    "timeout": {"quick": 600, "thorough": 7200},
    "trusted_base": COMMON_TRUST + [
        "Unicode tables are parameters: U = char::is_uppercase and lower = str::to_lowercase. Theorems hold for every lower and every U (not_reserved needs U true on ASCII A-Z). "
        "The harness sends is_uppercase and the per-character to_lowercase of every character used. str::to_lowercase is the per-character map except for capital sigma (context-sensitive final sigma): for names with capital sigma the harness sends the true str::to_lowercase of every offered candidate (candidate j = the function's result when exactly call j is accepted; independent of what the function passed to the closure) and the driver instantiates lower from that table, accepted as a lowering when it equals the per-character one up to the two lower-case sigmas",
        "the caller's FnMut closure is modelled as a function of (call number, string); a closure with other hidden state is covered by the theorems (any accept : Nat -> Str -> Bool) but not by the correspondence",
        "std::path::PathBuf::from(String) keeps the string (the harness reads it back with to_str)",
    ],
    "assumptions": [
        "names are valid norad Names (non-empty, no C0/DEL/C1 controls) for the portability theorems; fileName_accepted / first_accepted / none_iff hold for every string",
        "prefix/suffix are the two pairs norad uses for the wrapper theorems (single component, leading period, affixes, reserved); length and acceptance theorems hold for every affix pair (length: suffix of at most 255 bytes)",
        "container-level claims of C07 (distinct within a layer / layer set under histories incl. after loading, never the default directory, path stability) are theorems of Props/C07Containers.lean: the C06 container invariant instantiated with this algorithm; they are exercised by the C06 operation histories, which this check also runs (the driver predicts every assigned path with this model)",
    ],
}

MANIFEST = {
    "text": ("Function level and container level of C07 (container level: Props/C07Containers.lean instantiates the C06 invariant with this algorithm: "
             "layer_paths_distinct_mod_lower, layerset_paths_distinct_mod_lower, layerset_never_assigns_glyphs, path_stable_*; exercised by the C06 histories). Function level: Lean model of norad::user_name_to_file_name (escaping, reserved-word underscore before the prefix, byte clipping backed off to a char boundary, "
             "trailing period/space replacement, 1..99 clash counter; is_uppercase/to_lowercase as parameters; FnMut closure indexed by call number). Theorems for ALL valid names of any length, "
             "all closures: the result is the first accepted of 100 explicit candidates and was accepted by the last call (never a rejected candidate; panic iff 100 rejections; the truncate calls never "
             "hit the inside of a character; back-off <= 3 steps); single path component without illegal/control characters, no leading period, no trailing period/space, affixes present, stem not a "
             "device name; length <= 255 when the first candidate is accepted or the suffix is empty and <= 257 always. Source-level tie: tools/extract_filename_consts.py TRANSLATES user_name_to_file_name and its two wrappers statement by statement on every run (Generated/FileNameFn.lean, eight independently pinned sections: per-character loop arm by arm, reserved-name test, clip with its boundary walk, trailing period/space block, cut before the counters, counter loop incl. format width / accept_path argument / end-of-try truncation / panic, the ORDER of the blocks with the first accept_path argument, the wrappers) plus the constants and lists (Generated/FileNameConsts.lean); Props proves source_*_eq_model (function equalities, induction for the two loops) so that every theorem is about the source as it stands; an unknown statement shape pins its section (never an alarm), a known shape with other content fails its theorem. Two statements are false on the tree and recorded with kernel-checked "
             "counterexamples: the 257-byte .glif name after a clash, and the 'glyphs.' prefix eaten for layer names made of periods/spaces. Tied to the code by driving the public function on "
             "an exhaustive small-alphabet space plus boundary-directed random names and comparing result and every closure call with the compiled model; the specification predicates are "
             "evaluated on norad's own output. Container-level uniqueness/stability is claimed by the container check on top of fileName_accepted."),
    "design_ref": "5 / C07, Appendix B",
    "note": "trusted: Lean kernel, three standard axioms, harness/driver glue, Unicode case tables as parameters (values sent by the harness per character); container-level part of C07 lives with the C06 state machine",
    "technique": "Lean 4 theorems (induction over names, closed form of the candidates, first-accepted characterisation) + statement-by-statement source translator with source_*_eq_model function equalities + exhaustive/boundary-directed correspondence incl. closure call traces",
}
