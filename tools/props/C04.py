CFG = {
    "lean_targets": ["Norad.Props.C04", "Norad.Props.C01Bridge", "Norad.Props.C01Stores"],
    "extract": "roundtrip",
    "audit": "Norad/Audit/C04.lean",
    "rule": ("inputs on disk: every UFO (13) and glif (71) under the repository's testdata (copied to scratch), generated font descriptions rendered by the harness' own "
             "writer (not norad's) as format 3 (2/3 of the cases), 2 and 1 trees, and generated glyphs rendered as format 2 / 1 glif documents, all with randomised legal surface "
             "syntax (attribute order, quote characters, blanks and line breaks inside tags and between elements, decimal/hex character references, comments outside the root "
             "and inside plists, XML declaration variants, BOM, DOCTYPE, formatMinor=0, number spellings 5 / 5.0 / 5E0 / 5.000, integral reals as <integer>, unsorted dictionary "
             "keys, self-closed empty containers, default layer at any position of layercontents.plist, foreign glif file names, element order inside <glyph> shuffled); "
             "oracle: load(x) vs load(save(load(x))) with the C01 comparison (numbers 1e-9 relative, colours 3 decimals, features up to CR LF, creator excepted), written metainfo "
             "says formatVersion 3, every written glif says format=\"2\" without formatMinor, for format-3 trees load(x) shows the content the tree was rendered from; at glyph level "
             "parse_raw(x) vs parse_raw(encode(parse_raw(x))) and parse_raw(x) vs the glyph rendered; plus structure-aware mutations of every testdata glif (25 per file quick / 400 thorough) "
             "and UFO (8 / 150 per tree, 1-4 files each): attribute order, quote characters, blanks inside tags, comments and blank lines between elements (also inside glyph, outline, contour, dict, array), "
             "number spellings 5 / 5.0 / 5e0 / +5 / 5.000 in glif attributes and plist reals/integers, order of the children of <glyph>, XML declaration / BOM variants, and removal of one optional child "
             "(a glyph child, or a key+value of a dict); the mutant must still satisfy the fixed-point oracle, and a mutant built from meaning-preserving classes only must load to the SAME value as the original file "
             "(rules mutation-changed-value / mutation-rejected). non-trivial = the input was accepted; distinct by input tokens"),
    "exhaustive": {"quick": False, "thorough": False},
    "exhaustive_note": "all UFOs and glifs of the repository's testdata are run; the generated part is sampled",
    "timeout": {"quick": 600, "thorough": 7200},
    "search_timeout": 90,
    "trusted_base": COMMON_TRUST + [
        "source-level tie (DESIGN 11.8): tools/extract_roundtrip.py reads the glif writer's per-attribute gates and formatting (serialize.rs), the glif parser's defaults (parse.rs, mod.rs), the optional-file gates of save_impl / layerinfo and what load gives for absent files (font.rs, layer.rs, fontinfo.rs) and the tests, constants and casts of the three number writers (kerning.rs, fontinfo.rs) on every run; the regex translator is trusted in one direction only (a wrong extraction can fail a source_* theorem or fall back to the pinned section, it cannot make a false theorem check); control flow outside these shapes is tied by behaviour only",
        "the independent renderer of harness/src/c04.rs (it decides what a tree / glif document 'says'); fontinfo.plist key/value pairs come from plist::to_value(&FontInfo) (norad's serde table, checked against the specification by C05)",
        "format 1/2 conversion of font info, groups and kerning at the first load is not modelled here (C14/C15/C10): for legacy trees only the fixed point after the first load is checked",
        "everything listed for C01 (plist crate, f64 formatting, opaque glyph / font-info / store tokens)",
    ],
    "assumptions": [
        "generated surface syntax stays inside what the pinned parser accepts: no explicit close tags for empty glif elements, no comments inside <glyph>, no DOCTYPE in glifs, no blanks at the ends of notes (DESIGN section 6, rows C12/C05)",
        "integers in plists within +-2^53 (the model reads an <integer> as the double of the same value)",
        "CDATA sections are generated only in tagged inputs (x=cdata-*, cd=<part>); what the first load drops of them is recorded (plist crate / parse_note ignore CDATA), anything else they cause is a violation",
        "a legacy tree refused by the kerning-group upconversion (GroupsUpconversionFailure) is 'not accepted', not a violation",
    ],
}

MANIFEST = {
    "text": ("Theorems: norad_output_is_fixed_point (for every valid font inside the number guards, load(save(f)) is again a valid font inside the guards and one more save+load returns "
             "the same font: layers in order, colours, libs as maps, numbers within tolerance, features up to CR LF), rtFont_valid / rtFont_numbers (what load(save(f)) returns is "
             "representable), output_is_v3 (whatever was loaded, what is written says creator norad, formatVersion 3), objectlibs_key_without_fontinfo_counterexample (recorded finding: "
             "a loadable tree whose loaded font cannot be saved), layers_default_moved_to_front. With norad's glif codec instantiated (C02) norad_output_is_fixed_point_glif needs no glyph assumption (noradNorm); data and image files by C16 (data_files_roundtrip, image_files_roundtrip). Source-level tie: source_absent_reads_match_model, source_absent_files_read_as_empty, source_gates_match_defaults (reader defaults = writer gates, from the Rust of the run). Correspondence: testdata UFOs and glifs + generated trees/glifs with randomised surface "
             "syntax through Font::load / Font::save / Font::load and Glyph::parse_raw / encode_xml / parse_raw, model saveFont/loadFont on the loaded font, specification oracle."),
    "design_ref": "5 / C01-C04, section 6",
    "note": "trusted: Lean kernel + 3 standard axioms; harness/driver glue incl. the independent renderer; legacy conversion at first load belongs to C14/C15; glif events belong to C02/C12",
    "technique": "Lean 4 fixed-point theorem on the font codec model + differential load/save/load of independently rendered and repository inputs",
}
