CFG = {
    "lean_targets": ["Norad.Props.C14"],
    "audit": "Norad/Audit/C14.lean",
    "extract": ["fontinfo_conv", "robofab_conv"],
    "rule": ("generated format-1 and format-2 UFO trees (metainfo.plist, fontinfo.plist with legacy keys, optional lib.plist / "
             "features.fea, glyphs/contents.plist, no layercontents.plist) loaded with Font::load; every FontInfo field read through "
             "the public struct, features, lib keys, meta.format_version, validate() and a save observed.  Every legacy attribute "
             "alone with two values no other attribute gets (40 + 94 attributes), all attributes together (3 value sets), every "
             "neighbouring pair; every fontStyle and msCharSet code in -5..300 plus far values; the 13 width names with 6 case/blank/"
             "hyphen variants each and near misses; 46 numeric classes (x.5 both signs, +-2^31 and +-2^32 +-0.5/1/2, 1e300, -0.0, "
             "inf, NaN, one ulp below 0.5) through every number-typed attribute (every second one in the quick tier); the ends of "
             "i32/u32 through every integer attribute; weightValue incl. -1; negative versionMinor and panose; attributes of another "
             "format; C13 rule violations in a format-2 file and through the robofab hint data; robofab hint data, classes, feature "
             "dictionaries with and without order lists (unknown and duplicate names), other lib keys, an existing features.fea; "
             "random combinations; every second case additionally as an ORDINARY legacy UFO (MetricsMachine groups with one-letter and longer stems and kerning referring to them, glyphs incl. one renamed in contents.plist only, layerinfo); the robofab and all-attribute trees additionally through load_requested_data with six data requests "
             "(default, lib off, features off, none, only lib, no layers).  Feature text without an order list and with >= 2 blocks is compared up to the order of the "
             "blocks (tag `unordered`).  non-trivial = at least one legacy attribute or a lib.plist; distinct by input tokens"),
    "exhaustive": {"quick": True, "thorough": True},
    "exhaustive_note": "exhaustive: every legacy attribute of both formats individually, every enumeration code in -5..300, the width-name table with variants; numeric classes per attribute are halved in the quick tier; random combinations are not exhaustive",
    "trusted_base": COMMON_TRUST + [
        "tools/extract.py (regex over the two struct literals, the three match tables, FontInfoV1/V2 and the enums); a wrong extraction can only make a table theorem fail or fall back to the pinned table (`extraction: pinned`)",
        "tools/extract_robofab_conv.py (statement-by-statement parse of upconvert_ufov1_robofab_data; a statement it does not know sends the sequence-dependent sections to the pinned copy): a wrong extraction can only make a source_robofab_* theorem fail or report `extraction: pinned`",
        "the specification tables in lean/Norad/Spec/FontInfoUp.lean are typed from the UFO conversion documents / fontTools.ufoLib from memory (no offline copy of the specification)",
        "modelled, not verified: plist/serde decoding of the legacy files (deny_unknown_fields, typing of each attribute as `wellTyped`); harness field dump harness/src/fi_fields.rs generated once from struct FontInfo",
        "Norad/Model/FINum.lean: f64 bit patterns decoded to exact magnitudes; round / abs / saturating casts as integer arithmetic",
    ],
    "assumptions": [
        "rounding tie-break is unspecified (an integer within 1/2); saturation beyond +-2^31 (2^32 for unsigned) is outside the guard of the rounding rule",
        "fontStyle 0 and the width names Normal / All / medium / Medium are accepted extensions of norad",
        "feature blocks without an order list are concatenated in hash order on the pinned tree (C10's finding, repaired elsewhere); this check compares them up to block order",
        "the tree is checked with the C13 fixes of branch fix/fontinfo (the post-conversion validation is the C13 model)",
    ],
}

MANIFEST = {
    "text": ("The statement sequence of upconvert_ufov1_robofab_data is translated on every run into a (robofab entry, target, conversion) table; it is proved equal to the table the model folds over (source_robofab_table_eq_model, decide), so that the fold of the translated statements is the model's hint conversion for every input (source_robofab_statements_are_applyHints, source_robofab_load_runs_table), and every row converts as the specification's table prescribes - zone lists flattened, everything else copied, entry types, feature-key roles, keys read = keys removed (source_robofab_conversions_are_spec, source_robofab_row_value_is_spec). The feature statements are interpreted as well: for every robofab lib (classes, blocks, an order list that is complete, incomplete, with repeated or unknown tags, or none) the text assembled by folding the translated statements is the model's featureText (source_robofab_features_eq_model), and it does not depend on the iteration order of the block map (source_robofab_features_deterministic, source_robofab_model_text_deterministic). The legacy conversion is a table (legacy attribute, format-3 attribute, value conversion) regenerated from the Rust struct "
             "literals on every run; theorems (kernel-checked, `decide`) state that the regenerated format-1 and format-2 tables and the three "
             "enumeration tables equal the specification's tables typed in independently, that no two legacy attributes land on one format-3 "
             "attribute, that unknown enumeration values are errors for ALL codes, that weightValue -1 is dropped, that rounding is within 1/2 "
             "for every finite double below the saturation guard, that unsigned targets are non-negative, that the four robofab lib keys are "
             "removed and all others kept, and that every successful legacy load reports format 3, validates (C13 rules) and is not refused "
             "by save. Generated v1/v2 UFO trees through Font::load tie the model to the code; the specification relation is evaluated on the "
             "implementation's own output."),
    "design_ref": "5 / C14, 3.5",
    "note": "trusted: Lean kernel, three standard axioms, extractor, harness/driver glue, spec tables typed from memory; all listed theorems proved",
    "technique": "Lean 4 theorems over extracted tables (decide) + general lemmas (rounding, error propagation, composition with C13) + attribute-exhaustive correspondence through Font::load",
}
