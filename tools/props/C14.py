CFG = {
    "lean_targets": ["Norad.Props.C14"],
    "audit": "Norad/Audit/C14.lean",
    "extract": "fontinfo_conv",
    "rule": "placeholder",
    "exhaustive": {"quick": True, "thorough": True},
    "exhaustive_note": "",
    "trusted_base": COMMON_TRUST,
    "assumptions": [],
}
MANIFEST = {"text": "placeholder", "design_ref": "5 / C14", "note": "", "technique": ""}
