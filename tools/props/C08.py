CFG = {
    "extract": "save_order",
    "lean_targets": ["Norad.Props.C08", "Norad.Props.C08C13", "Norad.Props.C08Fault"],
    "audit": "Norad/Audit/C08.lean",
    "rule": ("Font::save through the public API in a sandbox directory: fonts invalid by each of the refusal kinds (format version 1/2, public.objectLibs in the font lib, "
             "a glyph in two kern1 groups, an impossible openTypeHeadCreated, a guideline angle of 400, store entries that are non-PNG / deleted / replaced by a directory / "
             "truncated after the load / already in error state) and by every pair of kinds, API-built and loaded from generated trees, x six pre-states of the target "
             "(absent, empty directory, a different larger UFO, nested junk, a plain file, the font's own source directory); valid fonts over the same pre-states; in-place "
             "histories (generated tree with data/ and images/ -> Font::load -> random edits of glyphs, lib, layers, store inserts/removes/gets -> save onto the source). "
             "Targets that are symbolic links; rejected store inserts onto existing lazy keys; image files with upper/mixed-case or no extension. Round 6: k store files deleted / replaced by a directory / truncated on disk after the load and before any access (one, two, all; data, images, both) saved elsewhere and in place; the same save retried once or twice after a refusal (error cached by the first attempt or by a get); in-place targets spelled as an alias of the load path (trailing separator, `..` detour, symlinked parent, relative); size classes of lazily read store files (0, 1, 4 KiB, 64 KiB + 1, 1 MiB + 1, 3 MiB, a large image; a 1 MiB + 1 file in four quick cases). Recursive snapshot (path, kind, content hash) of the whole sandbox before and after; in-place saves are additionally checked against the files that were on disk at load time. non-trivial = a refusal kind applies or the save is in place; distinct by recipe"),
    "exhaustive": {"quick": False, "thorough": False},
    "exhaustive_note": "all single refusal kinds and all pairs x all six pre-states x {API-built, loaded} are enumerated; fonts and edit histories around them are sampled",
    "trusted_base": COMMON_TRUST + [
        "std::fs vs the abstract file system (no symbolic links, no permission / disk-full / concurrent-process errors; remove_dir_all refuses a plain file with ENOTDIR as rustc 1.95 does)",
        "what the validators mean is not part of this model (C13, C15): validity enters as the booleans the harness observes (FontInfo::validate(), serialisability by plist::to_writer_xml, groups validity by construction)",
        "file contents other than store files are uninterpreted (`render`); the model's post-state is compared on paths, kinds and store-file hashes",
    ],
    "assumptions": [
        "crash points inside a save and I/O errors other than exists / not-found / not-a-directory / is-a-directory are outside the statement and the model, except the one injected fault of Model/SaveFault.lean (theorems only; the harness injects no faults)",
        "the harness is built without the rayon feature: glyph files are written in contents order and a failing glyph stops the layer",
    ],
}

MANIFEST = {
    "text": ("Theorems about saveImpl, the transcription of Font::save_impl over an abstract file system, for every content type, renderer, entry validator, font, file system and target: "
             "refusal_has_no_effects (any refusal of steps 1-5 is returned with the input file system), effects_only_after_validation (converse: a changed file system implies every "
             "validator passed and every store cell was forced to loaded), refused_save_leaves_fs_{version,objectLibs,groups,fontinfo_partial,store}, store_error_detected_before_wipe, "
             "and refused_save_leaves_fs_fontinfo_counterexample (a font info that passes validate but is refused by the writer destroys the target: recorded finding). "
             "Correspondence: refused, valid and in-place saves through the real API in a sandbox, result class and post-state compared with the model; oracle: snapshot equality for every "
             "refusal kind in the specification's sense, reported variant among the applicable kinds, store files kept byte for byte."
             " Second phase: inplace_save_keeps_store_files (load from t, save onto t: every data/images file keeps its bytes although every cell was notLoaded; well-formed FS) and its counterexample on the variant without step 5."
             " Third phase: generators extended by 12 font-info boundary variants, 5 groups shapes, save_with_options, other spellings of the target, fonts from partial loads."
             " Source-level tie: tools/extract_save_order.py regenerates Generated/SaveOrder.lean from src/font.rs on every run; source_validators_precede_wipe (the steps in front of remove_dir_all in fn save_impl are exactly the model's five validators, then create_dir, then the writes) and source_save_order_matches_plan (the write order of the source equals the order of `plan` on a probe font), by decide."
             " Last phase: source_plan_refusal_has_no_effect and source_refuses_whenever_model_does - the step list extracted from fn save_impl, run against the model (Source.execSteps), refuses with the untouched file system whenever one of its pre-wipe steps refuses, for every interpretation of unknown steps, and refuses whenever the model's validatePhase does."
             " Session 2026-09-29: the saveTable section of the extractor translates every top-level statement of fn save_impl into rows (guard atoms, step); source_save_table_parses (every atom and step is one the model has a meaning for, in the model's order), source_save_table_eq_model (running the regenerated rows against the abstract file system IS saveImpl, every font / file system / target), source_table_refusals_precede_wipe."
             " One fault kind (Model/SaveFault.lean: the effect at position k of the plan fails with an I/O error): failed_save_stays_inside_target (safePaths: every path not at or below the target keeps its node, any font / file system / position / error), failed_save_leaves_partial_target (kernel-evaluated witness: the old content is gone and the target is partially written), fault_beyond_plan_is_save."),
    "design_ref": "5 / C08, 4 (abstract file system)",
    "note": "trusted: Lean kernel + 3 standard axioms; harness/driver glue; std::fs vs abstract FS; validators and renderers abstract",
    "technique": "Lean 4 proof about an effect-ordered model of save + differential sandbox snapshots against the real crate",
}
