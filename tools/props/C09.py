CFG = {
    "extract": "save_order",
    "lean_targets": ["Norad.Props.C09"],
    "audit": "Norad/Audit/C09.lean",
    "rule": ("Font::save into a sandbox with sentinel files beside and above the target, the target absent / empty / another larger UFO / nested junk / a plain file / the font's "
             "own source: all 32 combinations of optional parts (lib, font info, extra layers, layer info, groups, kerning, features, data, images, guidelines) x API-built / loaded, "
             "240 random fonts with edit histories (store inserts/removes/gets, glyphs, layers, lib) over every pre-state, and crafted relative paths (store keys ../x, ../../x, ../../../x, ./a, q/../b, image key .., contents.plist values "
             "../../x.glif and sub/../a.glif, a nested layer directory in layercontents.plist). Also: the target being a symbolic link to a populated directory, blank-only feature texts, empty-but-present containers (group without members, kerning entry without pairs, empty dict/array lib values), empty layers with colour or lib. Round 6: store files deleted / replaced by a directory / truncated on disk after the load and before any access (k of them), saved elsewhere and in place - a successful save writes exactly the keys the store reports, an error-state entry refuses with everything untouched; in-place targets through a symlinked parent / relative; a 1 MiB + 1 lazy file. Glyphs created through the raw `Layer::entry(..).or_insert_with` and then replaced by `insert_glyph` (new and existing names, API-built and loaded); the observation counts glyphs the containers report without a file name (NOFILE). Listing and content hashes of the whole sandbox before and after; every save repeated "
             "into a fresh path and compared byte for byte. non-trivial = target pre-populated or crafted path; distinct by recipe"),
    "exhaustive": {"quick": False, "thorough": False},
    "exhaustive_note": "the 32 part combinations x {API-built, loaded} and the 9 crafted path shapes are enumerated; fonts around them are sampled",
    "trusted_base": COMMON_TRUST + [
        "std::fs vs the abstract file system (kernel path resolution without symbolic links; create_dir_all as in std)",
        "file contents other than store files are uninterpreted; byte identity is only demanded between two runs of the implementation itself (FRESH)",
    ],
    "assumptions": [
        "after a save that fails late (after the wipe) on both sides, model and implementation are compared on the outcome class and on everything outside the target only: which files had been written before the failure depends on the write order of the stores, which no statement of C09 fixes (the spec rules, `frame` included, are evaluated on every outcome as before)",
        "store keys and contents.plist values with `..` escape the target: recorded findings (rejecting them is a policy decision with new error variants)",
        "layer directories named like top-level files (a crafted layercontents.plist naming `data` or `fontinfo.plist`) are not generated",
    ],
}

MANIFEST = {
    "text": ("Theorems about saveImpl/plan: save_effects_depend_only_on_font (for a font without lazy cells the validation outcome and the whole effect list run on the wiped target are "
             "independent of the starting file system), emptiness gates of every optional part at plan level (optional_part/fontinfo/images_planned_iff_nonempty), "
             "save_frame_counterexample_store_key and _contents_value (kernel-evaluated escapes, recorded findings), guard_separates, api_built_fonts_safe. Oracle on the implementation's "
             "own output for every case: frame (nothing outside the target changes), exact-files (paths under the target = expectedPaths of the font: no remains, optional files iff "
             "non-empty), fresh-identical (byte-for-byte equal to a save into a fresh path); correspondence of result class and whole-sandbox post-state with the model, `..` paths included."
             " Second phase: save_frame (guard safePaths, any outcome) and save_tree_depends_only_on_font at file-system level (equal sub-trees from any two well-formed pre-states) are proved; exactly_the_determined_files in expectedPaths form stays OPEN (oracle only)."
             " Third phase: exactly_the_determined_files in explicit form (kindAt fs' q = some k iff (q,k) in expectedPaths f t), and the load side: loaded_layer_dirs_single_component, loaded_store_keys_safe, loaded_font_safePaths, save_frame_loaded (guard only for glif paths). Generators: save_with_options, other spellings of the target, fonts from partial loads, absolute / trailing-separator layer directories."
             " Last phase: plan_runs_to_completion (for a WellPlanned font with safe paths the whole save succeeds from any well-formed file system in which the validators pass and the target's parent exists; success decided on the kind relation, Lemmas/PlanRuns.lean, citing the c16 builder's AbsFSOk success lemmas) and saved_tree_determined_by_font (both saves succeed, equal sub-trees, exactly expectedPaths)."
             " Session 2026-09-29: source_plan_is_save_table (the rows of fn save_impl behind the wipe, regenerated from src/font.rs with their guard atoms, executed iff the atoms hold, produce exactly `plan`) and source_optional_gates (the gate of every optional file read off the regenerated table)."
             " Last task: layerTable section (Layer::save_with_options of src/layer.rs with layerinfo_to_file_if_needed inlined, as (guard, step) rows) and source_layer_plan_is_layer_table (the regenerated rows, each executed iff its atoms hold, produce exactly planLayer: layerinfo.plist iff colour or lib)."),
    "design_ref": "5 / C09, 4",
    "note": "trusted: Lean kernel + 3 standard axioms; harness/driver glue; std::fs vs abstract FS. all DESIGN theorems of C09 proved",
    "technique": "Lean 4 model of save as a font-determined effect plan + whole-sandbox differential snapshots and fresh-path byte comparison",
}
