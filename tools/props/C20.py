CFG = {
    "lean_targets": ["Norad.Props.C20"],
    "audit": "Norad/Audit/C20.lean",
    "rule": "placeholder",
    "trusted_base": COMMON_TRUST,
    "assumptions": [],
}
MANIFEST = {"text": "placeholder", "design_ref": "5 / C20, Appendix D", "note": "", "technique": ""}
