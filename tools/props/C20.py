CFG = {
    "lean_targets": ["Norad.Props.C20"],
    "audit": "Norad/Audit/C20.lean",
    "extract": "kurbo_conv",
    "rule": ("paths: every sequence over {move,line,offcurve,curve,qcurve} up to length 7 (quick) / 8 (thorough) with random pairwise "
             "distinct even-integer coordinates (lengths 1-4 also with coincident points), legal ones as returned by Glyph::parse_raw, "
             "illegal ones built through Contour::new/ContourPoint::new; plus 40k/400k random mostly-legal contours of up to ~150 points "
             "(every start rotation, off-curve-only contours, runs of up to 9 off-curves before a qcurve, occasional damage). Observation = "
             "element list of Contour::to_kurbo with coordinates as f64 bit patterns, decoded exactly (quarter units). transforms: 100k/1M "
             "lines of 6 coefficients + point (small integers, quarter units, arbitrary finite doubles, font-unit decimals, boundary values) "
             "observing ContourPoint::transform, kurbo::Affine::from(t) * Point, the coefficients of both conversions and both round trips. "
             "glif stream (G, ~80k documents): one contour in format 1 AND 2 through Glyph::parse_raw, names on the first / middle / last / all / random "
             "points, coordinates that COINCIDE (closing point repeats the first, all equal, stacked pairs, off-curves on top of the next on-curve, "
             "two alternating positions) for every type sequence of 1-4 points and 25k/200k longer contours; the expected path is the model's on the "
             "point list of the XML, not of the parsed Contour (format-1 implicit anchor = exactly one named move). "
             "plus ~17k near-shape transforms: every coefficient at the value of a shape an optimisation might test for (identity, zero, pure "
             "translation, scale only, uniform scale, equal cross terms, quarter turn, mirror) or 1-2 ulp / 2^-53 / 1e-16 / EPS/2 / EPS / 2 EPS beside it, "
             "all six at once and one at a time, applied to the origin, +-0 and points at 2^52, 2^53, 1e18, +-MAX/4. "
             "Two builds: the generator runs in the harness built with norad's kurbo feature and drives the harness built with the crate's DEFAULT "
             "features as a worker, so ContourPoint::transform (every transform line, token p:) and Contour::is_closed (every type sequence "
             "up to length 4, lines C20 C) are observed in both builds, compared with the formula / the model and with each other. "
             "non-trivial = contour of >= 2 points, or any transform line; distinct by input tokens"),
    "exhaustive": {"quick": True, "thorough": True},
    "exhaustive_note": "point-type sequences up to length 7 (quick) / 8 (thorough) are enumerated completely (one coordinate assignment each); the random contours and the transform values are not exhaustive",
    # the generator needs norad's kurbo feature; the default-feature harness (extra build "plain", exported as
    # HARNESS_PLAIN) is driven as a worker so that everything of C20 that exists without the feature is observed in
    # the build a user gets by default as well
    "features": ["kurbo"],
    "extra_builds": {"plain": []},
    "trusted_base": COMMON_TRUST + [
        "modelled, not verified: kurbo 0.11.3 (BezPath element storage, Point::midpoint = 0.5*(a+b) per coordinate, Affine * Point); the kurbo formulas are separate definitions of the model (KAffine.apply) and are compared with the real crate on every transform line",
        "path coordinates are compared exactly on integer inputs (midpoints of even integers are exact in f64 and in the model's Int arithmetic); floating-point rounding of midpoints of arbitrary doubles is kurbo's and is not modelled",
        "the transform model is instantiated at Lean's Float (IEEE binary64, no fused multiply-add) for the bit-for-bit comparison and at Int for the exact formula check; the theorems hold for any type with + and *",
        "tools/extract_kurbo_conv.py (regex translator of Contour::is_closed / to_kurbo — start-point selection, walks, off-curve-only block, the five match arms, the slice-pattern arms of the Curve arm, the QCurve loop, close_path calls —, of ContourPoint::transform with its expression structure, of both From impls and of kurbo's vendored Affine * Point; trusted in one direction only: a wrong extraction can make a source_* theorem fail or fall back to the pinned copy, it cannot make a false theorem check)",
        "the harness is built twice (features kurbo / default) from the same sources; what exists only with the kurbo feature (to_kurbo, the From impls) cannot be observed in the default build",
        "legality is C11's predicate (C11.Legal / legalB); that the glif parser accepts exactly the legal sequences is C11's theorem and correspondence",
    ],
    "assumptions": [
        "the theorems describe the code after the three fix: commits of branch fix/c20 (curve/qcurve without off-curves draw a line; off-curve-only closed contours start at the implied point); on a tree without them the check reports the violations",
        "Contour::to_kurbo never emits ClosePath; 'returns to its start' is read as: the last segment ends at the MoveTo point",
    ],
}

MANIFEST = {
    "text": ("Theorems toKurbo_eq_spec / toKurbo_succeeds: for EVERY contour satisfying C11's legality predicate (any length, any coordinate type, "
             "any midpoint function) the transcription of Contour::to_kurbo (start rotation, off-curve queue, five arms, off-curve-only block) "
             "succeeds and returns exactly the segment specification specPath; corollaries starts_at_move_or_oncurve, one_segment_per_oncurve "
             "(+ segment_kinds), oncurves_in_order, closed_returns_to_start, no_point_lost; transform_formula, transform_eq_kurbo, affine_roundtrip, "
             "toK_coeffs over any type with + and *. The model is tied to the code by running to_kurbo on all type sequences up to length 7/8 and "
             "random long contours with exact integer coordinates, and transform / kurbo::Affine on 100k/1M value tuples bit for bit; the six rules of "
             "the property are evaluated as executable predicates on the implementation's own path. Source-level tie: tools/extract_kurbo_conv.py "
             "translates to_kurbo (arms, thresholds, error, rotation, off-curve-only block, close_path), transform, both From impls and kurbo's "
             "vendored Affine * Point to Lean on every run; source_toKurbo_eq_model / source_toKurbo_eq_spec / source_never_closes / "
             "source_transform_eq_model / source_conversions_eq_model / source_kurbo_apply_eq_model / source_transform_property prove that the "
             "regenerated definitions are the model's, so every C20 theorem is re-checked against the source as it is now; early returns of transform are translated as guarded arms with the predicate's body read from the source "
             "(source_transform_has_no_early_return), no statement of a translated body is ever skipped; transform is extracted in both "
             "cfg(feature = kurbo) variants (source_transform_plain_eq_model, source_transform_builds_agree) and executed in both builds of the harness "
             "(rules formula:plain, transform-differs-between-builds, closed-test:*, is-closed-differs-between-builds)."),
    "design_ref": "5 / C20, Appendix D",
    "note": "trusted: Lean kernel, the three standard axioms, harness and driver glue, kurbo's path type and midpoint; requires the fix/c20 commits (three reproduced defects repaired)",
    "technique": "Lean 4 theorems (loop = segment specification by induction, rotation lemma, legality => well-formed segments via C11's trailOffs) + exhaustive-to-length-7 correspondence with exact coordinates + bit-for-bit transform comparison + source translator (to_kurbo / transform / From impls / kurbo Mul<Point> -> Generated/KurboConv.lean) with audited source_*_eq_model theorems",
}
