CFG = {
    "lean_targets": ["Norad.Props.C03", "Norad.Props.C03Sites"],
    "extract": "panic_sites",
    "audit": "Norad/Audit/C03.lean",
    "rule": ("SUPPORT STREAMS (sampling, not proof): structure-aware mutation (13 operators: truncation, range/tag deletion, tag duplication/rename/swap, "
             "boundary numbers and adversarial strings in attributes and text, invalid UTF-8, nesting, long values, inserted comments/CDATA/PI/DOCTYPE) of "
             "glif documents (25k quick / 400k thorough, one third with two stacked mutations), designspace documents (4k / 60k), single files of a complete UFO "
             "written by norad (3k / 60k) plus every file missing / a directory / a symlink loop and adversarial directory and glif paths in layercontents.plist "
             "and contents.plist; API-built values the documentation does not exclude; deep nesting (up to 100k / 400k levels) in child processes. Every call "
             "under catch_unwind with the panic location recorded; whatever loads is also saved/encoded. The modelled entry points are covered by theorems "
             "(obligations). In addition the generators of C02, C06, C07, C08, C12, C13, C14, C15, C16 and C18 are run and only their panic / abort / hang "
             "rules are kept (every correspondence run is also a totality run). non-trivial = a mutation was applied; distinct by input tokens"),
    "exhaustive": {"quick": False, "thorough": False},
    "trusted_base": COMMON_TRUST + [
        "PARTIAL BY NATURE: the theorems cover the modelled logic (container operations, save index walk, the unreachable!() of end_path; more are added as models are merged); "
        "panics inside quick-xml / plist / serde on inputs the models never see, stack exhaustion and allocation failure are only SAMPLED by the mutation streams",
        "every other property's correspondence run also executes under catch_unwind and reports a panic as a disagreement",
        "tools/extract_panic_sites.py (inventory of unwrap / expect / panic! / unreachable! / assert! / new_raw / slice / index sites of the non-test source, "
        "one row per (file, fn, kind) with its count; regex tokeniser, falls back to the pinned table when a file cannot be tokenised); the classification "
        "table of Props/C03Sites.lean: rows of class thm cite kernel-checked theorems, rows of class guard / constr / const are justified by reading the "
        "lines around the site (not a proof), rows of class finding are recorded defects",
    ],
    "assumptions": [
        "documented panics (Glyph::new on an invalid name, WriteOptions::indent/whitespace with invalid settings, more than 99 file-name clashes) are allowed outcomes and are not generated here",
        "a wall-clock limit of 60 s per child-process case stands in for 'hang'",
    ],
    # every other property's generator is also a C03 run: only their panic / abort / hang rules count here,
    # their model agreement is their own business, their recorded findings are matched under their own ids
    "gens": ["C03", "C02", "C06", "C07", "C08", "C12", "C13", "C14", "C15", "C16", "C18"],
    "borrowed_gens": ["C02", "C06", "C07", "C08", "C12", "C13", "C14", "C15", "C16", "C18"],
    "gen_rules": {g: ["*panic*", "*abort*", "*hang*"] for g in ["C02", "C06", "C07", "C08", "C12", "C13", "C14", "C15", "C16", "C18"]},
    "also_findings_of": ["C02", "C06", "C07", "C08", "C12", "C13", "C14", "C15", "C16", "C18"],
    "timeout": {"quick": 900, "thorough": 14400},
    "no_search": True,
    # debug assertions and overflow checks only exist in a debug build: the API families and the SMALL stream are run
    # once more with one (extra build 'debug'), keeping only panic rules
    "extra_builds": {"debug": ["@debug"]},
    "debug_gens": ["C03API", "SM"],
}

MANIFEST = {
    "text": ("Totality as theorems for the modelled entry points: in every model a Rust panic site is an explicit outcome and is proved unreachable "
             "(layer_ops_no_panic over all container histories, save_no_panic_partial, end_path_unreachable_arm; the false ones are kept as _counterexample and recorded). "
             "Source-level tie (regenerated from the Rust on every run): source_panic_sites_all_classified — every unwrap / expect / panic! / unreachable! / assert! / "
             "new_raw call / range slice / index of norad's non-test source, counted per (file, function, kind), is covered by a classified row (proved unreachable by a "
             "named model theorem, guarded or infallible by construction as read from the code, documented, or a recorded finding): a change that adds a "
             "panic-capable site to a function fails the theorem until the site is justified. "
             "PARTIAL: what no model can exhibit (third-party parsers, stack depth) is sampled by structure-aware mutation streams under catch_unwind / child processes, labelled as a test."),
    "design_ref": "5 / C03",
    "note": "partial by nature: theorems for modelled logic only; parser internals, stack exhaustion and allocation are sampled, not proved",
    "technique": "Lean 4 unreachability theorems for modelled panic sites + mutation-based sampling of the parsers (support only)",
}
