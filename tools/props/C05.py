CFG = {
    "lean_targets": ["Norad.Props.C05"],
    "audit": "Norad/Audit/C05.lean",
    "extract": "vocab",
    "rule": ("generated abstract font descriptions (font info with every UFO 3 key, libs with every plist type, groups, kerning, features, "
             "0-3 extra layers with colour/lib, glyphs with advance, unicodes, note, image, guidelines, anchors, contours, components, "
             "object libs, data and images), half of them saved by norad (Font::save) and read by tools/indep_ufo.py (xml.etree + plistlib, "
             "strict well-formedness) into a generic tree in which the driver must find every value under the specification's names "
             "(glif part: Ufo3.specRead; one save in four goes over a pre-existing richer UFO or a directory of foreign files; glyph-name pairs that map to one file name, with non-ASCII capitals, are forced into a layer in one font in six and contents.plist must name one file per glyph), half written by the independent writer with randomised legal surface syntax (attribute order, "
             "quoting, white space, comments outside the root, character references, element order, key order, integer/real spelling, "
             "DOCTYPE on plists, default layer anywhere in layercontents.plist) plus at most one rare spelling per case, loaded by "
             "Font::load (3 in 8: Font::load_requested_data with none().default_layer(true) / all().default_layer(true) / filter_layers(name of the default layer), compared with what was requested of the description, default layer under the name the writer gave it) and dumped through public getters: values must equal the description, default layer first, the others in "
             "file order, the six transformation coefficients with the specification's affine meaning. plus a load-edit-save stream (500 quick / 8 000 thorough): the description rendered by norad or by the independent writer (glif files named by the UFO convention, capitals included), LOADED, edited through the API (insert / rename / remove glyphs, new / rename / remove layers) with names chosen to clash with existing file names modulo case and modulo the replacement of illegal characters (upper-case, non-ASCII), saved and read by the independent reader against the dump of the in-memory font: every glyph found under its contents.plist entry with its own data, no two names share a file, layer directories pairwise different ignoring case. plus layer-order cases in both streams: 1, 2, 3, 6, 21, 22, 23, 33, 34, 35, 41, 65 layers (glyph-less except the default) with the default layer first / second / in the middle / last of layercontents.plist (quick: two positions each), written by the independent writer or by norad and re-ordered by hand; the order norad reports and writes back must be: default first, the others in file order; and 21 / 64 glyphs in one layer. plus closed contours started ANYWHERE (every rotation of: one qcurve with 0..6 off-curves, line + 0..6 off-curves + qcurve, off-curve-only contours, cubic contours with 0/1/2 off-curves so that the seam splits the run in every way), one glyph per rotation; the contour-shape distribution (ct-* tags: open, lines, all-offcurve, cubic-seam0..2, quad no-wrap / on-curve-last / starts-on-curve / seam-split / wrap-run3+) is counted into input_distribution. 750 + 750 cases quick, "
             "12 000 + 12 000 thorough. non-trivial = the description holds at least one glyph; distinct by input tokens"),
    "exhaustive": {"quick": False, "thorough": False},
    "exhaustive_note": "the vocabulary theorems are exhaustive over the regenerated tables (every FontInfo field, every attribute literal, every file-name static); the behavioural part is sampled",
    "timeout": {"quick": 600, "thorough": 7200},
    "search_timeout": 240,
    "trusted_base": COMMON_TRUST + [
        "lean/Norad/Spec/Ufo3Vocab.lean: the UFO 3 vocabulary typed in from the specification / fontTools.ufoLib (no offline copy of the specification); "
        "a wrong entry there shows as a failing theorem on the unchanged tree, which was checked (0 failures)",
        "tools/indep_ufo.py with Python's xml.etree (expat) and plistlib as the independent implementation, including the lexical reading of "
        "numbers (float() restricted to the decimal grammar) handed to the specification-level reader as a table",
        "tools/extract_vocab.py: a wrong extraction can only make a theorem fail or fall back to the pinned table (evidence: table_extraction)",
        "harness/src/c05.rs: its own table Rust identifier -> UFO 3 key used to build and dump FontInfo (written by hand from the specification, "
        "not from norad's serde attributes)",
    ],
    "assumptions": [
        "numbers in descriptions are exactly representable and print/parse exactly (shortest round-trip formatting on both sides); colours have at most three decimals",
        "strings altered by recorded C02 defects are not generated here: line breaks in glyph-lib strings, blanks at the ends of a note, the empty note",
        "woffMetadataExtensions is covered by the vocabulary theorems only (not generated)",
    ],
}

MANIFEST = {
    "text": ("Vocabulary theorems (decide over tables regenerated from the Rust source on every run): every fontinfo.plist key of the FontInfo struct "
             "is a UFO 3 key with a compatible value type and every UFO 3 key is covered (108), nested record keys, metainfo and layerinfo keys, "
             "file-name statics, glif element and attribute literals of the writer and of the parser (writer within spec, parser within spec, "
             "writer within parser, parser knows every attribute of the specification), the six transformation attributes tied to the "
             "coefficients the specification ties them to, point types, smooth=yes, format=2. spec_reader_finds_values: the specification-level "
             "reader inverts the specification-level writer for every glyph description. Tie to the glif models of C02/C12: "
             "norad_encoder_read_by_spec_reader (in the tree of what encodeGlif writes - its event list IS encodeGlif - the independent reader "
             "finds exactly the glyph norad's own parser arrives at, preG of parse_encode, for every valid glyph), "
             "norad_parser_reads_spec_writer (norad's attribute parsers read every element the specification-level writer writes) and norad_parser_reads_spec_document (parseGlif on the WHOLE document of specWrite, defaults spelt out, returns the described glyph: step-equivalence to the glif builder's generative grammar + legal_accepted_gdoc; hypotheses on the description only: DescLegal, decidable by desc_legal_decidable) and norad_parser_reads_other_spellings (defaults omitted, any attribute order, prolog comments, formatMinor, trailer: corollary of legal_accepted), norad_parser_reads_spec_document_any_order (explicit ItemsPerm: elements of different kinds in any order, comments anywhere, outline re-arranged; <lib> before the objects whose libs it carries still attaches them) and norad_parser_reads_mixed_document (an independent written/omitted choice at every default-valued attribute site). "
             "designspace_attributes_are_spec_attributes: the serde names of src/designspace.rs, field by field, are the designspace "
             "specification's (a symmetric swap of two renames fails). Behavioural tie in both directions against an "
             "independent Python implementation; 22 surface-syntax defects recorded as known findings."),
    "design_ref": "5 / C05, 6, 8",
    "note": "trusted: Lean kernel + 3 standard axioms; the hand-typed UFO 3 vocabulary; Python xml.etree/plistlib as the independent implementation; the extractor (falls back to a pinned table)",
    "technique": "Lean 4 table theorems over vocabulary extracted from the source on every run + spec-level reader/writer theorem + differential check against an independent reader/writer",
}
