CFG = {
    "lean_targets": ["Norad.Props.C06", "Norad.Props.C06Source", "Norad.Props.C06Histories", "Norad.Props.Small"],
    "audit": "Norad/Audit/C06.lean",
    "extract": "layer_ops",
    "search_timeout": 150,
    "rule": ("operation histories on Font::layers / Layer through the public API: exhaustive over all sequences of length <= 3 (quick) / 4 (thorough) "
             "from an 11-operation alphabet on clashing names, plus random histories (length <= 25 quick / 120 thorough) of the 13 operations on "
             "name pools built to clash (case variants, '_' variants, reserved words, dots, 260-byte names, invalid names), starting from Font::new() "
             "and from fonts loaded from generated trees (default layer listed first / in the middle / last; the sub-pools hold the names that reach, ignoring case, "
             "every listed directory and glif file); directed: load trees x every position of the default layer x new_layer / get_or_create_layer / rename_layer with every name reaching a loaded directory; "
             "entry followed by insert_glyph / rename onto the same name; renames refused for an invalid new name followed by names reaching the old file / directory; after every step the full observable state (layer names, directories, glyph names, get_path of "
             "every pool name) is compared with the model and checked against the invariant rules; at the end Font::save + Font::load and comparison of "
             "the report. non-trivial = history of >= 2 operations; distinct by input tokens"),
    "exhaustive": {"quick": True, "thorough": True},
    "exhaustive_note": "all operation sequences up to length 3 (quick) / 4 (thorough) over the 11-operation alphabet from a new font; the random part is not exhaustive",
    "trusted_base": COMMON_TRUST + [
        "tools/extract_layer_ops.py (regex translator of the guard chains of new_layer / rename_layer / rename_glyph, of the index-update calls of every "
        "mutating method of layer.rs, of the index insert_glyph asks before assigning a file name and of the path_set statement of LayerContents::load; unknown condition text or a missing anchor falls back to the pinned copy, never alarms)",
        "file-name assignment enters the container theorems as a parameter with the contracts AssignOK/AssignLOK (proved for the real algorithm in Props/C07Containers); "
        "the driver instantiates it with the C07 model, so every assigned path is predicted exactly",
        "str::to_lowercase as a per-character table sent by the harness (no final-sigma in the pools)",
        "glyph contents are not part of this model (C01/C02); std::fs behaviour for the final save/load",
    ],
    "assumptions": [
        "Glyph::new on an invalid name and > 99 file-name clashes are documented panics and are not generated / are classified as documented",
        "loaded starting states come from trees with distinct layer names and directories (what norad writes); duplicate names in layercontents.plist are a recorded finding exercised by the corpus",
    ],
}

MANIFEST = {
    "text": ("Theorems inv_step / inv_reachable: the transcription of all 13 container operations of layer.rs preserves, from every state satisfying it and for every "
             "operation history of any length, the invariant (unique layer names, unique glyph names, exactly one default layer, first, in 'glyphs', the only one "
             "called public.default, file names and directories pairwise distinct ignoring case, path sets covering them), for EVERY lower-casing function and every "
             "file-name function meeting the C07 contract; error_leaves_state; no_undocumented_panic (the unwrap of rename_layer is unreachable); "
             "sync_step_partial + counterexamples for the entry API (recorded finding); insert_repairs_index / insert_after_entry_resyncs / resynced_glyph_is_saved (an entry glyph put back through insert_glyph is in step and saved); "
             "loaded_pathSet_covers_listed (every listed non-default directory is taken after loading, wherever the default layer is listed). Correspondence: exhaustive short histories and random long ones through "
             "the real API, state compared after every step, save+load at the end. Source-level tie: the guard chains (condition, error, order) of new_layer, rename_layer, "
             "rename_glyph and the table of which redundant index each mutating method updates are regenerated from src/layer.rs on every run; "
             "source_guard_atoms_match_model (same conditions, as sets: order and error variant are not part of the invariant), source_*_refuses_iff (the operations refuse exactly when a guard of the SOURCE's chain fires, and then change nothing), source_index_updates_match_model re-check the model against them; source_insertGlyph_eq_model (insert_glyph asks the contents index, as the model does) and "
             "source_load_pathset_eq_model (the loader builds the path set from `layers`, skipping one, AFTER the default layer is moved to the front) tie two more statements the histories depend on."),
    "design_ref": "5 / C06, Appendix C",
    "note": "trusted: Lean kernel + 3 standard axioms; harness/driver glue; file-name function = the C07 model (contracts proved in Props/C07Containers); glyph contents not modelled",
    "technique": "Lean 4 invariant proof by induction over operation histories; guard chains and index-update table regenerated from layer.rs by a translator and tied by theorems; differential histories against the real containers",
}
