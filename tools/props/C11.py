CFG = {
    "lean_targets": ["Norad.Props.C11", "Norad.Props.Small"],
    "audit": "Norad/Audit/C11.lean",
    "extract": "contour_automaton",
    "rule": ("all sequences over {move,line,offcurve,curve,qcurve} up to length 7 (quick) / 9 (thorough), format 2; "
             "up to length 5 also format 1 and every single-position smooth variant; plus random outlines of 1-4 "
             "contours (lengths up to 60, random smooth flags, empty contours) through Glyph::parse_raw. "
             "non-trivial = some contour has >= 2 points (exercises a transition of the automaton); distinct by input tokens"),
    "exhaustive": {"quick": True, "thorough": True},
    "exhaustive_note": "point-type sequences up to length 7 (quick) / 9 (thorough) are enumerated completely; the random part is not exhaustive",
    "trusted_base": COMMON_TRUST + [
        "tools/extract_contour_automaton.py (regex translator of the five match arms of add_point and of the wrap-around loop; falls back to the pinned copy when the code no longer has that shape)",
        "modelled, not verified: quick-xml tokenising of the generated documents; the attribute parsers of <point> (x, y, type, smooth) are exercised but only the type/smooth/coordinate echo is compared",
        "u32 saturation of the off-curve counter is unreachable below 2^32 points and is modelled with Nat",
    ],
    "assumptions": [
        "the generated documents use no identifiers, names or libs, so only the builder automaton (builder.rs:73-168) and the contour plumbing of parse.rs decide acceptance",
    ],
}

MANIFEST = {
    "text": ("Theorem accepts_iff_legal: the transcription of OutlineBuilder::add_point/end_path accepts a point sequence of ANY length "
             "iff it satisfies an independent declarative legality predicate (wrap-around included); accepted contours are returned unchanged, "
             "empty ones dropped. The model is tied to the code by running Glyph::parse_raw on all sequences up to length 7/9 plus random "
             "outlines and comparing with the compiled model; the executable oracle legalB (proved equivalent to the declarative rule) is "
             "evaluated on the implementation's own verdict. In addition the automaton is REGENERATED from src/glyph/builder.rs on every run "
             "(tools/extract_contour_automaton.py translates the match arms of add_point/end_path to Lean) and source_addPoint_eq_model, "
             "source_wrap_eq_model, source_endPath_eq_model, source_accepts_iff_legal re-check the theorems against the current source."),
    "design_ref": "5 / C11, Appendix A",
    "note": "trusted: Lean kernel, the three standard axioms, the harness and driver glue, quick-xml tokenising; u32 counter modelled as Nat",
    "technique": "Lean 4 theorem (induction over the point list, iff with a declarative spec) over an automaton regenerated from the source by a translator + exhaustive-to-length-7 correspondence",
}
