CFG = {
    "lean_targets": ["Norad.Props.C12", "Norad.Props.C12Converse"],
    "audit": "Norad/Audit/C12.lean",
    "extract": "glif_parser",
    "rule": ("glif documents composed from legal building blocks (every element kind, both format versions, random element and "
             "attribute order) with each of 52 violation / variation kinds (among them: element and attribute names that only resemble a known name - namespace prefix, colon, case, a kept blank or control character - at every level and in both tag forms) injected at random applicable positions (2 per kind and base "
             "document in quick, 3 in thorough), a second independent violation on top in 1 of 12, plus text-level damage "
             "(truncation, BOM, DOCTYPE, mismatched end tag, trailing content); every document goes through Glyph::parse_raw and "
             "through quick-xml 0.37 with norad's reader configuration (events -> model). non-trivial = the document has more than "
             "3 events (the parser gets past the glyph start tag); distinct by input tokens"),
    "exhaustive": {"quick": False, "thorough": False},
    "timeout": {"quick": 900, "thorough": 7200},
    "trusted_base": COMMON_TRUST + [
        "modelled, not verified: quick-xml 0.37 tokenising (event boundaries, attribute iteration with duplicate check, unescaping, trim_text); "
        "the harness runs it with norad's configuration on the same bytes and hands the event list to the model",
        "modelled, not verified: the plist crate's verdict on the lib slice (parse error / not a dictionary / the dictionary) is an input of the model; "
        "the harness cuts the slice exactly as parse_lib does (buffer positions)",
        "Rust's str::parse::<f64> is a parameter of the model (table of the strings occurring in the document -> bits, computed by std in the harness); "
        "range tests (angle, colour) are done on the bit pattern",
        "the specification half (lean/Norad/Spec/C12.lean) was typed from memory of the UFO 3 glif specification (no offline copy); where its wording is "
        "not available (numbers like 'inf' or '+1', colour strings with blanks, smooth values other than yes/no, image names with a trailing '/', content after </glyph>) "
        "nothing is asserted (tag 'unspecified')",
    ],
    "assumptions": [
        "event lists come from the tokeniser: an element named lib always arrives as Ev.startLib with plist's verdict; an attribute list with two equal names arrives as an attribute error",
        "error kinds are not compared, only accept/reject and the returned glyph (every field, through public getters)",
        "documents that do not have the glif shape at all (stray text, unknown elements with content, ill-formed XML) are compared model vs implementation but not judged by the specification oracle (tag 'unshaped')",
    ],
}

MANIFEST = {
    "text": ("Theorems about parseGlif, the transcription of GlifParser::from_xml as a state machine over quick-xml events: every state-level rejection rule "
             "(duplicate advance/outline/lib/note/image, version gating per element and per identifier attribute, duplicate or malformed identifier across the five "
             "element kinds, unknown element/attribute, missing required attribute, guideline shape and angle range, malformed number, non-dictionary lib), "
             "returned_glyph_wellformed for every event list, attribute-order independence for all nine attribute loops and for whole documents, the format-1 anchor "
             "upgrade, legal_accepted for a generative grammar of format-2 documents (any item order, comments anywhere, any attribute order, any spelling that reads "
             "back), legal_accepted_v1 for its format-1 part, and the link from the table-driven specification: judge_clean_accepted (Spec.judge rd d = ([], false) for a document of the shape the tokeniser delivers gives parseGlif rd (Spec.flatten d) = .ok _, formats 1 and 2, under ReadsNumerals) and the converse family by family: the exact parser state after a clean prefix (CleanState: identifiers seen = identifiers of the prefix, once-only flags = which elements occurred) proved once, then judge_bad_item_rejected and its corollaries - a second advance/outline/lib/image, a second note after a note with text, an identifier used before, every non-finding rule elemCheck/itemCheck reports for a non-outline body item (missing required attribute, malformed number, angle, name, colour, code point, identifier, image name, unknown attribute/element, guideline shape, format-1 violations, lib not a dictionary), and inside the outline after clean siblings: unknown elements, every component and point rule, an illegal point sequence (not C11.Legal) - rejected; the clauses that are recorded findings are excluded by explicit lists (findingItemRules), judge_sound_and_complete itself is not reached (docs/notes/C12.md names the gap). "
             "SOURCE-LEVEL TIE: tools/extract_glif_parser.py re-reads src/glyph/parse.rs on every run (attribute names per loop, required attributes and guideline "
             "shapes, element dispatch per level, format-1 refusals, once-only guards, defaults, level error variants, comment skipping, and WHICH name each comparison reads: name() / attr.key, never local_name()); ten audited source_* theorems "
             "state that these tables are the model's (each model table is proved, for all strings, to characterise its function) and the specification's. "
             "Behavioural tie: ~20k generated documents per run through Glyph::parse_raw vs the compiled model on the quick-xml event list, plus the independent "
             "shaped-document specification (Spec/C12.lean) evaluated on the implementation's own verdict and on the returned glyph."),
    "design_ref": "5 / C12, section 4 (XML at event level), 11.8 (source-level ties), Appendix F",
    "note": "trusted: Lean kernel, quick-xml tokenising, plist's verdict on the lib slice, Rust float parsing (parameters of the model), the regex extractor in one direction only (a wrong extraction can fail a theorem or fall back to the pinned table, never make a false theorem check); eight recorded findings, one fix (comments)",
    "technique": "Lean 4 theorems (state-machine invariants, fold lemmas, generative grammar) + source-level table extraction with decide-checked ties + correspondence on generated documents with violation injection + independent specification oracle",
}
