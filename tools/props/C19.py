CFG = {
    "lean_targets": ["Norad.Props.C19"],
    "audit": "Norad/Audit/C19.lean",
    "extract": "par_sites",
    "extra_builds": {"par": ["par"]},
    "no_search": True,
    "timeout": {"quick": 1500, "thorough": 14400},
    "rule": ("generated UFO trees (2-700 glyphs, 1-4 layers sharing glyph names, names built to collide: case variants, one trailing character "
             "more or less; 0-8 components per glyph drawn mostly from 2-6 hot base names so the same names are interned from many files at once; "
             "name attributes that differ from the contents key; some trees with unparsable / missing glyph files; some with a crafted contents.plist "
             "mapping two glyphs to one file; every 5th tree carries the two legal names g711c6db79da05b78 / gdde3a1201b0b8338 whose DefaultHasher::new() "
             "values are equal, as glyph names and component bases within one layer and split across layers; every 6th tree has 5-8 layers of very different "
             "sizes with the default layer not first in layercontents.plist; half of the trees get a history of 1-30 public-API operations between load and save "
             "(insert_glyph, remove_glyph, rename_glyph, entry().or_insert, exchange / copy of whole glyphs through get_glyph_mut, half of the histories insert a pair of names that get the same file name unless the clash check works "
             "(non-ASCII capital + illegal character; the first in name order is a ~300 kB glyph), on existing / early-sorting / previously used names) applied by both builds, the dump "
             "after the history is compared as well; four trees with 33/41/49/70 layers (more than the 32-element small-sort threshold of std) and the default layer "
             "last / middle / second; six trees of 1/2/63/64/65/257 glyphs (around rayon's splitting thresholds) whose 2-3 layers hold the same names under the SAME file names and whose "
             "contents.plist values carry a directory component (../<other layer>/f, ./f) at the first / middle / last position, most of them with the whole last layer in sub/ (save outcome incl. io error kind compared between builds); "
             "four UFO 2 trees with unprefixed kerning groups named like glyphs of ANOTHER font, like dangling component bases and like "
             "own glyphs, groups and kerning after upconversion are part of the dump; every 4th tree and the UFO 2 trees are loaded after another font "
             "in the SAME process, before every repetition, in both builds) loaded, dumped and saved by the sequential build of the harness and by the rayon build "
             "(second cargo configuration of the same harness, norad/rayon) with RAYON_NUM_THREADS in {1,2,4,16}, each 20x (quick) / 500x (thorough): "
             "every dump (all layer names, glyph names, component bases, body check), saved-file listing and saved-tree hash must equal the sequential one; "
             "the sequential dump and listing are compared with the compiled model, and the executable parallel model is replayed on the same files under "
             "pseudo-random complete schedules (2 pool shapes, both return variants) and shuffled write orders. "
             "non-trivial = at least two files and some component base requested from at least two files; distinct by input tokens"),
    "exhaustive": {"quick": False, "thorough": False},
    "exhaustive_note": "real thread schedules are SAMPLED (a test); the theorems quantify over all schedules of the model",
    "explanation": ("PARTIAL by nature: level 'proof' refers to the modelled logic (two-step interning, task conservation under every schedule, "
                    "collector and write commutation). What the machine actually interleaves is sampled: pool sizes 1/2/4/16 x repetitions on every tree; "
                    "that is a test, not a proof. Memory safety of RwLock<HashSet> is rustc's guarantee (deny(unsafe_code))."),
    "trusted_base": COMMON_TRUST + [
        "the model's schedules are not the machine's: atomicity of the two lock sections of NameList::get, of HashSet::insert/get, of one glyph-file write, "
        "and rayon running each per-glyph closure to completion on one thread are assumed (std RwLock, hashbrown, rayon, rustc memory safety); "
        "real interleavings are sampled only (pool sizes 1, 2, 4, 16 x 20/500 repetitions per tree)",
        "BTreeMap as a function from keys to values whose iteration order depends on the key set only (the theorems compare layer maps as functions; "
        "the driver additionally checks the dump order against the sorted contents keys)",
        "glif parsing other than the order of interning requests (key, name attribute, component bases) is outside this model (C02/C12); "
        "the harness checks the rest of every loaded glyph against the seed it was generated from",
        "tools/extract_par_sites.py re-extracts every cfg(feature = \"rayon\") / cfg(not(..)) pair of src/**/*.rs on every run (tokeniser + brace matching; "
        "un-normalised token lists, iterated expression, shared consumer statement, mentioned shared state, error form, gathered collection, one-sided items, "
        "rayon API words); the normalisation is the Lean function ParSource.norm and part of the statement of source_par_bodies_equal_seq; a section whose anchor "
        "is missing uses tools/pinned/ParSites.lean (evidence: extraction: pinned). Trusted in one direction: a wrong extraction can fail a theorem or fall back, "
        "not make a false one check. STRICT for the two iteration sites and the inventory (a rayon-only rewrite of a paired body there fails the tie until the twin is "
        "edited alike; details that cannot be resolved are emitted as `unknown` and fail, only a missing function / file / pair falls back). SOFT for the four representation pairs of names.rs: two forms of `get` are recognised (plain; double-checked = writeStep true of the model); any "
        "other shape falls back to the pinned section unless it carries content words (static, OnceLock, HashMap, u64, Hasher ...), so a rayon-only rewrite of `get` into "
        "an unknown shape is then tied by behaviour only",
        "kerning upconversion itself is C15; here groups and kerning are compared between the two builds only (par = seq oracle), not with a model",
        "process-wide state is probed by loading ONE other font before every load and by repeating loads 20x/500x in one process; longer histories of different fonts are not generated",
        "a name table that compares hashes instead of names is exercised for ONE hash function only (DefaultHasher::new(), the colliding pair in the name pool)",
        "file names chosen by insert_glyph during a history are not predicted by this model (C07); the driver only demands one file per contents entry holding the right glyph; "
        "the par = seq oracle compares listings and tree hashes exactly",
        "which error a failing parallel load reports is schedule-dependent and outside the statement (only fail-iff-fail is compared)",
        "torn / overlapping writes to ONE file from two threads are not modelled (the model's write is atomic); they only arise under the recorded finding",
    ],
    "assumptions": [
        "contents.plist keys are pairwise distinct after parsing (BTreeMap) — hypothesis hkeys of par_load_eq_seq; the driver rejects input lines whose keys are not strictly ascending",
        "par_save_eq_seq needs the files named in contents to be pairwise distinct; trees violating it are generated on purpose and reproduce the recorded finding",
        "the trees live on tmpfs (/dev/shm) when available, otherwise in the check's scratch directory",
    ],
}

MANIFEST = {
    "text": ("Theorems about a model of names.rs and the glyph loops of layer.rs: intern_returns_equal_name / interning_never_mixes (whatever the shared set holds "
             "at the read step and at the write step of NameList::get, the name handed out has the requested text); par_load_items / par_load_eq_seq / "
             "par_load_eq_seq_sorted / par_load_fails_iff_seq_fails / par_font_eq_seq (for EVERY assignment of files to any number of workers and EVERY interleaving of their atomic steps "
             "under which all workers finish, every glyph carries its contents key and its own component bases and the collected layer maps — as functions and as "
             "key-sorted lists — equal the sequential ones, from any initial name list, layer after layer); par_save_eq_seq (file writes in any order give the sequential directory when contents names "
             "every file once) with par_save_eq_seq_counterexample for a crafted contents.plist (recorded finding, reproduced on the real crate). "
             "Source-level tie (tools/extract_par_sites.py -> Generated/ParSites.lean, every run): source_par_bodies_equal_seq (every rayon/not-rayon pair of src/ is token-equal "
             "after the normalisation ParSource.norm), source_par_sites_complete (the pairs are exactly the model's two parallel steps over `contents` plus the four "
             "representation pairs of the name table; no other pair, one-sided item or rayon API word), source_results_order_restored (BTreeMap / nothing gathered / sorted), "
             "source_shared_state_matches_model (a task mentions only `names` resp. the glyph map; errors through collect::<Result> / try_for_each), source_get_is_two_step (the rayon get has one of the two known forms: plain, or double-checked = recheck_is_writeStep_true). "
             "PARTIAL: real schedules are sampled (sequential vs rayon build of the harness, pools 1/2/4/16, 20x/500x per tree), labelled as a test."),
    "design_ref": "5 / C19",
    "note": "trusted: Lean kernel + 3 standard axioms; harness/driver glue; atomicity of lock sections and file writes, rayon, rustc memory safety; real interleavings sampled, not proved",
    "technique": "Lean 4 invariant proof over all schedules of a two-step interning model + differential runs of a sequential and a rayon build on generated trees",
}
