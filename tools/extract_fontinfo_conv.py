"""Table extraction (DESIGN.md 3.5): regenerate Lean tables from the Rust source of the checked tree.

`run(what)` is called by ./check when a property's CFG has an "extract" key.  Supported: "fontinfo_conv"
(the legacy font-info conversion tables used by C14).  The extractor reads syntactically rigid places with
regular expressions.  If an anchor is not found (a refactor moved or reshaped the code) the pinned, committed
copy (tools/pinned/) of the generated file is restored and the result says `extraction: pinned` - never an alarm.
"""
import os, re

ROOT = os.path.dirname(os.path.dirname(os.path.abspath(__file__)))
REPO = os.environ.get("VERIF_REPO", "/repo").rstrip("/") or "/repo"
GEN = os.path.join(ROOT, "lean", "Norad", "Generated")


class Anchor(Exception):
    pass


def camel(field):
    parts = field.split("_")
    return parts[0] + "".join(p[:1].upper() + p[1:] for p in parts[1:])


def struct_fields(src, name="FontInfo"):
    """[(rust field, serde key, rust type)] of `pub struct <name>`"""
    m = re.search(r"pub struct %s \{(.*?)\n\}" % name, src, flags=re.S)
    if not m:
        raise Anchor("struct " + name)
    out, rename = [], None
    for line in m.group(1).splitlines():
        line = line.strip()
        r = re.match(r'#\[serde\(rename = "([^"]+)"\)\]', line)
        if r:
            rename = r.group(1)
            continue
        f = re.match(r"pub (\w+): (.+),$", line)
        if f:
            out.append((f.group(1), rename or camel(f.group(1)), f.group(2)))
            rename = None
    if len(out) < 50:
        raise Anchor("struct fields")
    return out


CONVS = [
    ("", "id"),
    (".map(|v|v.round()asInteger)", "roundI32"),
    (".map(|v|v.round().abs()asNonNegativeInteger)", "roundAbsU32"),
    (".map(|v|NonNegativeIntegerOrFloat::new(v.abs()).unwrap())", "absNum"),
    (".map(|v|v.unsigned_abs())", "absU32"),
    (".map(Os2Panose::from)", "panoseAbs"),
]


def literal_rows(block, var, keyof):
    """rows (legacy key, v3 key, conv) of the plain `field: var.legacy[.map(..)]` entries of a struct literal"""
    flat = re.sub(r"\s+", "", block)
    starts = list(re.finditer(r"(\w+):%s\.(\w+)" % var, flat))
    rows = []
    for i, m in enumerate(starts):
        end = starts[i + 1].start() if i + 1 < len(starts) else len(flat)
        suffix = flat[m.end():end]
        # cut at the end of this entry: the first comma at parenthesis depth 0
        depth, cut = 0, len(suffix)
        for k, ch in enumerate(suffix):
            if ch in "({[":
                depth += 1
            elif ch in ")}]":
                depth -= 1
            elif ch == "," and depth == 0:
                cut = k
                break
        suffix = suffix[:cut]
        conv = dict(CONVS).get(suffix)
        if conv is None:
            raise Anchor("unknown conversion " + suffix[:60])
        if m.group(1) not in keyof:
            raise Anchor("unknown field " + m.group(1))
        rows.append((m.group(2), keyof[m.group(1)], conv))
    return rows


def match_block(block, field, var_expr):
    m = re.search(r"%s: match %s \{" % (field, re.escape(var_expr)), block)
    if not m:
        raise Anchor("match " + field)
    depth, i = 1, m.end()
    while depth and i < len(block):
        depth += {"{": 1, "}": -1}.get(block[i], 0)
        i += 1
    return block[m.end():i - 1]


def enum_values(src, name):
    m = re.search(r"pub enum %s \{(.*?)\n\}" % name, src, flags=re.S)
    if not m:
        raise Anchor("enum " + name)
    vals = dict(re.findall(r"(\w+) = (\d+),", m.group(1)))
    if not vals:
        raise Anchor("enum values " + name)
    return {k: int(v) for k, v in vals.items()}


def style_names(src):
    m = re.search(r"impl Serialize for StyleMapStyle \{(.*?)\n\}", src, flags=re.S)
    names = dict(re.findall(r'StyleMapStyle::(\w+) => serializer\.serialize_str\("([^"]+)"\)', m.group(1))) if m else {}
    if len(names) != 4:
        raise Anchor("StyleMapStyle names")
    return names


TYPES = {"IntegerOrFloat": "num", "Float": "num", "f64": "num", "Integer": "int", "NonNegativeInteger": "uint",
         "String": "str", "bool": "bool", "Vec<IntegerOrFloat>": "nums", "Bitlist": "bits",
         "Os2FamilyClass": "famclass", "Os2PanoseV2": "panose", "Os2WidthClass": "width",
         "PostscriptWindowsCharacterSet": "charset", "StyleMapStyle": "style"}


def legacy_types(src, name):
    m = re.search(r"struct %s \{(.*?)\n\}" % name, src, flags=re.S)
    if not m:
        raise Anchor("struct " + name)
    rows = []
    for f, t in re.findall(r"^\s*(\w+): Option<(.+)>,", m.group(1), flags=re.M):
        if t not in TYPES:
            raise Anchor("type " + t)
        rows.append((f, TYPES[t]))
    return rows


def lean_str(s):
    return '"' + s.replace("\\", "\\\\").replace('"', '\\"') + '"'


def fontinfo_conv():
    src = open(os.path.join(REPO, "src", "fontinfo.rs")).read()
    keyof = {f: k for f, k, _ in struct_fields(src)}
    m2 = re.search(r"FormatVersion::V2 => \{(.*?)\.\.FontInfo::default\(\)", src, flags=re.S)
    m1 = re.search(r"FormatVersion::V1 => \{(.*?)\.\.FontInfo::default\(\)", src, flags=re.S)
    if not m2 or not m1:
        raise Anchor("struct literals")
    v2 = literal_rows(m2.group(1), "fontinfo_v2", keyof)
    b1 = m1.group(1)
    # the four `match` entries of the v1 literal are tables of their own; remove them before reading the plain rows
    weight = match_block(b1, "open_type_os2_weight_class", "fontinfo_v1.weightValue")
    width = match_block(b1, "open_type_os2_width_class", "fontinfo_v1.widthName")
    charset = match_block(b1, "postscript_windows_character_set", "fontinfo_v1.msCharSet")
    style = match_block(b1, "style_map_style_name", "fontinfo_v1.fontStyle")
    plain = b1
    for blk in (weight, width, charset, style):
        plain = plain.replace(blk, "")
    plain = re.sub(r"\w+: match fontinfo_v1\.\w+ \{\},", "", plain)
    v1 = literal_rows(plain, "fontinfo_v1", keyof)
    v1 += [("weightValue", keyof["open_type_os2_weight_class"], "weight"),
           ("widthName", keyof["open_type_os2_width_class"], "enumWidth"),
           ("msCharSet", keyof["postscript_windows_character_set"], "enumCharSet"),
           ("fontStyle", keyof["style_map_style_name"], "enumFontStyle")]
    # weight: which values are dropped, and what happens to the others
    dropped = [int(x) for x in re.findall(r"(-?\d+) => None", weight)]
    if "Some(v.unsigned_abs())" not in re.sub(r"\s+", "", weight):
        raise Anchor("weightValue conversion")
    wvals = enum_values(src, "Os2WidthClass")
    widths = [(n, wvals[v]) for n, v in re.findall(r'"([^"]+)" => Some\(Os2WidthClass::(\w+)\)', width)]
    cvals = enum_values(src, "PostscriptWindowsCharacterSet")
    charsets = [(int(c), cvals[v]) for c, v in
                re.findall(r"(\d+) => Some\(PostscriptWindowsCharacterSet::(\w+)\)", charset)]
    snames = style_names(src)
    styles = []
    for codes, v in re.findall(r"([\d |]+) => Some\(StyleMapStyle::(\w+)\)", style):
        for c in codes.split("|"):
            styles.append((int(c.strip()), snames[v]))
    if len(v2) < 80 or len(v1) < 30 or len(widths) < 9 or len(charsets) < 15 or len(styles) < 4:
        raise Anchor("tables too small")
    # robofab lib keys removed, hint-data field mapping (upconversion.rs)
    up = open(os.path.join(REPO, "src", "upconversion.rs")).read()
    removed = re.findall(r'lib\.remove\("(org\.robofab\.[^"]+)"\);', up)
    # the hint assignments: the statement-by-statement parse of tools/extract_robofab_conv.py (independent of the
    # name of the binder and of the order of the statements); an unknown statement is an anchor failure
    import extract_robofab_conv
    try:
        parsed = extract_robofab_conv.parse(REPO)
    except Exception as e:
        raise Anchor("robofab: %s" % e)
    if parsed.seq_error is not None:
        raise Anchor("robofab: %s" % parsed.seq_error)
    hint_rows = [(entry, attr) for entry, attr, _ in parsed.hint_rows]
    if len(removed) < 1 or len(hint_rows) < 10:
        raise Anchor("robofab")

    def table(name, rows, fmt):
        return "def %s := [\n  %s]\n" % (name, ",\n  ".join(fmt(r) for r in rows))

    out = ["import Norad.Model.FIConv",
           "/-! GENERATED by tools/extract.py from src/fontinfo.rs and src/upconversion.rs - do not edit.",
           "    A pinned copy is committed; `./check C14` regenerates it from the checked tree. -/",
           "namespace C14.Gen", "open C14", ""]
    out.append("def v2Table : List (String × String × Conv) := [\n  " +
               ",\n  ".join("(%s, %s, .%s)" % (lean_str(a), lean_str(b), c) for a, b, c in v2) + "]\n")
    out.append("def v1Table : List (String × String × Conv) := [\n  " +
               ",\n  ".join("(%s, %s, .%s)" % (lean_str(a), lean_str(b), c) for a, b, c in v1) + "]\n")
    for nm, st in (("v2Types", "FontInfoV2"), ("v1Types", "FontInfoV1")):
        out.append("def %s : List (String × Ty) := [\n  " % nm +
                   ",\n  ".join("(%s, .%s)" % (lean_str(a), b) for a, b in legacy_types(src, st)) + "]\n")
    out.append("def fontStyleCodes : List (Int × String) := [" +
               ", ".join("(%d, %s)" % (c, lean_str(n)) for c, n in styles) + "]\n")
    out.append("def charSetCodes : List (Int × Nat) := [" + ", ".join("(%d, %d)" % r for r in charsets) + "]\n")
    out.append("def widthNames : List (String × Nat) := [\n  " +
               ",\n  ".join("(%s, %d)" % (lean_str(n), v) for n, v in widths) + "]\n")
    out.append("def weightDropped : List Int := [" + ", ".join(str(d) for d in dropped) + "]\n")
    out.append("def robofabRemoved : List String := [" + ", ".join(lean_str(k) for k in removed) + "]\n")
    out.append("def hintRows : List (String × String) := [\n  " +
               ",\n  ".join("(%s, %s)" % (lean_str(a), lean_str(b)) for a, b in hint_rows) + "]\n")
    out.append("end C14.Gen\n")
    return "\n".join(out), {"v2_rows": len(v2), "v1_rows": len(v1), "width_names": len(widths),
                            "charset_codes": len(charsets), "style_codes": len(styles)}


def run(what="fontinfo_conv"):
    if what != "fontinfo_conv":
        return {"extraction": "pinned", "reason": "unknown table set " + str(what)}
    path = os.path.join(GEN, "FontInfoTables.lean")
    pinned = os.path.join(ROOT, "tools", "pinned", "FontInfoTables.lean")
    try:
        text, stats = fontinfo_conv()
    except (Anchor, OSError, KeyError, AttributeError) as e:
        # fall back to the committed, pinned table (never to whatever an earlier run left behind)
        if os.path.exists(pinned):
            ptext = open(pinned).read()
            if not os.path.exists(path) or open(path).read() != ptext:
                with open(path, "w") as f:
                    f.write(ptext)
        return {"extraction": "pinned", "reason": "anchor not found: %s" % e, "file": os.path.relpath(path, ROOT)}
    old = open(path).read() if os.path.exists(path) else None
    changed = old != text
    if changed:
        os.makedirs(GEN, exist_ok=True)
        with open(path, "w") as f:
            f.write(text)
    ptext = open(pinned).read() if os.path.exists(pinned) else None
    stats.update({"extraction": "fresh", "source": REPO, "differs_from_pinned_copy": ptext is not None and ptext != text,
                  "file": os.path.relpath(path, ROOT)})
    return stats


if __name__ == "__main__":
    import json, sys
    print(json.dumps(run(sys.argv[1] if len(sys.argv) > 1 else "fontinfo_conv"), indent=1))
