#!/usr/bin/env python3
"""C08 / C09 / C17: source-level tie for the ORDER of `Font::save_impl` and the switch wiring of `Font::load_impl`
(norad's src/font.rs).  Regenerates lean/Norad/Generated/SaveOrder.lean on every `./check C08|C09|C17` run (DESIGN 3.5).

Sections (each falls back to the committed pinned copy tools/pinned/SaveOrder.lean when one of its anchors in the
source is not found - a refactor is never an alarm; the result then says `extraction: pinned`):

  saveSteps     the recognisable steps of `fn save_impl`, in SOURCE ORDER:
                  version     `format_version != FormatVersion::V3`
                  objectlibs  `contains_key(PUBLIC_OBJECT_LIBS_KEY)`
                  groups      `validate_groups(`
                  fontinfo    `font_info.validate()`
                  force       the loop over `self.data.iter().chain(self.images.iter())`
                  wipe        `remove_dir_all`
                  mkdir       `create_dir(path)`
                  write:<file>  first `path.join(<CONST>)` of every top-level file, with the constant resolved to its
                              string value (`metainfo.plist`, ...), `write:layers` for `layer.save_with_options(`,
                              `write:data` / `write:images` for `path.join(DATA_DIR)` / `path.join(IMAGES_DIR)`
                  fs:<call>   a file-system call in a statement in front of the wipe (content, not shape: the tie
                              theorem FAILS on it)
                  return-ok   every early `return Ok(..)` of the function, at its position (the tie theorem demands
                              that there is none: a write behind it would be unreachable)
                The part of the function in front of the wipe is read STRICTLY: every top-level statement there must be
                one of the five validator shapes (whole statement, whitespace-normalised), a pure binding from the
                explicit list PURE_BINDINGS, or contain a file-system call / early return (emitted as a step).  Any
                other statement - a helper call, a reworded validator - is an UNKNOWN SHAPE: the section falls back to
                the pinned copy with the reason.  Policy: unknown shape => pinned; known shape, other content => the
                theorem fails.
  loadSwitches  for `fn load_impl`: which `request.<switch>` guards which file or directory
                (`request.lib && lib_path.exists()` with `let lib_path = path.join(LIB_FILE)`, ...,
                `request.data && path.join(DATA_DIR).exists()`), constants resolved, sorted by switch name

  saveTable     the CONDITIONS of the steps of `fn save_impl` (session 2026-09-29): every top-level statement as rows
                (guard atoms, step) in source order.  In front of the wipe the three refusal shapes
                (`if C { return Err(FontWriteError::V); }` -> ([C], refuse:V); `E.map_err(FontWriteError::V)?;` ->
                ([err:E], refuse:V); the loop over the store entries -> ([any-err:ITER], refuse:V)); behind it a small
                statement translator: `if C { .. } [else { .. }]` (the atoms C / !(C) are added to the guard of every row
                inside), `for P in IT { .. }` (ONE row `each(IT)[step;step]`), `write_xml_to_file(P, SRC, options)` and
                `close_already::fs::write(P, SRC)` (`write:<path><-<source>`), `fs::<dir call>(P).map_err(.. V ..)?`
                (`<call>:<path>!<V>`), `layer.save_with_options`, `<map>.insert(KEY.into(), v.into())`,
                `recursive_sort_plist_keys(&mut v)`, `let` (a path binding or a binding inside a block is substituted
                into its uses; a top-level value binding is a row `bind:<name>=<value>`).  Paths are spelled
                `path/<resolved constant>` / `path/data/<data_path>` / `parent(..)`.  Error mappings of writes are not
                part of a row.  Any other statement => UNKNOWN SHAPE => the section is pinned.

  layerTable    `Layer::save_with_options` of src/layer.rs with the helper it calls as `self.<helper>(path, opts)?`
                (`layerinfo_to_file_if_needed`) inlined: `create_dir(path)`, the write of contents.plist, the layer-info rows
                (an early `if C { return Ok(()); }` puts `!(C)` on every row behind it; the two `dict.insert`s with their
                conditions; the key sort; the write of layerinfo.plist), and the loop over `self.contents.iter()` (the
                non-rayon iterator) as one row `each(..)[get:..;save_glyph:path/<glyph_path>]`.  Rigid shapes: anything else
                => pinned.

The tie theorems (`source_*` in Norad/Props/C08.lean and C17.lean, by `decide`) compare these with what the MODEL does
(the order of `plan` on a probe font; which corrupt file makes `loadImpl` fail under which single-switch request).
"""
import os
import re
import sys

ROOT = os.path.dirname(os.path.dirname(os.path.abspath(__file__)))
OUT = os.path.join(ROOT, "lean", "Norad", "Generated", "SaveOrder.lean")
PINNED = os.path.join(ROOT, "tools", "pinned", "SaveOrder.lean")


class NotFound(Exception):
    pass


def strip_comments(src):
    src = re.sub(r"/\*.*?\*/", lambda m: " " * len(m.group(0)), src, flags=re.S)
    return re.sub(r"//[^\n]*", lambda m: " " * len(m.group(0)), src)


def fn_body(src, name):
    m = re.search(r"\bfn\s+" + re.escape(name) + r"\b", src)
    if not m:
        raise NotFound("fn " + name)
    i = src.find("{", m.end())
    if i < 0:
        raise NotFound("fn " + name)
    depth, j = 1, i + 1
    while depth and j < len(src):
        depth += {"{": 1, "}": -1}.get(src[j], 0)
        j += 1
    return src[i:j]


def constants(repo):
    """NAME -> string value of the `static NAME: &str = "..."` items of font.rs and layer.rs"""
    out = {}
    for fn in ("font.rs", "layer.rs"):
        try:
            text = strip_comments(open(os.path.join(repo, "src", fn)).read())
        except OSError:
            continue
        for m in re.finditer(r'\b(?:static|const)\s+([A-Z_]+)\s*:\s*&(?:\'static\s+)?str\s*=\s*"([^"\\]*)"\s*;', text):
            out.setdefault(m.group(1), m.group(2))
    return out


def const_value(consts, name):
    if name not in consts:
        raise NotFound("constant " + name)
    return consts[name]


def lean_list(words):
    return "[" + ", ".join('"%s".toList' % w for w in words) + "]"


def statements(body):
    """top-level statements of a `{ ... }` function body: (start offset, text) with whitespace collapsed"""
    assert body[0] == "{"
    out, depth, par, start, i, n = [], 0, 0, 1, 1, len(body) - 1
    while i < n:
        c = body[i]
        if c in "([":
            par += 1
        elif c in ")]":
            par -= 1
        elif c == "{":
            depth += 1
        elif c == "}":
            depth -= 1
            if depth == 0 and par == 0:
                rest = body[i + 1:n].lstrip()
                if not (rest.startswith("else") or rest[:1] in (";", ".", "?")):
                    out.append((start, body[start:i + 1]))
                    start = i + 1
        elif c == ";" and depth == 0 and par == 0:
            out.append((start, body[start:i + 1]))
            start = i + 1
        i += 1
    tail = body[start:n]
    if tail.strip():
        out.append((start, tail))
    res = []
    for off, text in out:
        lead = len(text) - len(text.lstrip())
        res.append((off + lead, re.sub(r"\s+", " ", text).strip()))
    return res


# whole-statement shapes of the five validation steps (whitespace-normalised source text)
VALIDATOR_SHAPES = [
    ("version", r"if self\.meta\.format_version != FormatVersion::V3 \{ return Err\(FontWriteError::Downgrade\); \}"),
    ("objectlibs", r"if self\.lib\.contains_key\(PUBLIC_OBJECT_LIBS_KEY\) \{ return Err\(FontWriteError::PreexistingPublicObjectLibsKey\); \}"),
    ("groups", r"validate_groups\(&self\.groups\)\.map_err\(FontWriteError::InvalidGroups\)\?;"),
    ("fontinfo", r"self\.font_info\.validate\(\)\.map_err\(FontWriteError::InvalidFontInfo\)\?;"),
    ("force", r"for \(path, entry\) in self\.data\.iter\(\)\.chain\(self\.images\.iter\(\)\) \{ if let Err\(source\) = entry "
              r"\{ return Err\(FontWriteError::InvalidStoreEntry \{ path: path\.clone\(\), source \}\); \};? \}"),
]
# statements in front of the wipe that are known to have no effect
PURE_BINDINGS = [r"let path = path\.as_ref\(\);", r"let options = &?\w+;"]
FS_CALLS = r"\b(remove_dir_all|remove_dir|remove_file|create_dir_all|create_dir|rename|copy|write_xml_to_file|set_permissions)\s*\(|\bfs::write\s*\(|\bFile::create\s*\("


SAVE_FILES = ["METAINFO_FILE", "FONTINFO_FILE", "LIB_FILE", "GROUPS_FILE", "KERNING_FILE", "FEATURES_FILE",
              "LAYER_CONTENTS_FILE"]


def sec_save_steps(src, consts):
    body = fn_body(src, "save_impl")
    anchors = [
        ("version", r"format_version\s*!=\s*FormatVersion::V3"),
        ("objectlibs", r"contains_key\(\s*PUBLIC_OBJECT_LIBS_KEY\s*\)"),
        ("groups", r"\bvalidate_groups\s*\("),
        ("fontinfo", r"font_info\s*\.\s*validate\s*\(\s*\)"),
        ("force", r"self\s*\.\s*data\s*\.\s*iter\(\)\s*\.\s*chain\(\s*self\s*\.\s*images\s*\.\s*iter\(\)\s*\)"),
        ("wipe", r"\bremove_dir_all\s*\("),
        ("mkdir", r"\bcreate_dir\s*\(\s*path\s*\)"),
        ("write:layers", r"\blayer\s*\.\s*save_with_options\s*\("),
        ("write:" + const_value(consts, "DATA_DIR"), r"path\s*\.\s*join\(\s*DATA_DIR\s*\)"),
        ("write:" + const_value(consts, "IMAGES_DIR"), r"path\s*\.\s*join\(\s*IMAGES_DIR\s*\)"),
    ]
    for c in SAVE_FILES:
        anchors.append(("write:" + const_value(consts, c), r"path\s*\.\s*join\(\s*" + c + r"\s*\)"))
    found = []
    for label, pat in anchors:
        m = re.search(pat, body)
        if not m:
            raise NotFound("save_impl step " + label)
        found.append((m.start(), label))
    # strict reading of everything in front of the wipe
    stmts = statements(body)
    wipe_at = next((k for k, (_, t) in enumerate(stmts) if "remove_dir_all" in t), None)
    if wipe_at is None:
        raise NotFound("save_impl: top-level statement with remove_dir_all")
    known = {l: off for off, l in found}
    for off, text in stmts[:wipe_at]:
        if any(re.fullmatch(shape, text) for _, shape in VALIDATOR_SHAPES):
            continue
        if any(re.fullmatch(b, text) for b in PURE_BINDINGS):
            continue
        m = re.search(FS_CALLS, text)
        if m:
            call = re.sub(r"[^A-Za-z_:]", "", m.group(0))
            found.append((off, "fs:" + call))
            continue
        if re.search(r"\breturn\s+Ok\s*\(", text):
            continue  # emitted below, with every other early return
        raise NotFound("save_impl: statement of unknown shape in front of the wipe: " + text[:70])
    # every validator anchor in front of the wipe must sit in a statement of its known shape (checked above); early
    # returns anywhere in the function are steps
    for m in re.finditer(r"\breturn\s+Ok\s*\(", body):
        found.append((m.start(), "return-ok"))
    del known
    found.sort()
    steps = [l for _, l in found]
    return ("/-- the recognisable steps of `Font::save_impl`, in source order -/\n"
            "def saveSteps : List (List Char) :=\n  " + lean_list(steps) + "\n")


SWITCHES = ["lib", "groups", "kerning", "features", "data", "images"]


def sec_load_switches(src, consts):
    body = fn_body(src, "load_impl")
    paths = {m.group(1): m.group(2) for m in
             re.finditer(r"\blet\s+(\w+)\s*=\s*path\s*\.\s*join\(\s*([A-Z_]+)\s*\)\s*;", body)}
    table = {}
    for m in re.finditer(r"\brequest\s*\.\s*(\w+)\s*&&\s*(\w+)\s*\.\s*exists\(\)", body):
        sw, var = m.group(1), m.group(2)
        if var not in paths:
            raise NotFound("path variable " + var)
        table.setdefault(sw, set()).add(const_value(consts, paths[var]))
    for m in re.finditer(r"\brequest\s*\.\s*(\w+)\s*&&\s*path\s*\.\s*join\(\s*([A-Z_]+)\s*\)\s*\.\s*exists\(\)", body):
        table.setdefault(m.group(1), set()).add(const_value(consts, m.group(2)))
    if sorted(table) != sorted(SWITCHES) or any(len(v) != 1 for v in table.values()):
        raise NotFound("switch guards of load_impl (found %s)" % sorted(table))
    pairs = [(sw, next(iter(table[sw]))) for sw in sorted(table)]
    return ("/-- which `request.<switch>` guards which file or directory in `Font::load_impl`, sorted by switch -/\n"
            "def loadSwitches : List (List Char × List Char) :=\n  [" +
            ", ".join('("%s".toList, "%s".toList)' % p for p in pairs) + "]\n")


# ---------------------------------------------------------------------------------------------------------------------
# saveTable: the CONDITIONS of the steps of `save_impl` - every top-level statement as rows (guard atoms, step)

def norm(text):
    """whitespace-free spelling of a Rust expression (blanks stay only between two word characters)"""
    text = re.sub(r"\s+", " ", text.strip())
    text = re.sub(r"\s*([^\w\s])\s*", r"\1", text)
    return text


def split_block(text):
    """`{ a; b }` (whitespace-normalised) -> the statements inside"""
    text = text.strip()
    if not (text.startswith("{") and text.endswith("}")):
        raise NotFound("block: " + text[:40])
    return [t for _, t in statements(text)]


def cut_if(text):
    """`if C { A } [else { B }]` -> (C, A, B or None); C may not contain braces"""
    m = re.match(r"if (?!let\b)([^{}]+?) \{", text)
    if not m:
        return None
    i = m.end() - 1
    depth, j = 1, i + 1
    while depth and j < len(text):
        depth += {"{": 1, "}": -1}.get(text[j], 0)
        j += 1
    a, rest = text[i:j], text[j:].strip()
    if not rest:
        return m.group(1), a, None
    if rest.startswith("else {") and rest.endswith("}"):
        b = rest[len("else "):]
        if cut_balanced(b) == len(b):
            return m.group(1), a, b
    raise NotFound("if statement: " + text[:60])


def cut_balanced(text):
    depth, j = 1, 1
    while depth and j < len(text):
        depth += {"{": 1, "}": -1}.get(text[j], 0)
        j += 1
    return j


class TableCtx:
    def __init__(self, consts):
        self.consts, self.env = consts, {}

    def value(self, expr):
        """normalised spelling of a value: references and derefs dropped, local bindings of blocks substituted,
        messages of `expect` dropped"""
        e = norm(expr)
        e = re.sub(r"^&\*?|^\*", "", e)
        for _ in range(6):
            m = re.fullmatch(r"[a-z_]\w*", e)
            if m and e in self.env:
                e = self.env[e]
            else:
                break
        e = re.sub(r'\.expect\("[^"]*"\)', ".expect()", e)
        e = re.sub(r"(?<![\w.])&", "", e)
        return e

    def path(self, expr):
        """`path.join(CONST)` -> `path/<value>`; `X.join(y)` -> `<X>/<y>`; `X.parent().unwrap()` -> `parent(<X>)`"""
        e = norm(expr)
        e = re.sub(r"^&", "", e)
        if e == "path":
            return "path"
        m = re.fullmatch(r"([a-z_]\w*)\.clone\(\)", e)
        if m:
            e = m.group(1)
        if re.fullmatch(r"[a-z_]\w*", e):
            if e in self.env:
                return self.env[e]
            raise NotFound("path variable " + e)
        m = re.fullmatch(r"(.+)\.parent\(\)\.unwrap\(\)", e)
        if m:
            return "parent(" + self.path(m.group(1)) + ")"
        m = re.fullmatch(r"(.+?)\.join\(&?([\w.]+)\)", e)
        if m:
            base, arg = self.path(m.group(1)), m.group(2)
            if re.fullmatch(r"[A-Z_]+", arg):
                return base + "/" + const_value(self.consts, arg)
            return base + "/<" + arg + ">"
        raise NotFound("path expression " + e)


PATH_RHS = r"(?:&?[\w.]+\.join\(&?[\w.]+\)|[\w.]+\.parent\(\)\.unwrap\(\))"


def table_rows(stmts, guard, cx, top):
    """rows of a statement list under the guard atoms `guard`"""
    rows = []
    for text in stmts:
        text = text.strip()
        if text in ("", ";"):
            continue
        # let bindings
        m = re.fullmatch(r"let (mut )?(\w+)(?: ?: ?[^=]+?)? = (.+);", text)
        if m:
            name, rhs = m.group(2), m.group(3)
            if re.fullmatch(PATH_RHS, norm(rhs)):
                cx.env[name] = cx.path(rhs)
            elif top and not guard:
                rows.append((guard, "bind:%s=%s" % (name, cx.value(rhs))))
            else:
                cx.env[name] = cx.value(rhs)
            continue
        # if / if-else
        c = cut_if(text)
        if c:
            cond, a, b = c
            rows += table_rows(split_block(a), guard + [norm(cond)], cx, False)
            if b is not None:
                rows += table_rows(split_block(b), guard + ["!(" + norm(cond) + ")"], cx, False)
            continue
        # for loops: one row, the body's steps in order
        m = re.fullmatch(r"for (.+?) in ([^{}]+?) (\{.*\})", text)
        if m:
            saved = dict(cx.env)
            inner = table_rows(split_block(m.group(3)), [], cx, False)
            cx.env = saved
            if any(g for g, _ in inner):
                raise NotFound("condition inside a loop of save_impl")
            rows.append((guard, "each(%s)[%s]" % (norm(m.group(2)), ";".join(st for _, st in inner))))
            continue
        # writes
        m = re.fullmatch(r"write::write_xml_to_file\((.+?), (.+?), options\) ?\.map_err\(.*\)\?;", text)
        if m:
            rows.append((guard, "write:%s<-%s" % (cx.path(m.group(1)), cx.value(m.group(2)))))
            continue
        m = re.fullmatch(r"close_already::fs::write\((.+?), (.+)\) ?\.map_err\(.*\)\?;", text)
        if m and ".map_err" not in m.group(2):
            rows.append((guard, "write:%s<-%s" % (cx.path(m.group(1)), cx.value(m.group(2)))))
            continue
        # directory calls: the error variant is kept (it names the step)
        m = re.fullmatch(r"(?:std::)?fs::(remove_dir_all|create_dir_all|create_dir|remove_dir|remove_file)\((.+?)\) ?"
                         r"\.map_err\((.*)\)\?;", text)
        if m:
            v = re.search(r"FontWriteError::(\w+)", m.group(3))
            rows.append((guard, "%s:%s!%s" % (m.group(1), cx.path(m.group(2)), v.group(1) if v else "?")))
            continue
        m = re.fullmatch(r"layer\.save_with_options\((.+?), options\) ?\.map_err\(.*\)\?;", text)
        if m:
            rows.append((guard, "save_layer:" + cx.path(m.group(1))))
            continue
        m = re.fullmatch(r"(\w+)\.insert\(([A-Z_]+)\.into\(\), (\w+)\.into\(\)\);", text)
        if m:
            rows.append((guard, "insert:%s[%s]=%s" % (m.group(1), const_value(cx.consts, m.group(2)), m.group(3))))
            continue
        m = re.fullmatch(r"(?:crate::)?util::recursive_sort_plist_keys\(&mut (\w+)\);", text)
        if m:
            rows.append((guard, "sort-keys:" + m.group(1)))
            continue
        raise NotFound("save_impl: statement of unknown shape behind the validators: " + text[:70])
    return rows


def lean_str(x):
    return '"%s".toList' % x.replace("\\", "\\\\").replace('"', '\\"')


def sec_save_table(src, consts):
    consts = dict(consts)
    try:
        shared = strip_comments(open(os.path.join(os.environ.get("VERIF_REPO", "/repo").rstrip("/") or "/repo",
                                                  "src", "shared_types.rs")).read())
        for m in re.finditer(r'\b(?:static|const)\s+([A-Z_]+)\s*:\s*&(?:\'static\s+)?str\s*=\s*"([^"\\]*)"\s*;', shared):
            consts.setdefault(m.group(1), m.group(2))
    except OSError:
        pass
    body = fn_body(src, "save_impl")
    stmts = [t for _, t in statements(body)]
    if not stmts or norm(stmts[-1]) != "Ok(())":
        raise NotFound("save_impl does not end in Ok(())")
    stmts = stmts[:-1]
    wipe_at = next((k for k, t in enumerate(stmts) if "remove_dir_all" in t), None)
    if wipe_at is None:
        raise NotFound("save_impl: top-level statement with remove_dir_all")
    rows = []
    # in front of the wipe: the three refusal shapes, pure bindings, or (content) a file-system call / early return
    for text in stmts[:wipe_at]:
        if any(re.fullmatch(b, text) for b in PURE_BINDINGS):
            continue
        m = re.fullmatch(r"if (?!let\b)([^{}]+?) \{ return Err\(FontWriteError::(\w+)\); \}", text)
        if m:
            rows.append(([norm(m.group(1))], "refuse:" + m.group(2)))
            continue
        m = re.fullmatch(r"(.+?) ?\.map_err\(FontWriteError::(\w+)\)\?;", text)
        if m and not re.search(FS_CALLS, text):
            rows.append((["err:" + norm(m.group(1))], "refuse:" + m.group(2)))
            continue
        m = re.fullmatch(r"for \(path, entry\) in ([^{}]+?) \{ if let Err\(source\) = entry "
                         r"\{ return Err\(FontWriteError::(\w+) \{ path: path\.clone\(\), source \}\); \};? \}", text)
        if m:
            rows.append((["any-err:" + norm(m.group(1))], "refuse:" + m.group(2)))
            continue
        m = re.search(FS_CALLS, text)
        if m:
            rows.append(([], "fs:" + re.sub(r"[^A-Za-z_:]", "", m.group(0))))
            continue
        if re.search(r"\breturn\s+Ok\s*\(", text):
            rows.append(([], "return-ok"))
            continue
        raise NotFound("save_impl: statement of unknown shape in front of the wipe: " + text[:70])
    cx = TableCtx(consts)
    rows += table_rows(stmts[wipe_at:], [], cx, True)
    if re.search(r"\breturn\s+Ok\s*\(", " ".join(stmts[wipe_at:])):
        rows.append(([], "return-ok"))
    lines = ["  ([%s], %s)" % (", ".join(lean_str(a) for a in g), lean_str(st)) for g, st in rows]
    return ("/-- every top-level statement of `Font::save_impl` as rows (guard atoms - all must hold -, step), in source order -/\n"
            "def saveTable : List (List (List Char) × List Char) := [\n" + ",\n".join(lines) + "]\n")


# ---------------------------------------------------------------------------------------------------------------------
# layerTable: `Layer::save_with_options` with `layerinfo_to_file_if_needed` inlined, as rows (guard atoms, step)

def layer_consts(repo_src):
    out = {}
    for m in re.finditer(r'\b(?:static|const)\s+([A-Z_]+)\s*:\s*&(?:\'static\s+)?str\s*=\s*"([^"\\]*)"\s*;', repo_src):
        out.setdefault(m.group(1), m.group(2))
    return out


def layer_stmt_rows(text, guard, consts, info_fn):
    """rows of one statement of the two layer functions (shapes as on the pinned tree; anything else: unknown shape)"""
    m = re.fullmatch(r"(?:std::)?fs::(create_dir_all|create_dir)\(path\) ?\.map_err\(LayerWriteError::(\w+)\)\?;", text)
    if m:
        return [(guard, "%s:path!%s" % (m.group(1), m.group(2)))]
    m = re.fullmatch(r"(?:crate::)?write::write_xml_to_file\(&path\.join\(([A-Z_]+)\), &([\w.]+), \w+\) ?"
                     r"\.map_err\(LayerWriteError::(\w+)\)\??;?", text)
    if m:
        return [(guard, "write:path/%s<-%s" % (const_value(consts, m.group(1)), m.group(2)))]
    m = re.fullmatch(r"self\.(\w+)\(path, \w+\)\?;", text)
    if m and info_fn is not None and m.group(1) == info_fn[0]:
        rows, g = [], list(guard)
        for t in info_fn[1]:
            e = re.fullmatch(r"if (?!let\b)([^{}]+?) \{ return Ok\(\(\)\); \}", t)
            if e:
                g = g + ["!(" + norm(e.group(1)) + ")"]          # everything behind an early return runs under its negation
                continue
            rows += layer_stmt_rows(t, g, consts, None)
        return rows
    if re.fullmatch(r"let mut (\w+) = (?:plist::)?(?:dictionary::)?Dictionary::new\(\);", text):
        return []                                                  # the local the layer info is collected in
    m = re.fullmatch(r'if let Some\((\w+)\) = &?(self\.\w+) \{ (\w+)\.insert\("(\w+)"\.into\(\), \1\.\w+\(\)\.into\(\)\); \}', text)
    if m:
        return [(guard + ["some:" + m.group(2)], "insert:%s[%s]" % (m.group(3), m.group(4)))]
    m = re.fullmatch(r'if ([^{}]+?) \{ (\w+)\.insert\("(\w+)"\.into\(\), (self\.\w+)\.clone\(\)\.into\(\)\); \}', text)
    if m:
        return [(guard + [norm(m.group(1))], "insert:%s[%s]=%s" % (m.group(2), m.group(3), m.group(4)))]
    m = re.fullmatch(r"(?:crate::)?util::recursive_sort_plist_keys\(&mut (\w+)\);", text)
    if m:
        return [(guard, "sort-keys:" + m.group(1))]
    raise NotFound("layer save: statement of unknown shape: " + text[:70])


def sec_layer_table(src_font, consts_font):
    repo = os.environ.get("VERIF_REPO", "/repo").rstrip("/") or "/repo"
    src = strip_comments(open(os.path.join(repo, "src", "layer.rs")).read())
    consts = layer_consts(src)
    main = [t for _, t in statements(fn_body(src, "save_with_options"))]
    # the helper that is called with `(path, opts)?`
    helper = None
    for t in main:
        m = re.fullmatch(r"self\.(\w+)\(path, \w+\)\?;", t)
        if m:
            helper = (m.group(1), [x for _, x in statements(fn_body(src, m.group(1)))])
    rows, k = [], 0
    while k < len(main):
        t = main[k]
        # the iterator over `contents`: the sequential one is what the harness is built with
        if re.fullmatch(r'#\[cfg\(feature = "rayon"\)\] let iter = self\.contents\.par_iter\(\);', t):
            k += 1
            continue
        m = re.fullmatch(r'#\[cfg\(not\(feature = "rayon"\)\)\] let mut iter = (self\.\w+\.iter\(\));', t)
        if m:
            it = m.group(1)
            k += 1
            t2 = main[k] if k < len(main) else ""
            m2 = re.fullmatch(r"iter\.try_for_each\(\|\((\w+), (\w+)\)\| \{ let (\w+) = (self\.\w+)\.get\(\1\)\.expect\(\"[^\"]*\"\); "
                              r"let \2 = path\.join\(\2\); \3\.save_with_options\(&\2, \w+\)\.map_err\(.*\) \}\)", t2)
            if not m2 or k != len(main) - 1:
                raise NotFound("layer save: the loop over contents")
            rows.append(([], "each(%s)[get:%s[%s].expect();save_glyph:path/<%s>]" % (it, m2.group(4), m2.group(1), m2.group(2))))
            k += 1
            continue
        rows += layer_stmt_rows(t, [], consts, helper)
        k += 1
    lines = ["  ([%s], %s)" % (", ".join(lean_str(a) for a in g), lean_str(st)) for g, st in rows]
    return ("/-- `Layer::save_with_options` (its layer-info helper inlined) as rows (guard atoms, step), in source order -/\n"
            "def layerTable : List (List (List Char) × List Char) := [\n" + ",\n".join(lines) + "]\n")


SECTIONS = [("saveSteps", sec_save_steps), ("loadSwitches", sec_load_switches), ("saveTable", sec_save_table), ("layerTable", sec_layer_table)]

HEADER = """/-!
GENERATED by tools/extract_save_order.py from norad's src/font.rs on every `./check C08|C09|C17` run.  Do not edit.
A pinned copy of every section lives in tools/pinned/SaveOrder.lean and is used for a section whose anchors in the
source are not all found (a refactor is not an alarm).  Core Lean only.
-/
namespace Generated.SaveOrder

"""


def split_sections(text):
    out = {}
    for m in re.finditer(r"-- BEGIN (\w+)\n(.*?)-- END \1\n", text, flags=re.S):
        out[m.group(1)] = m.group(2)
    return out


def generate(repo):
    pinned = split_sections(open(PINNED).read()) if os.path.exists(PINNED) else {}
    try:
        src = strip_comments(open(os.path.join(repo, "src", "font.rs")).read())
        err = None
    except OSError as ex:
        src, err = None, ex
    consts = constants(repo)
    parts, fell_back = [], []
    for name, f in SECTIONS:
        try:
            if src is None:
                raise NotFound(str(err))
            body = f(src, consts)
        except (NotFound, IndexError, ValueError) as ex:
            if name not in pinned:
                raise
            body = pinned[name]
            fell_back.append("%s (%s)" % (name, ex))
        parts.append("-- BEGIN %s\n%s-- END %s\n" % (name, body, name))
    return HEADER + "\n".join(parts) + "\nend Generated.SaveOrder\n", fell_back


def run():
    repo = os.environ.get("VERIF_REPO", "/repo").rstrip("/") or "/repo"
    text, fell_back = generate(repo)
    old = open(OUT).read() if os.path.exists(OUT) else None
    if old != text:
        with open(OUT, "w") as f:
            f.write(text)
    ptext = open(PINNED).read() if os.path.exists(PINNED) else None
    return {"extraction": "pinned" if fell_back else "full", "pinned_sections": fell_back, "source": repo,
            "changed_since_last_run": old != text, "differs_from_pinned_copy": ptext is not None and ptext != text,
            "table": os.path.relpath(OUT, ROOT)}


if __name__ == "__main__":
    r = run()
    print(r)
    if len(sys.argv) > 1 and sys.argv[1] == "--pin":
        import shutil
        os.makedirs(os.path.dirname(PINNED), exist_ok=True)
        shutil.copy(OUT, PINNED)
        print("pinned")
