#!/usr/bin/env python3
"""Resolve git conflict markers by keeping both sides (ours first). For the additive registry files."""
import sys, re
for p in sys.argv[1:]:
    s = open(p).read()
    out, i = [], 0
    lines = s.split("\n")
    state = None
    for l in lines:
        if l.startswith("<<<<<<< "):
            state = "ours"; continue
        if l.startswith("||||||| "):
            state = "base"; continue
        if l.startswith("=======") and state in ("ours", "base"):
            state = "theirs"; continue
        if l.startswith(">>>>>>> ") and state == "theirs":
            state = None; continue
        if state == "base":
            continue
        out.append(l)
    open(p, "w").write("\n".join(out))
    print("resolved", p)
