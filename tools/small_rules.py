"""Which laws of the small types (SMALL stream: harness/src/small.rs, lean/Driver/Small.lean, lean/Norad/Model/Small.lean)
each property's theorems assume: fnmatch patterns on the rule names `small:<type>:<law>`.  `check` runs the stream for every
property listed here and keeps only the matching rules (DESIGN.md 11.9)."""
RULES = {
    # round trips: what is written is what was held, and comes back
    "C01": ["small:codepoints:*", "small:color:*", "small:name:not-verbatim", "small:ident:not-verbatim", "small:image:*"],
    "C02": ["small:color:*", "small:codepoints:*", "small:writeoptions:*", "small:ident:not-verbatim", "small:name:not-verbatim",
            "small:image:*", "small:pointtype:*"],
    "C04": ["small:codepoints:*", "small:name:constructors-disagree", "small:name:valid-set", "small:ident:constructors-disagree"],
    "C05": ["small:image:*", "small:name:valid-set", "small:pointtype:*", "small:ident:valid-set"],
    # containers: BTreeMap<Name, _> / HashSet<Name> searched through Borrow<str>; names are what Name::new lets in
    "C06": ["small:name:ord-hash-borrow", "small:name:valid-set", "small:name:constructors-disagree"],
    "C07": ["small:name:*"],
    # refused-before-wipe: the serialisers (run after the wipe) must accept what the validators (run before) accepted
    "C08": ["small:guideline:*", "small:ident:not-verbatim", "small:ident:constructors-disagree"],
    # determinism: equality, hashing and ordering agree with the text on every hash seed
    "C10": ["small:ident:eq-hash", "small:name:ord-hash-borrow"],
    # acceptance: identifiers are compared exactly, names and point types are what the grammar says
    "C11": ["small:ident:eq-hash", "small:ident:valid-set", "small:name:valid-set", "small:pointtype:*"],
    "C12": ["small:ident:*", "small:name:valid-set", "small:name:constructors-disagree", "small:image:*", "small:guideline:*",
            "small:color:*", "small:pointtype:*"],
    "C13": ["small:ident:*", "small:color:*", "small:guideline:*"],
    "C15": ["small:name:*"],
    "C18": ["small:name:*"],
    "C19": ["small:name:ord-hash-borrow"],
}
