"""Per-property configuration of ./check: one file tools/props/Cxx.py per property, each defining
CFG (what to build, generate and trust) and MANIFEST (the claim made in MANIFEST.json)."""
import importlib.util, os

COMMON_TRUST = [
    "Lean 4.33.0 kernel (thorough tier: also leanchecker); axioms limited to propext, Classical.choice, Quot.sound (audited with #print axioms on every run)",
    "Lean compiler/runtime for the driver executable (runs the same definitions the theorems are about, compiled)",
    "the hand-written model is tied to /repo only by the correspondence check: Rust harness (public API of the crate at /repo's working tree, rebuilt by cargo on every run) vs compiled Lean driver on the same protocol lines",
    "harness observation code (public getters), ./check and the protocol canonicalisation",
]

PROPS = {}
MANIFESTS = {}
_d = os.path.join(os.path.dirname(os.path.abspath(__file__)), "props")
for _fn in sorted(os.listdir(_d)):
    if _fn.endswith(".py") and _fn[0] == "C":
        _spec = importlib.util.spec_from_file_location("props_" + _fn[:-3], os.path.join(_d, _fn))
        _m = importlib.util.module_from_spec(_spec)
        _m.COMMON_TRUST = COMMON_TRUST
        _spec.loader.exec_module(_m)
        PROPS[_fn[:-3]] = _m.CFG
        MANIFESTS[_fn[:-3]] = _m.MANIFEST
