"""Per-property configuration of ./check (what to build, what to generate, what is trusted)."""

COMMON_TRUST = [
    "Lean 4.33.0 kernel (thorough tier: also leanchecker); axioms limited to propext, Classical.choice, Quot.sound (audited with #print axioms on every run)",
    "Lean compiler/runtime for the driver executable (runs the same definitions the theorems are about, compiled)",
    "the hand-written model is tied to /repo only by the correspondence check: Rust harness (public API of the crate at /repo's working tree, rebuilt by cargo on every run) vs compiled Lean driver on the same protocol lines",
    "harness observation code (public getters), ./check and the protocol canonicalisation",
]

PROPS = {
    "C11": {
        "lean_targets": ["Norad.Props.C11"],
        "audit": "Norad/Audit/C11.lean",
        "rule": ("all sequences over {move,line,offcurve,curve,qcurve} up to length 7 (quick) / 9 (thorough), format 2; "
                 "up to length 5 also format 1 and every single-position smooth variant; plus random outlines of 1-4 "
                 "contours (lengths up to 60, random smooth flags, empty contours) through Glyph::parse_raw. "
                 "non-trivial = some contour has >= 2 points (exercises a transition of the automaton); distinct by input tokens"),
        "exhaustive": {"quick": True, "thorough": True},
        "exhaustive_note": "point-type sequences up to length 7 (quick) / 9 (thorough) are enumerated completely; the random part is not exhaustive",
        "trusted_base": COMMON_TRUST + [
            "modelled, not verified: quick-xml tokenising of the generated documents; the attribute parsers of <point> (x, y, type, smooth) are exercised but only the type/smooth/coordinate echo is compared",
            "u32 saturation of the off-curve counter is unreachable below 2^32 points and is modelled with Nat",
        ],
        "assumptions": [
            "the generated documents use no identifiers, names or libs, so only the builder automaton (builder.rs:73-168) and the contour plumbing of parse.rs decide acceptance",
        ],
    },
}
