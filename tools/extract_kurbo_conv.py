"""Translator for the kurbo conversion (C20): regenerates lean/Norad/Generated/KurboConv.lean from
`Contour::is_closed`, `Contour::to_kurbo`, `ContourPoint::transform` and the two `From` impls between
`AffineTransform` and `kurbo::Affine` in src/glyph/mod.rs of the tree under check (VERIF_REPO, default /repo), plus
`impl Mul<Point> for Affine` of the vendored kurbo the tree's Cargo.lock names.

What is translated (everything that is match-shaped or a straight-line expression):
  * `is_closed`                     first().is_none_or(|v| v.typ != PointType::X)            -> Gen.isClosed
  * start-point selection           iter().rev().position(|pt| pt.typ != PointType::X).map(|idx| len - K - idx)
                                    (or iter().rposition(..))                                 -> Gen.rotateIdx
  * the two walks                   iter().cycle().skip(S).take(len [+ K])                    -> Gen.toKurbo
  * the off-curve-only block        move_to(A.midpoint(B)); for (pt, next) in zip(points, points.cycle().skip(K))
                                    { quad_to(pt, pt.midpoint(next)) }  (absent on an unrepaired tree) -> Gen.allOffPath
  * `if let Some(start) = points.next() { path.M(start) }`                                    -> Gen.drawWalk
  * the five arms of `match pt.typ`: which path element, push_back / clear of the queue        -> Gen.go
  * the slice-pattern arms of the Curve arm ([] / [p1] / [p1, p2] / _ and the error returned)  -> Gen.curveArm
  * the QCurve arm: the `is_empty` test, the `while let Some(pt) = offs.pop_front()` loop with its
    `if let Some(next) = offs.front()` branches and the midpoint expression                    -> Gen.qcurveArm / qcurveLoop
  * every `close_path` call inside `to_kurbo`                                                  -> Gen.emitsClose
  * `transform`: the two expressions, evaluated statement by statement (an assignment to self.x is visible to
    later statements), structure of + and * preserved (no re-association), in BOTH build variants: statements
    under #[cfg(feature = "kurbo")] / #[cfg(not(feature = "kurbo"))] are taken for the respective variant; a
    delegation `kurbo::Affine::from(transform) * self.to_kurbo()` becomes `kApply (toK t) x y`
                                                                   -> Gen.transform (kurbo build), Gen.transformPlain (default build)
  * early returns at the top of `transform` (`if <cond> { return; }`): the condition is translated — a predicate method
    such as `transform.is_identity()` by reading ITS body from the source (`(self.f - identity.f).abs() < f64::EPSILON`,
    `self.f == 1.0`, `*self == Self::identity()`, …, with `identity()`'s literals) — over abstract numeric operations
    (`C20.Num`) into `Gen.transformGuard`, and `Gen.transform` becomes `if guard then (x, y) else (formula)`; the number
    of guards is `Gen.transformGuards` (0 for the code the model describes)
  * NO statement of a translated body is ever skipped: anything unrecognised raises Anchor -> pinned copy
  * the coefficient order of both conversions                                                 -> Gen.toK / Gen.ofK
  * kurbo's `Affine * Point` expressions                                                      -> Gen.kApply

Props/C20.lean proves `source_*_eq_model`: the regenerated definitions ARE the hand-written model's, so every C20
theorem is re-checked against the source as it is now.  If the code no longer has this shape (a refactor) the pinned
copy is used and the run reports `extraction: pinned` — never an alarm.
"""
import glob, os, re, sys

ROOT = os.path.dirname(os.path.dirname(os.path.abspath(__file__)))
REPO = os.environ.get("VERIF_REPO", "/repo").rstrip("/") or "/repo"
GEN = os.path.join(ROOT, "lean", "Norad", "Generated", "KurboConv.lean")
PINNED = os.path.join(ROOT, "tools", "pinned", "KurboConv.lean")

PT = {"Move": ".move", "Line": ".line", "OffCurve": ".off", "Curve": ".curve", "QCurve": ".qcurve"}
EL = {"move_to": (".moveTo", 1), "line_to": (".lineTo", 1), "quad_to": (".quadTo", 2), "curve_to": (".curveTo", 3)}
ERR = {"TooManyOffCurves": ".tooMany", "BadPoint": ".badPoint"}
FIELD = {"x_scale": "xScale", "xy_scale": "xyScale", "yx_scale": "yxScale", "y_scale": "yScale",
         "x_offset": "xOffset", "y_offset": "yOffset"}


class Anchor(Exception):
    pass


def need(m, what):
    if not m:
        raise Anchor(what)
    return m


def norm(src):
    src = re.sub(r"//[^\n]*", "", src)
    # statement-level feature gates are kept as markers (two build variants of `transform`), other attributes go
    src = re.sub(r'#\[cfg\(feature = "kurbo"\)\]', " @K ", src)
    src = re.sub(r'#\[cfg\(not\(feature = "kurbo"\)\)\]', " @N ", src)
    src = re.sub(r"#\[[^\]]*\]", "", src)
    src = re.sub(r"\s+", " ", src).strip()
    return re.sub(r" \.(?=[A-Za-z_])", ".", src)      # method chains broken over lines


def block_after(src, start):
    """(text inside the brace block starting at the first '{' at or after `start`, index after its '}')"""
    i = src.index("{", start)
    depth, j = 0, i
    while True:
        c = src[j]
        if c == "{":
            depth += 1
        elif c == "}":
            depth -= 1
            if depth == 0:
                return src[i + 1:j].strip(), j + 1
        j += 1


def split_arms(body):
    it = list(re.finditer(r"PointType::(\w+) =>", body))
    arms = {}
    for k, m in enumerate(it):
        start = m.end()
        if body[start:].lstrip().startswith("{"):
            txt, _ = block_after(body, start)
        else:
            end = it[k + 1].start() if k + 1 < len(it) else len(body)
            txt = body[start:end].strip().rstrip(",").strip()
        if m.group(1) in arms:
            raise Anchor("duplicate arm " + m.group(1))
        arms[m.group(1)] = txt
    if sorted(arms) != sorted(PT):
        raise Anchor("match arms are not exactly the five point types: %s" % sorted(arms))
    return arms


def stmts(txt):
    return [s.strip() for s in re.split(r"[;,](?![^()]*\))", txt) if s.strip()]


def cmp_op(op):
    return {"!=": "!=", "==": "=="}[op]


# ---------------------------------------------------------------- to_kurbo

def path_call(s, env):
    """`path.M(a, b)` -> Lean element with every argument looked up in env (a leading `*` is a deref)"""
    m = need(re.fullmatch(r"path\.(\w+)\((.*)\)", s), "not a path call: " + s[:50])
    if m.group(1) not in EL:
        raise Anchor("unknown path method " + m.group(1))
    ctor, arity = EL[m.group(1)]
    args = [a.strip().lstrip("*") for a in m.group(2).split(",")]
    if len(args) != arity:
        raise Anchor("arity of " + m.group(1))
    out = []
    for a in args:
        if a not in env:
            raise Anchor("unknown argument %s in %s" % (a, s))
        out.append(env[a])
    return ctor + " " + " ".join(out)


def simple_arm(txt, kp):
    """Move / Line / OffCurve arm -> (element or None, queue expression for the recursive call)"""
    el, queue = None, "offs"
    for s in stmts(txt):
        if s.startswith("path."):
            if el is not None:
                raise Anchor("two path calls in a simple arm")
            el = path_call(s, {kp: "p.pos"})
        elif s == "offs.push_back(%s)" % kp:
            queue = "(%s ++ [p.pos])" % queue
        elif s == "offs.push_front(%s)" % kp:
            queue = "([p.pos] ++ %s)" % queue
        elif s == "offs.clear()":
            queue = "[]"
        else:
            raise Anchor("unknown statement in arm: " + s[:50])
    return el, queue


def curve_arm(txt, kp):
    i = need(re.search(r"match offs\.make_contiguous\(\) ", txt), "curve: inner match").start()
    inner, after = block_after(txt, i)
    if txt[:i].strip():
        raise Anchor("curve: statements before the inner match")
    arms = []
    pos = 0
    pat = re.compile(r"(\[[^\]]*\]|_) => (path\.\w+\([^)]*\)|return Err\(ConvertContourError::new\(ErrorKind::(\w+)\)\)),?")
    while pos < len(inner):
        m = need(pat.match(inner, pos), "curve: inner arm " + inner[pos:pos + 40])
        p = m.group(1)
        if p == "_":
            lp, env = "_", {}
        else:
            names = [n.strip() for n in p[1:-1].split(",") if n.strip()]
            if any(not re.fullmatch(r"\w+", n) for n in names):
                raise Anchor("curve: slice pattern " + p)
            lp, env = "[" + ", ".join(names) + "]", {n: n for n in names}
        env[kp] = "e"
        if m.group(3):
            if m.group(3) not in ERR:
                raise Anchor("unknown error kind " + m.group(3))
            rhs = ".error " + ERR[m.group(3)]
        else:
            rhs = ".ok [%s]" % path_call(m.group(2), env)
        arms.append((lp, rhs))
        pos = m.end()
        while pos < len(inner) and inner[pos] == " ":
            pos += 1
    rest = stmts(txt[after:])
    if rest not in (["offs.clear()"], []):
        raise Anchor("curve: after the inner match: %s" % rest)
    if not arms or arms[-1][0] != "_" or any(a[0] == "_" for a in arms[:-1]):
        raise Anchor("curve: wildcard arm must be last")
    return arms, ("[]" if rest else "offs")


def qcurve_arm(txt, kp):
    t = txt
    empty_el = None
    m = re.match(r"if offs\.is_empty\(\) \{ (path\.\w+\([^)]*\));? \} ?", t)
    if m:
        empty_el = path_call(m.group(1), {kp: "e"})
        t = t[m.end():]
    m = need(re.match(r"while let Some\((\w+)\) = offs\.pop_front\(\) ", t), "qcurve: while loop")
    a = m.group(1)
    body, after = block_after(t, m.end() - 1)
    m2 = need(re.match(r"if let Some\((\w+)\) = offs\.front\(\) ", body), "qcurve: front test")
    b = m2.group(1)
    then, a2 = block_after(body, m2.end() - 1)
    need(re.match(r" ?else ", body[a2:]), "qcurve: else")
    els, a3 = block_after(body, a2)
    if body[a3:].strip():
        raise Anchor("qcurve: trailing statements in the loop")

    def branch(txt, env):
        el = None
        for s in stmts(txt):
            m = re.fullmatch(r"let (\w+) = \*?(\w+)\.midpoint\(\*?(\w+)\)", s)
            if m:
                if m.group(2) not in env or m.group(3) not in env:
                    raise Anchor("qcurve: midpoint of unknown names")
                env[m.group(1)] = "(mid %s %s)" % (env[m.group(2)], env[m.group(3)])
            elif s.startswith("path."):
                if el is not None:
                    raise Anchor("qcurve: two path calls in a branch")
                el = path_call(s, env)
            else:
                raise Anchor("qcurve: statement " + s[:50])
        if el is None:
            raise Anchor("qcurve: branch without a path call")
        return el
    el_more = branch(then, {a: "a", b: "b", kp: "e"})
    el_last = branch(els, {a: "a", kp: "e"})
    rest = stmts(t[after:])
    if rest not in (["offs.clear()"], []):
        raise Anchor("qcurve: after the loop: %s" % rest)
    return empty_el, el_more, el_last


def len_expr(s):
    """`self.points.len()`, `self.points.len() + K`, `K + self.points.len()` -> Lean"""
    s = s.strip()
    if s == "self.points.len()":
        return "pts.length"
    m = re.fullmatch(r"self\.points\.len\(\) \+ (\d+)", s) or re.fullmatch(r"(\d+) \+ self\.points\.len\(\)", s)
    need(m, "take argument " + s)
    return "(pts.length + %s)" % m.group(1)


def gen_to_kurbo(src):
    i = need(re.search(r"pub fn is_closed\(&self\) -> bool ", src), "is_closed").end()
    body, _ = block_after(src, i - 1)
    m = need(re.fullmatch(r"self\.points\.first\(\)\.(?:is_none_or\(|map_or\(true, )\|(\w+)\| \1\.typ (!=|==) PointType::(\w+)\)", body),
             "is_closed body")
    closed_op, closed_t = cmp_op(m.group(2)), PT[m.group(3)]

    i = need(re.search(r"pub fn to_kurbo\(&self\) -> Result<kurbo::BezPath, ConvertContourError> ", src), "to_kurbo").end()
    body, _ = block_after(src, i - 1)
    closes = len(re.findall(r"close_path", body))
    m0 = need(re.search(r"let mut points = if self\.is_closed\(\) ", body), "closed test")
    # every statement of the body must be one the translator knows: an unrecognised one is never skipped
    known_prefix = {"let mut path = kurbo::BezPath::new()", "let mut offs = std::collections::VecDeque::new()",
                    "let mut offs = VecDeque::new()"}
    pre = split_top(body[:m0.start()], ";")
    if len(pre) != 2 or any(q not in known_prefix for q in pre) or pre[0] == pre[1]:
        raise Anchor("to_kurbo: unknown statements before the walk: %s" % pre)
    i = m0.end()
    closed, after = block_after(body, i - 1)
    need(re.match(r" ?else ", body[after:]), "open branch")
    opened, after = block_after(body, after)
    rest = body[after:].lstrip("; ")

    m = re.match(r"let rotate = self \.points \.iter\(\) \.rev\(\) \.position\(\|(\w+)\| \1\.typ (!=|==) PointType::(\w+)\) "
                  r"\.map\(\|(\w+)\| self\.points\.len\(\) - (\d+) - \4\);", closed) or \
        re.match(r"let rotate = self\.points\.iter\(\)\.rev\(\)\.position\(\|(\w+)\| \1\.typ (!=|==) PointType::(\w+)\)"
                  r"\.map\(\|(\w+)\| self\.points\.len\(\) - (\d+) - \4\);", closed)
    if m:
        rot_op, rot_t, rot_k = cmp_op(m.group(2)), PT[m.group(3)], m.group(5)
    else:
        m = need(re.match(r"let rotate = self ?\.points ?\.iter\(\) ?\.rposition\(\|(\w+)\| \1\.typ (!=|==) PointType::(\w+)\);", closed),
                 "rotate")
        rot_op, rot_t, rot_k = cmp_op(m.group(2)), PT[m.group(3)], "1"
    tail = closed[m.end():].strip()

    alloff = None
    m = re.match(r"if rotate\.is_none\(\) ", tail)
    if m:
        blk, a = block_after(tail, m.end() - 1)
        tail = tail[a:].strip()
        m1 = need(re.match(r"if let \(Some\((\w+)\), Some\((\w+)\)\) = \(self\.points\.first\(\), self\.points\.last\(\)\) ", blk),
                  "all-off: first/last")
        first, last = m1.group(1), m1.group(2)
        inner, a1 = block_after(blk, m1.end() - 1)
        if stmts(blk[a1:]) != ["return Ok(path)"]:
            raise Anchor("all-off: block must end in return Ok(path)")
        env = {first: "first.pos", last: "last.pos"}
        m2 = need(re.match(r"path\.(\w+)\((\w+)\.to_kurbo\(\)\.midpoint\((\w+)\.to_kurbo\(\)\)\); ", inner), "all-off: start")
        if m2.group(1) not in EL or EL[m2.group(1)][1] != 1 or m2.group(2) not in env or m2.group(3) not in env:
            raise Anchor("all-off: start call")
        start = "%s (mid %s %s)" % (EL[m2.group(1)][0], env[m2.group(2)], env[m2.group(3)])
        m3 = need(re.match(r"for \((\w+), (\w+)\) in self\.points\.iter\(\)\.zip\(self\.points\.iter\(\)\.cycle\(\)\.skip\((\d+)\)\) ",
                           inner[m2.end():]), "all-off: loop")
        pv, nv, skip = m3.group(1), m3.group(2), m3.group(3)
        lb, a3 = block_after(inner, m2.end() + m3.end() - 1)
        if inner[a3:].strip():
            raise Anchor("all-off: statements after the loop")
        env2 = {pv: "pn.1.pos", nv: "pn.2.pos"}
        m4 = need(re.fullmatch(r"path\.(\w+)\((\w+)\.to_kurbo\(\), (\w+)\.to_kurbo\(\)\.midpoint\((\w+)\.to_kurbo\(\)\)\);?", lb),
                  "all-off: loop body")
        if m4.group(1) not in EL or EL[m4.group(1)][1] != 2 or any(g not in env2 for g in m4.groups()[1:]):
            raise Anchor("all-off: loop call")
        step = "%s %s (mid %s %s)" % (EL[m4.group(1)][0], env2[m4.group(2)], env2[m4.group(3)], env2[m4.group(4)])
        alloff = (start, skip, step)
    m = need(re.fullmatch(r"self\.points\.iter\(\)\.cycle\(\)\.skip\(rotate\.unwrap_or\((\d+)\)\)\.take\((.*)\)", tail), "closed walk")
    none_skip, closed_take = m.group(1), len_expr(m.group(2))
    m = need(re.fullmatch(r"self\.points\.iter\(\)\.cycle\(\)\.skip\((\d+)\)\.take\((.*)\)", opened), "open walk")
    open_skip, open_take = m.group(1), len_expr(m.group(2))

    m = need(re.match(r"if let Some\((\w+)\) = points\.next\(\) \{ path\.(\w+)\(\1\.to_kurbo\(\)\); \} ", rest), "start point")
    if m.group(2) not in EL or EL[m.group(2)][1] != 1:
        raise Anchor("start call")
    start_el = EL[m.group(2)][0]
    rest = rest[m.end():]
    m = need(re.match(r"for (\w+) in points ", rest), "segment loop")
    pv = m.group(1)
    loop, after = block_after(rest, m.end() - 1)
    # a `close_path` call after the loop is counted (emitsClose), not an unknown shape
    tail_after = re.sub(r"(if self\.is_closed\(\) \{ )?path\.close_path\(\); ?(\} ?)?", "", rest[after:]).strip()
    if tail_after != "Ok(path)":
        raise Anchor("to_kurbo must end in Ok(path)")
    m = need(re.match(r"let (\w+) = %s\.to_kurbo\(\); match %s\.typ " % (pv, pv), loop), "loop head")
    kp = m.group(1)
    mbody, a = block_after(loop, m.end() - 1)
    if loop[a:].strip():
        raise Anchor("statements after the match in the loop")
    arms = split_arms(mbody)
    simple = {t: simple_arm(arms[t], kp) for t in ("Move", "Line", "OffCurve")}
    carms, cqueue = curve_arm(arms["Curve"], kp)
    q_empty, q_more, q_last = qcurve_arm(arms["QCurve"], kp)

    o = []
    o.append("def isClosed : List (Pt α) → Bool")
    o.append("  | [] => true")
    o.append("  | p :: _ => p.typ %s %s" % (closed_op, closed_t))
    o.append("")
    o.append("def rotateIdx (pts : List (Pt α)) : Option Nat :=")
    o.append("  match pts.reverse.findIdx? (fun p => p.typ %s %s) with" % (rot_op, rot_t))
    o.append("  | none => none")
    o.append("  | some idx => some (pts.length - %s - idx)" % rot_k)
    o.append("")
    o.append("def curveArm (offs : List α) (e : α) : Except Err (List (El α)) :=")
    o.append("  match offs with")
    for lp, rhs in carms:
        o.append("  | %s => %s" % (lp, rhs))
    o.append("")
    o.append("def qcurveLoop (mid : α → α → α) : List α → α → List (El α)")
    o.append("  | [], _ => []")
    o.append("  | [a], e => [%s]" % q_last)
    o.append("  | a :: b :: r, e => %s :: qcurveLoop mid (b :: r) e" % q_more)
    o.append("")
    o.append("def qcurveArm (mid : α → α → α) (offs : List α) (e : α) : List (El α) :=")
    o.append("  (if offs.isEmpty then [%s] else []) ++ qcurveLoop mid offs e" % q_empty if q_empty
             else "  qcurveLoop mid offs e")
    o.append("")
    o.append("def go (mid : α → α → α) : List α → List (Pt α) → Except Err (List (El α))")
    o.append("  | _, [] => .ok []")
    o.append("  | offs, p :: ps =>")
    o.append("    match p.typ with")
    for t in ("Move", "Line", "OffCurve"):
        el, q = simple[t]
        if el:
            o.append("    | %s => prepend [%s] (go mid %s ps)" % (PT[t], el, q))
        else:
            o.append("    | %s => go mid %s ps" % (PT[t], q))
    o.append("    | .curve =>")
    o.append("      match curveArm offs p.pos with")
    o.append("      | .error e => .error e")
    o.append("      | .ok a => prepend a (go mid %s ps)" % cqueue)
    o.append("    | .qcurve => prepend (qcurveArm mid offs p.pos) (go mid [] ps)")
    o.append("")
    o.append("def drawWalk (mid : α → α → α) : List (Pt α) → Except Err (List (El α))")
    o.append("  | [] => .ok []")
    o.append("  | start :: rest => prepend [%s start.pos] (go mid [] rest)" % start_el)
    o.append("")
    if alloff:
        o.append("def allOffPath (mid : α → α → α) (pts : List (Pt α)) : List (El α) :=")
        o.append("  match pts.head?, pts.getLast? with")
        o.append("  | some first, some last =>")
        o.append("    %s ::" % alloff[0])
        o.append("      (pts.zip (pts.drop %s ++ pts.take %s)).map (fun pn => %s)" % (alloff[1], alloff[1], alloff[2]))
        o.append("  | _, _ => []")
        o.append("")
    o.append("def toKurbo (mid : α → α → α) (pts : List (Pt α)) : Except Err (List (El α)) :=")
    o.append("  if isClosed pts then")
    o.append("    match rotateIdx pts with")
    if alloff:
        o.append("    | none => .ok (allOffPath mid pts)")
    else:
        o.append("    | none => drawWalk mid (cycleSkipTake pts %s %s)" % (none_skip, closed_take))
    o.append("    | some r => drawWalk mid (cycleSkipTake pts r %s)" % closed_take)
    o.append("  else drawWalk mid (cycleSkipTake pts %s %s)" % (open_skip, open_take))
    o.append("")
    o.append("/-- number of `close_path` calls inside `to_kurbo` is non-zero -/")
    o.append("def emitsClose : Bool := %s" % ("true" if closes else "false"))
    return o


# ---------------------------------------------------------------- expressions (transform, kurbo's Affine * Point)

def tokenize(s):
    toks = re.findall(r"[A-Za-z_][\w.]*(?:\[\d+\])?|[()+*]|\S", s)
    return toks


def parse_expr(toks, atom):
    """sum of products with parentheses; AST = ('+', l, r) | ('*', l, r) | ('a', lean) ; no other operator is known"""
    pos = [0]

    def peek():
        return toks[pos[0]] if pos[0] < len(toks) else None

    def take():
        t = toks[pos[0]]
        pos[0] += 1
        return t

    def p_atom():
        t = take()
        if t == "(":
            e = p_sum()
            if take() != ")":
                raise Anchor("expression: ')' expected")
            return e
        return atom(t)

    def p_prod():
        e = p_atom()
        while peek() == "*":
            take()
            e = ("*", e, p_atom())
        return e

    def p_sum():
        e = p_prod()
        while peek() == "+":
            take()
            e = ("+", e, p_prod())
        return e
    e = p_sum()
    if pos[0] != len(toks):
        raise Anchor("expression: unexpected token %s" % toks[pos[0]])
    return e


def show(e):
    if e[0] == "a":
        return e[1]
    l, r = e[1], e[2]
    if e[0] == "+":
        return show(l) + " + " + ("(" + show(r) + ")" if r[0] == "+" else show(r))
    ls = "(" + show(l) + ")" if l[0] == "+" else show(l)
    rs = "(" + show(r) + ")" if r[0] in "+*" else show(r)
    return ls + " * " + rs


def split_top(txt, sep):
    """split at `sep` outside parentheses / braces"""
    out, depth, cur = [], 0, ""
    for c in txt:
        if c in "({[":
            depth += 1
        elif c in ")}]":
            depth -= 1
        if c == sep and depth == 0:
            out.append(cur.strip())
            cur = ""
        else:
            cur += c
    if cur.strip():
        out.append(cur.strip())
    return out


# ---- early returns of `transform`: `if <cond> { return; }` -> a guarded arm, the condition translated over `Num`

GTOK = re.compile(r"\.abs\(\)|f64::EPSILON|[A-Za-z_]\w*(?:\.(?!abs\(\))[A-Za-z_]\w*)*(?:\(\))?|\d+\.?\d*(?:f64)?|&&|<=|>=|==|!=|[()<>\-*&]|\S")


def identity_table(src):
    m = need(re.search(r"fn identity\(\) -> Self \{ AffineTransform \{ (.*?),? \} \}", src), "identity()")
    tab = {}
    for f in m.group(1).split(","):
        mm = need(re.fullmatch(r"(\w+): (\d+\.?\d*)", f.strip()), "identity field " + f)
        tab[mm.group(1)] = float(mm.group(2))
    if sorted(tab) != sorted(FIELD):
        raise Anchor("identity(): six fields expected")
    return tab


def lit(v):
    if v == 0.0:
        return "N.zero"
    if v == 1.0:
        return "N.one"
    raise Anchor("guard: literal %r" % v)


def parse_guard(expr, names):
    """boolean expression -> Lean Bool over `N : Num α`.  `names`: identifier prefix -> 't' (the transform) or a
    literal table (a binding of `identity()`).  Grammar: cmp (&& cmp)*, cmp = arith OP arith,
    arith = postfix (- postfix)*, postfix = primary (.abs())*, primary = operand | number | ( arith )"""
    toks = GTOK.findall(expr)
    pos = [0]

    def peek():
        return toks[pos[0]] if pos[0] < len(toks) else None

    def take():
        t = toks[pos[0]]
        pos[0] += 1
        return t

    def operand(t):
        if t == "f64::EPSILON":
            return "N.eps"
        if re.fullmatch(r"\d+\.?\d*(?:f64)?", t):
            return lit(float(t.replace("f64", "")))
        m = re.fullmatch(r"(\w+)\.(\w+)", t)
        if m and m.group(1) in names and m.group(2) in FIELD:
            tab = names[m.group(1)]
            return "t." + FIELD[m.group(2)] if tab == "t" else lit(tab[m.group(2)])
        raise Anchor("guard: operand " + t)

    def primary():
        t = take()
        if t == "(":
            e = arith()
            if take() != ")":
                raise Anchor("guard: ')' expected")
            return e
        return operand(t)

    def postfix():
        e = primary()
        while peek() == ".abs()":
            take()
            e = "(N.abs %s)" % e
        return e

    def arith():
        e = postfix()
        while peek() == "-":
            take()
            e = "(N.sub %s %s)" % (e, postfix())
        return e

    def cmp():
        a = arith()
        op = take() if peek() in ("<", "<=", ">", ">=", "==", "!=") else None
        if op is None:
            raise Anchor("guard: comparison expected")
        b = arith()
        return {"<": "N.lt %s %s" % (a, b), "<=": "N.le %s %s" % (a, b), ">": "N.lt %s %s" % (b, a),
                ">=": "N.le %s %s" % (b, a), "==": "N.beq %s %s" % (a, b), "!=": "!(N.beq %s %s)" % (a, b)}[op]
    parts = [cmp()]
    while peek() == "&&":
        take()
        parts.append(cmp())
    if pos[0] != len(toks):
        raise Anchor("guard: unexpected token %s" % toks[pos[0]])
    return " && ".join(("(%s)" % q) for q in parts)


def fieldwise_eq(tab):
    order = ["x_scale", "xy_scale", "yx_scale", "y_scale", "x_offset", "y_offset"]
    return " && ".join("(N.beq t.%s %s)" % (FIELD[f], lit(tab[f])) for f in order)


def translate_guard(cond, tn, src):
    """condition of an early return of `transform(&mut self, tn: AffineTransform)`"""
    cond = cond.strip()
    ident = r"(?:AffineTransform|Self)::(?:identity|default)\(\)"
    if re.fullmatch(re.escape(tn) + r" == " + ident, cond) or re.fullmatch(ident + r" == " + re.escape(tn), cond):
        return fieldwise_eq(identity_table(src))
    m = re.fullmatch(re.escape(tn) + r"\.(\w+)\(\)", cond)
    if m:
        # a predicate method of AffineTransform: its body is read from the source
        mm = need(re.search(r"fn %s\(&self\) -> bool " % re.escape(m.group(1)), src), "predicate " + m.group(1))
        body, _ = block_after(src, mm.end() - 1)
        names = {"self": "t"}
        parts = split_top(body, ";")
        for st in parts[:-1]:
            b = need(re.fullmatch(r"let (\w+) = " + ident, st), "predicate statement " + st[:40])
            names[b.group(1)] = identity_table(src)
        last = parts[-1]
        if re.fullmatch(r"\*self == " + ident, last) or re.fullmatch(r"self == &" + ident, last):
            return fieldwise_eq(identity_table(src))
        return parse_guard(last, names)
    return parse_guard(cond, {tn: "t"})


def eval_transform(body, tn, variant, src):
    """symbolic evaluation of the statements of `transform` that exist in the build `variant` ('K' = with the kurbo
    feature, 'N' = without): -> (lean expr of the new x, of the new y, [translated early-return conditions]).
    Every statement must be of a known form — an unrecognised one raises Anchor (pinned copy), it is never skipped."""
    env = {"self.x": ("a", "x"), "self.y": ("a", "y")}
    guards = []

    def atom(t):
        if t in env:
            return env[t]
        m = re.fullmatch(re.escape(tn) + r"\.(\w+)", t)
        if m and m.group(1) in FIELD:
            return ("a", "t." + FIELD[m.group(1)])
        raise Anchor("transform: unknown operand " + t)

    def kurbo_apply():
        # kurbo::Affine::from(transform) * self.to_kurbo(), through the regenerated conversion and kurbo's own Mul
        px, py = show(env["self.x"]), show(env["self.y"])
        px = px if re.fullmatch(r"\w+", px) else "(" + px + ")"
        py = py if re.fullmatch(r"\w+", py) else "(" + py + ")"
        return "(kApply (toK t) %s %s)" % (px, py)
    kur = re.escape("kurbo::Affine::from(%s) * self.to_kurbo()" % tn)
    for s in split_top(body, ";"):
        m = re.match(r"@([KN]) ", s)
        if m:
            if m.group(1) != variant:
                continue
            s = s[m.end():].strip()
        # early returns: `if <cond> { return; }` (no `;` after the block, so it is glued to the next statement)
        while True:
            g = re.match(r"if (.*?) \{ return;? \} ?", s)
            if not g:
                break
            if env["self.x"] != ("a", "x") or env["self.y"] != ("a", "y"):
                raise Anchor("transform: early return after an assignment")
            guards.append(translate_guard(g.group(1), tn, src))
            s = s[g.end():].strip()
        if not s:
            continue
        if "@K" in s or "@N" in s:
            raise Anchor("transform: feature gate inside a statement")
        m = re.fullmatch(r"let kurbo::Point \{ x: (\w+), y: (\w+),? \} = " + kur, s)
        if m:
            if variant != "K":
                raise Anchor("transform: kurbo used in the build without kurbo")
            k = kurbo_apply()
            env[m.group(1)], env[m.group(2)] = ("a", k + ".1"), ("a", k + ".2")
            continue
        m = re.fullmatch(r"let (\w+) = " + kur, s)
        if m:
            if variant != "K":
                raise Anchor("transform: kurbo used in the build without kurbo")
            k = kurbo_apply()
            env[m.group(1) + ".x"], env[m.group(1) + ".y"] = ("a", k + ".1"), ("a", k + ".2")
            continue
        m = re.fullmatch(r"let \((\w+), (\w+)\) = \((.*)\)", s)
        if m:
            parts = split_top(m.group(3), ",")
            if len(parts) != 2:
                raise Anchor("transform: pair expected")
            e1 = parse_expr(tokenize(parts[0]), atom)
            e2 = parse_expr(tokenize(parts[1]), atom)
            env[m.group(1)], env[m.group(2)] = e1, e2
            continue
        m = need(re.fullmatch(r"(?:let (\w+)|(self\.[xy])) = (.*)", s), "transform statement " + s[:50])
        env[m.group(1) or m.group(2)] = parse_expr(tokenize(m.group(3)), atom)
    return show(env["self.x"]), show(env["self.y"]), guards


def gen_transform(src):
    """conversions and kurbo's apply first (a `transform` that delegates to kurbo refers to them), then `transform`
    in both build variants: `transform` = with the kurbo feature, `transformPlain` = the default build"""
    i = need(re.search(r"pub fn transform\(&mut self, (\w+): AffineTransform\) ", src), "transform")
    tn = i.group(1)
    body, _ = block_after(src, i.end() - 1)
    variants = {v: eval_transform(body, tn, v, src) for v in ("K", "N")}
    tr = []
    for name, v, doc in (("transform", "K", "built with the `kurbo` feature"), ("transformPlain", "N", "default features (no kurbo)")):
        ex, ey, guards = variants[v]
        tr += ["/-- number of early returns at the top of `transform` (%s) -/" % doc,
               "def %sGuards : Nat := %d" % (name, len(guards)), ""]
        if guards:
            tr += ["/-- the condition(s) of the early return(s) of `transform`, translated from the source over abstract",
                   "    numeric operations (`Num`): the point is returned unchanged when this holds -/",
                   "def %sGuard (N : Num α) (t : Affine α) : Bool :=" % name,
                   "  " + " || ".join("(%s)" % g for g in guards), "",
                   "/-- `ContourPoint::transform`, %s -/" % doc,
                   "def %s [Add α] [Mul α] (N : Num α) (t : Affine α) (x y : α) : α × α :=" % name,
                   "  if %sGuard N t then (x, y) else (%s, %s)" % (name, ex, ey), ""]
        else:
            tr += ["/-- `ContourPoint::transform`, %s -/" % doc,
                   "def %s [Add α] [Mul α] (t : Affine α) (x y : α) : α × α :=" % name,
                   "  (%s, %s)" % (ex, ey), ""]
    o = []

    i = need(re.search(r"impl From<AffineTransform> for kurbo::Affine \{ fn from\((\w+): AffineTransform\) -> kurbo::Affine "
                       r"\{ kurbo::Affine::new\(\[ ?(.*?),? ?\]\) \} \}", src), "From<AffineTransform>")
    sv = i.group(1)
    fields = [f.strip() for f in i.group(2).split(",")]
    names = []
    for f in fields:
        m = need(re.fullmatch(re.escape(sv) + r"\.(\w+)", f), "toK field " + f)
        names.append("t." + FIELD[m.group(1)])
    if len(names) != 6:
        raise Anchor("toK: six coefficients expected")
    o += ["def toK (t : Affine α) : KAffine α :=", "  ⟨%s⟩" % ", ".join(names), ""]

    i = need(re.search(r"impl From<kurbo::Affine> for AffineTransform \{ fn from\((\w+): kurbo::Affine\) -> AffineTransform "
                       r"\{ let (\w+) = \1\.as_coeffs\(\); AffineTransform \{ (.*?),? \} \} \}", src), "From<kurbo::Affine>")
    cv = i.group(2)
    asg = {}
    for f in i.group(3).split(","):
        m = need(re.fullmatch(r"(\w+): " + re.escape(cv) + r"\[(\d)\]", f.strip()), "ofK field " + f)
        asg[FIELD[m.group(1)]] = "k.c" + m.group(2)
    if sorted(asg) != sorted(FIELD.values()):
        raise Anchor("ofK: six fields expected")
    order = ["xScale", "xyScale", "yxScale", "yScale", "xOffset", "yOffset"]
    o += ["def ofK (k : KAffine α) : Affine α :=",
          "  { " + ", ".join("%s := %s" % (f, asg[f]) for f in order) + " }", ""]
    return o, tr


KAPPLY_DEFAULT = ["def kApply [Add α] [Mul α] (k : KAffine α) (x y : α) : α × α :=",
                  "  (k.c0 * x + k.c2 * y + k.c4, k.c1 * x + k.c3 * y + k.c5)"]


def gen_kapply():
    """kurbo's `impl Mul<Point> for Affine` from the vendored crate the tree's Cargo.lock names"""
    # the lock file is not tracked by norad's git: a scratch worktree has none, the harness copy names the same crates
    lockp = next((q for q in (os.path.join(REPO, "Cargo.lock"), os.path.join(ROOT, "harness", "Cargo.lock"),
                              "/repo/Cargo.lock") if os.path.exists(q)), None)
    if lockp is None:
        raise Anchor("no Cargo.lock")
    lock = open(lockp).read()
    ver = need(re.search(r'name = "kurbo"\nversion = "([^"]+)"', lock), "kurbo in Cargo.lock").group(1)
    cands = glob.glob(os.path.expanduser("~/.cargo/registry/src/*/kurbo-%s/src/affine.rs" % ver))
    if not cands:
        raise Anchor("vendored kurbo %s not found" % ver)
    src = norm(open(cands[0]).read())
    m = need(re.search(r"impl Mul<Point> for Affine \{ type Output = Point; fn mul\(self, (\w+): Point\) -> Point "
                       r"\{ Point::new\( ?(.*?), (.*?),? ?\) \} \}", src), "kurbo Mul<Point>")
    ov = m.group(1)

    def atom(t):
        mm = re.fullmatch(r"self\.0\[(\d)\]", t)
        if mm:
            return ("a", "k.c" + mm.group(1))
        if t == ov + ".x":
            return ("a", "x")
        if t == ov + ".y":
            return ("a", "y")
        raise Anchor("kurbo: unknown operand " + t)
    ex = show(parse_expr(tokenize(m.group(2)), atom))
    ey = show(parse_expr(tokenize(m.group(3)), atom))
    return ["def kApply [Add α] [Mul α] (k : KAffine α) (x y : α) : α × α :=", "  (%s, %s)" % (ex, ey)], ver


def generate():
    src = norm(open(os.path.join(REPO, "src", "glyph", "mod.rs")).read())
    conv, tr = gen_transform(src)
    try:
        kap, kver = gen_kapply()
        ksrc = "kurbo %s (vendored source)" % kver
    except (Anchor, OSError, ValueError, KeyError, IndexError) as e:
        kap, ksrc = KAPPLY_DEFAULT, "default text (vendored kurbo not readable: %s)" % e
    body = gen_to_kurbo(src) + [""] + conv + kap + [""] + tr
    out = ["import Norad.Model.C20",
           "/-! GENERATED by tools/extract_kurbo_conv.py from src/glyph/mod.rs — do not edit.",
           "    `Contour::to_kurbo`, `ContourPoint::transform` and the kurbo conversions, arm by arm as the Rust has them now;",
           "    `kApply` from %s. -/" % ksrc,
           "namespace C20.Gen",
           "open C20",
           "",
           "variable {α : Type}",
           ""] + body + ["end C20.Gen"]
    return "\n".join(out) + "\n", ksrc


def run():
    try:
        text, ksrc = generate()
    except (Anchor, ValueError, KeyError, OSError, IndexError) as e:
        if os.path.exists(PINNED):
            ptext = open(PINNED).read()
            if not os.path.exists(GEN) or open(GEN).read() != ptext:
                os.makedirs(os.path.dirname(GEN), exist_ok=True)
                open(GEN, "w").write(ptext)
        return {"extraction": "pinned", "reason": "anchor not found: %s" % e}
    old = open(GEN).read() if os.path.exists(GEN) else None
    if old != text:
        os.makedirs(os.path.dirname(GEN), exist_ok=True)
        open(GEN, "w").write(text)
    ptext = open(PINNED).read() if os.path.exists(PINNED) else None
    return {"extraction": "fresh", "source": REPO, "kurbo_apply": ksrc,
            "differs_from_pinned_copy": ptext is not None and ptext != text}


if __name__ == "__main__":
    r = run()
    print(r)
    if "--pin" in sys.argv and r.get("extraction") == "fresh":
        os.makedirs(os.path.dirname(PINNED), exist_ok=True)
        open(PINNED, "w").write(open(GEN).read())
        print("pinned")
