example : Decidable (List.Pairwise (· ≤ ·) [1,2,3]) := inferInstance
example : Decidable (List.Nodup [1,2,3]) := inferInstance
example : Decidable (∀ i ∈ [0,1,2], i < 5) := inferInstance
#eval (0x4079000000000000 : UInt64).toNat >>> 52
#check @List.pairwise_cons
#check @List.getD_cons_succ
#check @List.all_eq_true
