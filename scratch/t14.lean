import Norad.Props.C14
import Norad.Props.C13
namespace C14
open FI

theorem v1_table_eq_spec :
    (∀ r ∈ asSpec Gen.v1Table, r ∈ Spec.tableV1) ∧ (∀ r ∈ Spec.tableV1, r ∈ asSpec Gen.v1Table) := by
  decide +kernel

/-- no two legacy attributes land on one format-3 attribute, and no legacy attribute has two rows -/
theorem tables_injective :
    (Gen.v2Table.map (·.2.1)).Nodup ∧ (Gen.v1Table.map (·.2.1)).Nodup ∧
    (Gen.v2Table.map (·.1)).Nodup ∧ (Gen.v1Table.map (·.1)).Nodup := by
  decide +kernel

/-- the three enumeration tables are the specification's (plus the accepted extensions) -/
theorem enum_tables_eq_spec :
    (∀ r, r ∈ Gen.fontStyleCodes ↔ r ∈ Spec.fontStyle ++ Spec.fontStyleExt) ∧
    (∀ r, r ∈ Gen.charSetCodes ↔ r ∈ Spec.charSet) ∧
    (∀ r, r ∈ Gen.widthNames ↔ r ∈ Spec.width ++ Spec.widthExt) ∧
    (Gen.fontStyleCodes.map (·.1)).Nodup ∧ (Gen.charSetCodes.map (·.1)).Nodup ∧
    (Gen.widthNames.map (·.1)).Nodup := by
  refine ⟨?_, ?_, ?_, by decide +kernel, by decide +kernel, by decide +kernel⟩
  · intro r
    have h1 : ∀ x ∈ Gen.fontStyleCodes, x ∈ Spec.fontStyle ++ Spec.fontStyleExt := by decide +kernel
    have h2 : ∀ x ∈ Spec.fontStyle ++ Spec.fontStyleExt, x ∈ Gen.fontStyleCodes := by decide +kernel
    exact ⟨h1 r, h2 r⟩
  · intro r
    have h1 : ∀ x ∈ Gen.charSetCodes, x ∈ Spec.charSet := by decide +kernel
    have h2 : ∀ x ∈ Spec.charSet, x ∈ Gen.charSetCodes := by decide +kernel
    exact ⟨h1 r, h2 r⟩
  · intro r
    have h1 : ∀ x ∈ Gen.widthNames, x ∈ Spec.width ++ Spec.widthExt := by decide +kernel
    have h2 : ∀ x ∈ Spec.width ++ Spec.widthExt, x ∈ Gen.widthNames := by decide +kernel
    exact ⟨h1 r, h2 r⟩

/-- a code or name outside the table is an error, whatever it is -/
theorem enum_unknown_is_error (t : Tables) :
    (∀ z, lookup t.fontStyle z = none → applyConv t .enumFontStyle (.int z) = .error .unknownFontStyle) ∧
    (∀ z, lookup t.charSet z = none → applyConv t .enumCharSet (.int z) = .error .unknownCharSet) ∧
    (∀ s, lookup t.width s = none → applyConv t .enumWidth (.str s) = .error .unknownWidth) := by
  refine ⟨?_, ?_, ?_⟩ <;> intro z h <;> simp [applyConv, h]

/-- an error in one attribute fails the whole conversion -/
theorem convertAll_error_of_mem (t : Tables) (table : List (String × String × Conv)) :
    ∀ (attrs : List (String × Val)) (k : String) (v : Val) (k3 : String) (c : Conv) (e : ConvErr),
      (k, v) ∈ attrs → lookup table k = some (k3, c) → applyConv t c v = .error e →
      ∃ e', convertAll t table attrs = .error e' := by
  intro attrs
  induction attrs with
  | nil => intro k v k3 c e h; simp at h
  | cons a r ih =>
    intro k v k3 c e hmem hl he
    obtain ⟨ka, va⟩ := a
    rcases List.mem_cons.1 hmem with heq | hr
    · cases heq
      simp only [convertAll, hl, he]
      exact ⟨e, rfl⟩
    · obtain ⟨e', he'⟩ := ih k v k3 c e hr hl he
      simp only [convertAll]
      cases hla : lookup table ka with
      | none => exact ⟨_, rfl⟩
      | some p =>
        obtain ⟨k3a, ca⟩ := p
        simp only [he']
        cases applyConv t ca va with
        | error e2 => exact ⟨e2, rfl⟩
        | ok o => cases o <;> exact ⟨e', rfl⟩

/-- **unknown enumeration values are reported as errors**: a format-1 font info holding a font style
    code outside the table cannot be loaded (likewise for the other two enumerations) -/
theorem unknown_font_style_refuses_load (attrs : List (String × Val)) (z : Int)
    (hmem : ("fontStyle", Val.int z) ∈ attrs) (hz : lookup Gen.fontStyleCodes z = none) :
    ∃ e, fromFile 1 attrs = .error e := by
  unfold fromFile
  have e1 : typesOf 1 = Gen.v1Types := rfl
  have e2 : tableOf 1 = Gen.v1Table := rfl
  rw [e1, e2]
  by_cases ht : allTyped Gen.v1Types attrs = true
  · simp only [ht, Bool.not_true, Bool.false_eq_true, if_false]
    have hl : lookup Gen.v1Table "fontStyle" = some ("styleMapStyleName", Conv.enumFontStyle) := by decide +kernel
    obtain ⟨e', he'⟩ := convertAll_error_of_mem tables Gen.v1Table attrs _ _ _ _ _ hmem hl
      ((enum_unknown_is_error tables).1 z hz)
    rw [he']
    exact ⟨_, rfl⟩
  · simp only [ht, Bool.not_false, if_true]
    exact ⟨_, rfl⟩

theorem weight_minus_one_dropped :
    applyConv tables .weight (.int (-1)) = .ok none ∧
    ∀ z : Int, z ≠ -1 → applyConv tables .weight (.int z) = .ok (some (.int (Int.ofNat z.natAbs))) := by
  refine ⟨by rfl, ?_⟩
  intro z hz
  have : tables.weightDropped = [-1] := rfl
  simp [applyConv, this, hz]

/-- where format 3 wants an unsigned number the result is non-negative -/
theorem conv_abs_nonneg (t : Tables) :
    (∀ b w, applyConv t .roundAbsU32 (.num b) = .ok (some (.int w)) → 0 ≤ w) ∧
    (∀ z w, applyConv t .absU32 (.int z) = .ok (some (.int w)) → 0 ≤ w) ∧
    (∀ z w, applyConv t .weight (.int z) = .ok (some (.int w)) → 0 ≤ w) ∧
    (∀ l l', applyConv t .panoseAbs (.ints l) = .ok (some (.ints l')) → ∀ w ∈ l', 0 ≤ w) ∧
    (∀ b b', applyConv t .absNum (.num b) = .ok (some (.num b')) → b' < 2 ^ 63) := by
  refine ⟨?_, ?_, ?_, ?_, ?_⟩
  · intro b w h
    simp only [applyConv, Except.ok.injEq, Option.some.injEq, Val.int.injEq] at h
    rw [← h]; exact Int.natCast_nonneg _
  · intro z w h
    simp only [applyConv, Except.ok.injEq, Option.some.injEq, Val.int.injEq] at h
    rw [← h]; exact Int.natCast_nonneg _
  · intro z w h
    simp only [applyConv] at h
    split at h
    · cases h
    · simp only [Except.ok.injEq, Option.some.injEq, Val.int.injEq] at h
      rw [← h]; exact Int.natCast_nonneg _
  · intro l l' h w hw
    simp only [applyConv, Except.ok.injEq, Option.some.injEq, Val.ints.injEq] at h
    subst h
    simp only [List.mem_map] at hw
    obtain ⟨z, _, rfl⟩ := hw
    exact Int.natCast_nonneg _
  · intro b b' h
    simp only [applyConv, absBits, Except.ok.injEq, Option.some.injEq, Val.num.injEq] at h
    subst h
    exact Nat.mod_lt _ (by decide)

end C14
