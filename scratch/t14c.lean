import Norad.Props.C14
import Norad.Props.C13
namespace C14
open FI

theorem validated_ok {info info' : List (String × Val)} (h : validated info = .ok info') :
    info' = info ∧ C13.validate (project info) = .ok := by
  unfold validated at h
  cases hv : C13.validate (project info) with
  | ok => simp only [hv, Except.ok.injEq] at h; exact ⟨h.symm, rfl⟩
  | err k => simp [hv] at h
  | panic => simp [hv] at h

theorem fromFile_ok {fmt : Nat} {attrs info : List (String × Val)} (h : fromFile fmt attrs = .ok info) :
    C13.validate (project info) = .ok := by
  unfold fromFile at h
  split at h
  · cases h
  · split at h
    · cases h
    · obtain ⟨e, hv⟩ := validated_ok h
      rw [e]; exact hv

/-- **a successful legacy load reports format 3, passes validation and is not refused by save**
    (composition with C13: `saveInfo` is the font-info part of `Font::save`) -/
theorem upconverted_reports_v3_validates_and_saves (i : Input) (o : Output) (h : load i = .ok o) :
    o.formatVersion = 3 ∧ C13.validate (project o.info) = .ok ∧ C13.saveInfo (project o.info) = .ok ∧
    C13.Rules (project o.info) := by
  have key : o.formatVersion = 3 ∧ C13.validate (project o.info) = .ok := by
    unfold load at h
    cases hf : fromFile i.fmt i.attrs with
    | error e => simp [hf] at h
    | ok info =>
      have hv0 := fromFile_ok hf
      simp only [hf] at h
      split at h
      · cases hh : i.robofab.hint with
        | none =>
          simp only [hh, Except.ok.injEq] at h
          rw [← h]; exact ⟨rfl, hv0⟩
        | some hd =>
          simp only [hh] at h
          cases hs : validated (applyHints Gen.hintRows hd info) with
          | error e => simp [hs] at h
          | ok info' =>
            obtain ⟨e, hv⟩ := validated_ok hs
            simp only [hs, Except.ok.injEq] at h
            rw [← h, e]; exact ⟨rfl, hv⟩
      · simp only [Except.ok.injEq] at h
        rw [← h]; exact ⟨rfl, hv0⟩
  have hr := (C13.validate_iff_rules _).1 key.2
  exact ⟨key.1, key.2, (C13.saveInfo_ok_iff _).2 hr, hr⟩

/-- **the four robofab keys are gone from the lib of a converted format-1 font, every other key stays** -/
theorem robofab_removed_from_lib (i : Input) (o : Output) (h1 : i.fmt = 1) (hl : i.hasLib = true)
    (h : load i = .ok o) :
    (∀ k ∈ o.libKeys, k ∉ Spec.robofabKeys) ∧ (∀ k ∈ i.libKeys, k ∉ Spec.robofabKeys → k ∈ o.libKeys) := by
  have hk : Gen.robofabRemoved = Spec.robofabKeys := by decide +kernel
  have hlib : o.libKeys = i.libKeys.filter (fun k => !Spec.robofabKeys.contains k) := by
    unfold load at h
    cases hf : fromFile i.fmt i.attrs with
    | error e => simp [hf] at h
    | ok info =>
      simp only [hf] at h
      simp only [h1, hl, beq_self_eq_true, Bool.and_self, if_true, decide_true] at h
      cases hh : i.robofab.hint with
      | none =>
        simp only [hh, Except.ok.injEq] at h
        rw [← h, hk]
      | some hd =>
        simp only [hh] at h
        cases hs : validated (applyHints Gen.hintRows hd info) with
        | error e => simp [hs] at h
        | ok info' =>
          simp only [hs, Except.ok.injEq] at h
          rw [← h, hk]
  rw [hlib]
  constructor
  · intro k hk'
    simp only [List.mem_filter, Bool.not_eq_eq_eq_not, Bool.not_true, List.contains_eq_mem,
      decide_eq_false_iff_not] at hk'
    exact hk'.2
  · intro k hk1 hk2
    simp only [List.mem_filter, Bool.not_eq_eq_eq_not, Bool.not_true, List.contains_eq_mem,
      decide_eq_false_iff_not]
    exact ⟨hk1, hk2⟩

/-- the feature text is the classes followed, when a features dictionary exists, by a newline and
    the blocks the order list names (unknown names skipped) -/
theorem feature_text_with_order (cls : Option String) (order : List String) (fs : List (String × String)) :
    featureText { classes := cls, order := some order, feats := some fs } =
      cls.getD "" ++ "\n" ++ String.join (order.filterMap fun k => lookup fs k) := rfl

theorem feature_text_without_features (cls : Option String) (order : Option (List String)) :
    featureText { classes := cls, order := order, feats := none } = cls.getD "" := rfl

end C14
