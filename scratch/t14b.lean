import Norad.Props.C14
import Norad.Props.C13
namespace C14
open FI

theorem roundMag_bounds (n d : Nat) (hd : 0 < d) :
    2 * (roundMag n d * d) ≤ 2 * n + d ∧ 2 * n + d < 2 * (roundMag n d * d) + 2 * d := by
  unfold roundMag
  have h1 := Nat.div_mul_le_self (2 * n + d) (2 * d)
  have h2 := Nat.lt_div_mul_add (a := 2 * n + d) (b := 2 * d) (by omega)
  have e : (2 * n + d) / (2 * d) * (2 * d) = 2 * ((2 * n + d) / (2 * d) * d) := by
    rw [Nat.mul_comm 2 d, ← Nat.mul_assoc, Nat.mul_comm _ 2]
  omega

/-- **rounding**: where format 3 wants an integer, the converted value is an integer within ½ of the
    legacy value (for every finite double below the saturation guard) -/
theorem conv_round_within_half (neg : Bool) (m up down : Nat)
    (hg : Dbl.num m up < 2147483647 * Dbl.den down) :
    Spec.withinHalf neg (Dbl.num m up) (Dbl.den down) (roundI32 (.fin neg m up down)) = true := by
  have hd : 0 < Dbl.den down := Nat.pow_pos (by decide)
  simp only [roundI32]
  generalize Dbl.num m up = n at *
  generalize Dbl.den down = d at *
  obtain ⟨h1, h2⟩ := roundMag_bounds n d hd
  have hr : roundMag n d ≤ 2147483647 := by
    apply Nat.le_of_lt_succ
    apply Nat.lt_of_mul_lt_mul_right (a := d)
    omega
  unfold Spec.withinHalf satI32 i32Max i32Min
  generalize hp : roundMag n d * d = p at *
  cases neg
  · simp only [Bool.false_eq_true, if_false, decide_eq_true_eq]
    have : ¬ ((roundMag n d : Nat) : Int) > 2147483647 := by omega
    have : ¬ ((roundMag n d : Nat) : Int) < -2147483648 := by omega
    simp only [Int.ofNat_eq_natCast, *, if_false]
    have e : 2 * ((roundMag n d : Nat) : Int) * (d : Int) = 2 * (p : Int) := by
      rw [← hp]; push_cast; rw [Int.mul_assoc]
    rw [e]
    omega
  · simp only [if_true, decide_eq_true_eq]
    have : ¬ (-((roundMag n d : Nat) : Int)) > 2147483647 := by omega
    have : ¬ (-((roundMag n d : Nat) : Int)) < -2147483648 := by omega
    simp only [Int.ofNat_eq_natCast, *, if_false]
    have e : 2 * (-((roundMag n d : Nat) : Int)) * (d : Int) = -(2 * (p : Int)) := by
      rw [← hp]; push_cast; rw [Int.mul_neg, Int.neg_mul, Int.mul_assoc]
    rw [e]
    omega

end C14
