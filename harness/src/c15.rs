//! C15: groups validation and kerning upconversion, through `Font::load` / `Font::save`.
//!
//! `C15 load <fmt> <G> <K> <S> <L> => ok <G> <K> | err <class> | panic`
//! `C15 save <G> => ok | err <class> | panic`
//! `<G>` = `G!` (no groups.plist) | `G:k=m,m;k=;..`; `<K>` = `K!` | `K:first=second:bits,..;..`;
//! `<S>` = names the interning table holds after loading the layers (glyph names of every layer, `name`
//! attributes of the glif files, component bases); `<L>` = glyph names of the layers.  Names hex.
//!
//! The tree is a function of the input tokens (see `Case::from_tokens`): glyphs named in `L` get one
//! glif each in the default layer; a name in `S` but not in `L` is planted as the component base of
//! the first glyph (or, when `L` is empty, cannot be planted and is dropped by the generator).
use crate::common::*;
use crate::rng::Rng;
use norad::{Font, Name};
use std::collections::{BTreeMap, BTreeSet};
use std::io::Write;
use std::path::{Path, PathBuf};

pub type Groups = BTreeMap<String, Vec<String>>;
pub type Kerning = BTreeMap<String, BTreeMap<String, f64>>;

#[derive(Clone, Debug)]
pub struct Case {
    pub fmt: u32,
    pub groups: Option<Groups>,
    pub kerning: Option<Kerning>,
    /// glyph names of the default layer
    pub glyphs: BTreeSet<String>,
    /// extra interned names (component bases of the first glyph)
    pub extra: BTreeSet<String>,
}

pub fn xml_escape(s: &str) -> String {
    s.replace('&', "&amp;").replace('<', "&lt;").replace('>', "&gt;").replace('"', "&quot;")
}

const PLIST_HEAD: &str = "<?xml version=\"1.0\" encoding=\"UTF-8\"?>\n<!DOCTYPE plist PUBLIC \"-//Apple//DTD PLIST 1.0//EN\" \"http://www.apple.com/DTDs/PropertyList-1.0.dtd\">\n<plist version=\"1.0\">\n";

pub fn groups_plist(g: &Groups) -> String {
    let mut s = String::from(PLIST_HEAD);
    s.push_str("<dict>\n");
    for (k, ms) in g {
        s.push_str(&format!("<key>{}</key>\n<array>\n", xml_escape(k)));
        for m in ms {
            s.push_str(&format!("<string>{}</string>\n", xml_escape(m)));
        }
        s.push_str("</array>\n");
    }
    s.push_str("</dict>\n</plist>\n");
    s
}

pub fn kerning_plist(k: &Kerning) -> String {
    let mut s = String::from(PLIST_HEAD);
    s.push_str("<dict>\n");
    for (f, secs) in k {
        s.push_str(&format!("<key>{}</key>\n<dict>\n", xml_escape(f)));
        for (sec, v) in secs {
            if v.fract() == 0.0 && v.abs() < 1e15 {
                s.push_str(&format!("<key>{}</key>\n<integer>{}</integer>\n", xml_escape(sec), *v as i64));
            } else {
                s.push_str(&format!("<key>{}</key>\n<real>{}</real>\n", xml_escape(sec), v));
            }
        }
        s.push_str("</dict>\n");
    }
    s.push_str("</dict>\n</plist>\n");
    s
}

pub fn write_tree(dir: &Path, c: &Case) {
    rm_rf(dir);
    std::fs::create_dir_all(dir.join("glyphs")).unwrap();
    std::fs::write(
        dir.join("metainfo.plist"),
        format!("{}<dict>\n<key>creator</key>\n<string>verif</string>\n<key>formatVersion</key>\n<integer>{}</integer>\n</dict>\n</plist>\n", PLIST_HEAD, c.fmt),
    )
    .unwrap();
    if c.fmt == 3 {
        std::fs::write(
            dir.join("layercontents.plist"),
            format!("{}<array>\n<array>\n<string>public.default</string>\n<string>glyphs</string>\n</array>\n</array>\n</plist>\n", PLIST_HEAD),
        )
        .unwrap();
    }
    if let Some(g) = &c.groups {
        std::fs::write(dir.join("groups.plist"), groups_plist(g)).unwrap();
    }
    if let Some(k) = &c.kerning {
        std::fs::write(dir.join("kerning.plist"), kerning_plist(k)).unwrap();
    }
    let mut contents = String::from(PLIST_HEAD);
    contents.push_str("<dict>\n");
    let glif_fmt = if c.fmt == 3 { 2 } else { 1 };
    for (i, name) in c.glyphs.iter().enumerate() {
        let file = format!("g{}.glif", i);
        contents.push_str(&format!("<key>{}</key>\n<string>{}</string>\n", xml_escape(name), file));
        let mut glif = format!(
            "<?xml version=\"1.0\" encoding=\"UTF-8\"?>\n<glyph name=\"{}\" format=\"{}\">\n<advance width=\"500\"/>\n",
            xml_escape(name),
            glif_fmt
        );
        if i == 0 && !c.extra.is_empty() {
            glif.push_str("<outline>\n");
            for b in &c.extra {
                glif.push_str(&format!("<component base=\"{}\"/>\n", xml_escape(b)));
            }
            glif.push_str("</outline>\n");
        }
        glif.push_str("</glyph>\n");
        std::fs::write(dir.join("glyphs").join(file), glif).unwrap();
    }
    contents.push_str("</dict>\n</plist>\n");
    std::fs::write(dir.join("glyphs").join("contents.plist"), contents).unwrap();
}

// ---------------------------------------------------------------- tokens

pub fn names_tok(it: impl Iterator<Item = String>) -> String {
    it.map(|n| hexs(&n)).collect::<Vec<_>>().join(",")
}

pub fn groups_tok(g: &Option<Groups>) -> String {
    match g {
        None => "G!".to_string(),
        Some(g) => format!(
            "G:{}",
            g.iter()
                .map(|(k, ms)| format!("{}={}", hexs(k), names_tok(ms.iter().cloned())))
                .collect::<Vec<_>>()
                .join(";")
        ),
    }
}

pub fn kerning_tok(k: &Option<Kerning>) -> String {
    match k {
        None => "K!".to_string(),
        Some(k) => format!(
            "K:{}",
            k.iter()
                .map(|(f, secs)| {
                    format!(
                        "{}={}",
                        hexs(f),
                        secs.iter().map(|(s, v)| format!("{}:{}", hexs(s), f64bits(*v))).collect::<Vec<_>>().join(",")
                    )
                })
                .collect::<Vec<_>>()
                .join(";")
        ),
    }
}

fn unhex_name(s: &str) -> String {
    String::from_utf8(unhex(s)).unwrap()
}

fn parse_names(s: &str) -> Vec<String> {
    s.split(',').filter(|x| !x.is_empty()).map(unhex_name).collect()
}

pub fn parse_groups_tok(t: &str) -> Option<Groups> {
    if t == "G!" {
        return None;
    }
    let mut g = Groups::new();
    for e in t[2..].split(';').filter(|x| !x.is_empty()) {
        let (k, ms) = e.split_once('=').unwrap();
        g.insert(unhex_name(k), parse_names(ms));
    }
    Some(g)
}

pub fn parse_kerning_tok(t: &str) -> Option<Kerning> {
    if t == "K!" {
        return None;
    }
    let mut k = Kerning::new();
    for e in t[2..].split(';').filter(|x| !x.is_empty()) {
        let (f, ss) = e.split_once('=').unwrap();
        let mut secs = BTreeMap::new();
        for p in ss.split(',').filter(|x| !x.is_empty()) {
            let (s, b) = p.split_once(':').unwrap();
            secs.insert(unhex_name(s), f64::from_bits(u64::from_str_radix(b, 16).unwrap()));
        }
        k.insert(unhex_name(f), secs);
    }
    Some(k)
}

impl Case {
    pub fn tokens(&self) -> String {
        let s: BTreeSet<String> = self.glyphs.union(&self.extra).cloned().collect();
        format!(
            "C15 load {} {} {} S:{} L:{}",
            self.fmt,
            groups_tok(&self.groups),
            kerning_tok(&self.kerning),
            names_tok(s.into_iter()),
            names_tok(self.glyphs.iter().cloned())
        )
    }
    pub fn from_tokens(toks: &[&str]) -> Case {
        let glyphs: BTreeSet<String> = parse_names(&toks[6][2..]).into_iter().collect();
        let s: BTreeSet<String> = parse_names(&toks[5][2..]).into_iter().collect();
        Case {
            fmt: toks[2].parse().unwrap(),
            groups: parse_groups_tok(toks[3]),
            kerning: parse_kerning_tok(toks[4]),
            extra: s.difference(&glyphs).cloned().collect(),
            glyphs,
        }
    }
}

// ---------------------------------------------------------------- observation

pub fn dump_groups(f: &Font) -> String {
    let g: Groups =
        f.groups.iter().map(|(k, v)| (k.to_string(), v.iter().map(|n| n.to_string()).collect())).collect();
    groups_tok(&Some(g))
}

pub fn dump_kerning(f: &Font) -> String {
    let k: Kerning = f
        .kerning
        .iter()
        .map(|(k, v)| (k.to_string(), v.iter().map(|(s, x)| (s.to_string(), *x)).collect()))
        .collect();
    kerning_tok(&Some(k))
}

fn load_err_class(e: &norad::error::FontLoadError) -> String {
    use norad::error::FontLoadError as E;
    match e {
        E::InvalidGroups(_) => "InvalidGroups".into(),
        E::GroupsUpconversionFailure(_) => "GroupsUpconversionFailure".into(),
        other => format!("other:{}", format!("{:?}", other).split(|c: char| !c.is_alphanumeric()).next().unwrap_or("?")),
    }
}

fn load_outcome(r: Result<Result<Font, norad::error::FontLoadError>, String>) -> String {
    match r {
        Err(_) => "panic".to_string(),
        Ok(Err(e)) => format!("err {}", load_err_class(&e)),
        Ok(Ok(f)) => format!("ok {} {}", dump_groups(&f), dump_kerning(&f)),
    }
}

/// three entry points, separated by `||`: `Font::load`, `Font::load_requested_data` with everything
/// requested, `Font::load_requested_data` with only groups and kerning requested (no layers: the glyph
/// set of the conversion is empty)
pub fn observe_load(c: &Case, dir: &Path) -> String {
    observe_load_eps(c, dir, true)
}

/// `all_entry_points = false`: only `Font::load` (one segment)
/// the request shapes of `Font::load_requested_data`; shape 0 is `Font::load`.  The driver knows for every id
/// whether groups / kerning / layers are requested (`Driver/C15.lean: shapeOf`).
pub const N_SHAPES: usize = 14;

fn request_shape(id: usize) -> norad::DataRequest<'static> {
    use norad::DataRequest as R;
    match id {
        1 => R::default(),
        2 => R::none().groups(true).kerning(true),
        3 => R::default().kerning(false),
        4 => R::default().groups(false),
        5 => R::default().groups(false).kerning(false),
        6 => R::default().lib(false),
        7 => R::none().groups(true),
        8 => R::none().kerning(true),
        9 => R::none().kerning(true).groups(true),
        10 => R::default().layers(false),
        11 => R::default().kerning(false).kerning(true),
        12 => R::all().kerning(false).features(false).data(false).images(false),
        _ => R::none().layers(true).groups(true),
    }
}

static SHAPE_COUNTER: std::sync::atomic::AtomicUsize = std::sync::atomic::AtomicUsize::new(0);

/// segments `@<shape> <outcome>` separated by `||`.  `all_entry_points = false`: only `Font::load`;
/// otherwise `Font::load` and four request shapes in rotation (every shape when `every_shape`)
pub fn observe_load_shapes(c: &Case, dir: &Path, all_entry_points: bool, every_shape: bool) -> String {
    write_tree(dir, c);
    let mut segs = vec![format!("@0 {}", load_outcome(guarded(|| Font::load(dir))))];
    if all_entry_points {
        let ids: Vec<usize> = if every_shape {
            (1..N_SHAPES).collect()
        } else {
            let k = SHAPE_COUNTER.fetch_add(1, std::sync::atomic::Ordering::Relaxed);
            // shape 3 (kerning not requested) on every second case, the others in rotation
            let mut v: Vec<usize> = (0..3).map(|j| 1 + (k * 3 + j) % (N_SHAPES - 1)).collect();
            if k % 2 == 0 && !v.contains(&3) {
                v.push(3);
            }
            v
        };
        for id in ids {
            let r = request_shape(id);
            segs.push(format!("@{} {}", id, load_outcome(guarded(|| Font::load_requested_data(dir, r)))));
        }
    }
    rm_rf(dir);
    segs.join(" || ")
}

pub fn observe_load_eps(c: &Case, dir: &Path, all_entry_points: bool) -> String {
    observe_load_shapes(c, dir, all_entry_points, false)
}

fn save_outcome(r: Result<Result<(), norad::error::FontWriteError>, String>, g: &Groups, dir: &Path) -> String {
    match r {
        Err(_) => "panic".to_string(),
        Ok(Err(norad::error::FontWriteError::InvalidGroups(_))) => "err InvalidGroups".to_string(),
        Ok(Err(e)) => format!("err other:{}", format!("{:?}", e).split(|c: char| !c.is_alphanumeric()).next().unwrap_or("?")),
        Ok(Ok(())) => {
            // what was written must load again with the same groups
            match guarded(|| Font::load(dir)) {
                Ok(Ok(f)) if dump_groups(&f) == groups_tok(&Some(g.clone())) => "ok".to_string(),
                Ok(Ok(_)) => "ok-but-reload-differs".to_string(),
                _ => "ok-but-reload-fails".to_string(),
            }
        }
    }
}

/// three entry points, separated by `||`: `Font::save`, `Font::save_with_options` with the default
/// options, `Font::save_with_options` with two-space indentation and single quotes
pub fn observe_save(g: &Groups, dir: &Path) -> String {
    rm_rf(dir);
    let mut font = Font::new();
    for (k, ms) in g {
        let key = match Name::new(k) {
            Ok(n) => n,
            Err(_) => return "unbuildable".to_string(),
        };
        let mut v = Vec::new();
        for m in ms {
            match Name::new(m) {
                Ok(n) => v.push(n),
                Err(_) => return "unbuildable".to_string(),
            }
        }
        font.groups.insert(key, v);
    }
    let custom = norad::WriteOptions::default().whitespace("  ").quote_char(norad::QuoteChar::Single);
    let mut segs = Vec::new();
    for ep in 0..3 {
        rm_rf(dir);
        let r = match ep {
            0 => guarded(|| font.save(dir)),
            1 => guarded(|| font.save_with_options(dir, &norad::WriteOptions::default())),
            _ => guarded(|| font.save_with_options(dir, &custom)),
        };
        segs.push(save_outcome(r, g, dir));
    }
    let s = segs.join(" || ");
    rm_rf(dir);
    s
}

fn scratch_dir(tag: &str) -> PathBuf {
    scratch_root().join(format!("c15-{}.ufo", tag))
}

pub fn observe(toks: &[&str]) -> String {
    match toks[1] {
        "load" => observe_load_shapes(&Case::from_tokens(toks), &scratch_dir("replay"), true, true),
        "save" => observe_save(&parse_groups_tok(toks[2]).unwrap(), &scratch_dir("replay")),
        _ => "unknown-subcommand".to_string(),
    }
}

// ---------------------------------------------------------------- generator

/// group-name pool, built to collide after prefixing
pub const GROUP_POOL: &[&str] = &[
    "A", "B", "A1", "A2",
    "@MMK_L_A", "@MMK_L_B", "@MMK_R_A", "@MMK_R_B", "@MMK_L_A1",
    "@MMK_L_@MMK_L_A", "@MMK_R_@MMK_R_A", "@MMK_L_@MMK_R_A", "@MMK_R_@MMK_L_A", "@MMK@MMK_L__L_A",
    "@MMK_L_", "@MMK_R_", "@mmk_l_A", "@MMK_X_A",
    "public.kern1.A", "public.kern1.A1", "public.kern1.A2", "public.kern1.B", "public.kern1.@MMK_L_A",
    "public.kern2.A", "public.kern2.A1", "public.kern2.B", "public.kern2.@MMK_R_A",
    "public.kern1.", "public.kern2.", "public.kern1", "public.kern3.A",
    "\u{c4}", "@MMK_L_\u{c4}", "A&B",
];

/// self-similar names: the remainder behind a kerning prefix is again a prefix (the same, the other side's, a
/// proper prefix / suffix of it), the prefix repeated 2-4 times with and without a tail, legacy markers whose
/// tail is a new-style prefix.  All of them are valid names; only the bare prefixes are not.
pub const SELF_SIMILAR: &[&str] = &[
    "public.kern1.public.kern1.", "public.kern2.public.kern2.", "public.kern1.public.kern2.", "public.kern2.public.kern1.",
    "public.kern1.public.kern1.public.kern1.", "public.kern2.public.kern2.public.kern2.",
    "public.kern1.public.kern1.public.kern1.public.kern1.", "public.kern1.public.kern1.x", "public.kern2.public.kern2.public.kern2.y",
    "public.kern1.public.kern1", "public.kern1.public.kern", "public.kern1.public.", "public.kern1.kern1.", "public.kern1.1.",
    "public.kern1..", "public.kern2.kern2.", "public.kern2.public.kern2", "public.kern1.p", "public.kern2.2.",
    "@MMK_L_public.kern1.", "@MMK_R_public.kern2.", "@MMK_R_public.kern2.x", "@MMK_L_public.kern1.public.kern1.",
    "@MMK_L_public.kern2.", "@MMK_R_public.kern1.", "@MMK_L_@MMK_L_public.kern1.", "@MMK_L_public.kern1.A", "@MMK_R_@MMK_R_public.kern2.",
    "public.kern1.@MMK_L_", "public.kern2.@MMK_R_",
];

/// near-prefix names: every cut of `public.kern1.` / `public.kern2.` at byte 10..13 (and the whole prefix plus one or
/// two ASCII letters: offsets 14, 15) followed by a 2-, 3- and 4-byte character, with and without a tail.  A cut
/// before byte 13 gives an ordinary (non-kerning) group, the whole prefix a kerning group with a non-ASCII name:
/// all of them are valid, and the multi-byte character straddles every byte offset a byte-indexed split could use.
pub fn near_prefix_names() -> Vec<String> {
    let mut v = Vec::new();
    for p in ["public.kern1.", "public.kern2."] {
        for cut in 10..=15usize {
            let head: String = if cut <= 13 { p[..cut].to_string() } else { format!("{}{}", p, &"ab"[..cut - 13]) };
            for ch in ["\u{e9}", "\u{20ac}", "\u{1f600}"] {
                for tail in ["", "1.x", "."] {
                    v.push(format!("{}{}{}", head, ch, tail));
                }
            }
        }
    }
    v.sort();
    v.dedup();
    v
}

/// the small pool of the exhaustive tier and of most random cases
pub const SMALL_POOL: &[&str] = &["A", "@MMK_L_A", "@MMK_L_@MMK_L_A", "public.kern1.A", "@MMK_R_A", "public.kern2.A"];

pub const GLYPH_POOL: &[&str] = &["a", "b", "c", "d", "A", "B"];

const VALUES: &[f64] = &[-50.0, 0.0, 7.0, 1.0, -1.0, 0.5, -12.25, 0.001, 2147483647.0, 1e20, -3.75, 120.0];

fn gen_groups(rng: &mut Rng, pool: &[&str], max: usize, overlap_bias: bool) -> Groups {
    let mut g = Groups::new();
    let n = rng.below(max + 1);
    for _ in 0..n {
        let name = rng.pick(pool).to_string();
        let nm = rng.below(4);
        let mut ms = Vec::new();
        for _ in 0..nm {
            // mostly distinct members per group (an overlap makes the load fail, which is the less
            // interesting branch): member index tied to the group count unless overlap is wanted
            let m = if overlap_bias || rng.chance(1, 6) {
                rng.pick(GLYPH_POOL).to_string()
            } else {
                format!("{}{}", rng.pick(GLYPH_POOL), g.len() * 4 + ms.len())
            };
            ms.push(m);
        }
        g.insert(name, ms);
    }
    g
}

fn gen_kerning(rng: &mut Rng, pool: &[&str], groups: &Groups, max_first: usize) -> Kerning {
    let mut k = Kerning::new();
    let gkeys: Vec<&String> = groups.keys().collect();
    let pick_key = |rng: &mut Rng| -> String {
        let r = rng.below(10);
        if r < 6 && !gkeys.is_empty() {
            (*rng.pick(&gkeys)).clone()
        } else if r < 8 {
            rng.pick(pool).to_string()
        } else {
            rng.pick(GLYPH_POOL).to_string()
        }
    };
    let nf = rng.below(max_first + 1);
    for _ in 0..nf {
        let f = pick_key(rng);
        let ns = rng.below(4);
        let mut secs = BTreeMap::new();
        for _ in 0..ns {
            secs.insert(pick_key(rng), *rng.pick(VALUES));
        }
        k.insert(f, secs);
    }
    k
}

fn gen_case(rng: &mut Rng, wide: bool) -> Case {
    // a sixth of the wide cases draws its names from the self-similar pool
    let pool: &[&str] = if wide { if rng.chance(1, 6) { SELF_SIMILAR } else { GROUP_POOL } } else { SMALL_POOL };
    let fmt = match rng.below(10) {
        0..=3 => 1,
        4..=7 => 2,
        _ => 3,
    };
    let overlap = rng.chance(1, 8);
    let groups = if rng.chance(1, 25) { None } else { Some(gen_groups(rng, pool, 5, overlap)) };
    let empty = Groups::new();
    let kerning = if rng.chance(1, 12) {
        None
    } else {
        Some(gen_kerning(rng, pool, groups.as_ref().unwrap_or(&empty), 4))
    };
    let mut glyphs = BTreeSet::new();
    for g in GLYPH_POOL {
        if rng.chance(1, 2) {
            glyphs.insert(g.to_string());
        }
    }
    // glyphs named like groups / kerning keys
    if let Some(g) = &groups {
        for k in g.keys() {
            if rng.chance(1, 5) {
                glyphs.insert(k.clone());
            }
        }
    }
    if rng.chance(1, 6) {
        glyphs.insert(rng.pick(pool).to_string());
    }
    let mut extra = BTreeSet::new();
    if !glyphs.is_empty() && rng.chance(1, 20) {
        if let Some(g) = &groups {
            let ks: Vec<&String> = g.keys().collect();
            if !ks.is_empty() {
                let n = (*rng.pick(&ks)).clone();
                if !glyphs.contains(&n) {
                    extra.insert(n);
                }
            }
        }
    }
    Case { fmt, groups, kerning, glyphs, extra }
}

fn emit_load(out: &mut dyn Write, c: &Case, dir: &Path) {
    let obs = observe_load(c, dir);
    writeln!(out, "{} => {}", c.tokens(), obs).unwrap();
}

fn emit_save(out: &mut dyn Write, g: &Groups, dir: &Path) {
    let obs = observe_save(g, dir);
    if obs != "unbuildable" {
        writeln!(out, "C15 save {} => {}", groups_tok(&Some(g.clone())), obs).unwrap();
    }
}

/// all sub-multisets of `pool` items: calls `f` with every selection of at most `max` distinct indices
fn subsets(n: usize, max: usize, f: &mut dyn FnMut(&[usize])) {
    fn rec(start: usize, n: usize, max: usize, cur: &mut Vec<usize>, f: &mut dyn FnMut(&[usize])) {
        f(cur);
        if cur.len() == max {
            return;
        }
        for i in start..n {
            cur.push(i);
            rec(i + 1, n, max, cur, f);
            cur.pop();
        }
    }
    rec(0, n, max, &mut Vec::new(), f);
}

/// exhaustive: every triple over SMALL_POOL with at most `mg` groups (each with its own single
/// member), at most `mp` kerning pairs over pool names, every glyph set that is a subset of the names
/// used with at most one element (`all_gsets = false`: with two or more pairs only the empty glyph set)
fn exhaustive(out: &mut dyn Write, dir: &Path, mg: usize, mp: usize, fmts: &[u32], all_gsets: bool) {
    let pool = SMALL_POOL;
    let n = pool.len();
    let pairs: Vec<(usize, usize)> = (0..n).flat_map(|a| (0..n).map(move |b| (a, b))).collect();
    let mut group_sets: Vec<Vec<usize>> = Vec::new();
    subsets(n, mg, &mut |s| group_sets.push(s.to_vec()));
    let mut pair_sets: Vec<Vec<usize>> = Vec::new();
    subsets(pairs.len(), mp, &mut |s| pair_sets.push(s.to_vec()));
    let mut count = 0usize;
    for gs in &group_sets {
        if gs.is_empty() {
            continue;
        }
        let mut groups = Groups::new();
        for (j, &gi) in gs.iter().enumerate() {
            groups.insert(pool[gi].to_string(), vec![format!("m{}", j)]);
        }
        for ps in &pair_sets {
            let mut kerning = Kerning::new();
            for (j, &pi) in ps.iter().enumerate() {
                let (a, b) = pairs[pi];
                kerning.entry(pool[a].to_string()).or_default().insert(pool[b].to_string(), (j + 1) as f64);
            }
            // glyph sets: none, or one of the group names
            let mut gsets: Vec<BTreeSet<String>> = vec![BTreeSet::new()];
            if all_gsets || ps.len() < 2 {
                for &gi in gs.iter() {
                    gsets.push([pool[gi].to_string()].into_iter().collect());
                }
            }
            for glyphs in gsets {
                for &fmt in fmts {
                    let c = Case {
                        fmt,
                        groups: Some(groups.clone()),
                        kerning: Some(kerning.clone()),
                        glyphs: glyphs.clone(),
                        extra: BTreeSet::new(),
                    };
                    // the exhaustive part exercises all three entry points on every third case
                    count += 1;
                    let obs = observe_load_eps(&c, dir, count % 3 == 0);
                    writeln!(out, "{} => {}", c.tokens(), obs).unwrap();
                }
            }
        }
    }
}

pub fn gen(tier: &str, seed: u64, out: &mut dyn Write) {
    let mut rng = Rng::new(seed);
    let dir = scratch_dir("gen");
    let thorough = tier == "thorough";
    // 1. exhaustive small space
    if thorough {
        exhaustive(out, &dir, 3, 3, &[2], false);
        exhaustive(out, &dir, 3, 2, &[1], true);
    } else {
        exhaustive(out, &dir, 3, 1, &[2], true);
        exhaustive(out, &dir, 2, 2, &[1], false);
    }
    // 2. random triples
    let n = if thorough { 60000 } else { 6000 };
    for i in 0..n {
        let c = gen_case(&mut rng, i % 2 == 0);
        emit_load(out, &c, &dir);
    }
    // 3. validator through save and format-3 load: boundary names and overlaps
    let vn = if thorough { 20000 } else { 2500 };
    const VPOOL: &[&str] = &[
        "public.kern1.", "public.kern2.", "public.kern1.A", "public.kern1.B", "public.kern2.A", "public.kern2.B",
        "public.kern1", "public.kern1.\u{c4}", "public.kern2.\u{c4}", "public.kern3.", "public.kern1.A.", "X",
        "public.kern2", "Public.kern1.", "public.kern1. ", "@MMK_L_A",
    ];
    // every self-similar name on its own and next to a sibling: save, format-3 load, legacy loads in which it
    // is referenced on both sides (all request shapes)
    for (i, name) in SELF_SIMILAR.iter().enumerate() {
        let mut g = Groups::new();
        g.insert(name.to_string(), vec!["a".to_string()]);
        if i % 2 == 1 {
            g.insert(SELF_SIMILAR[(i + 7) % SELF_SIMILAR.len()].to_string(), vec!["b".to_string()]);
        }
        emit_save(out, &g, &dir);
        for fmt in [3u32, 1, 2] {
            let mut k = Kerning::new();
            k.entry(name.to_string()).or_default().insert(name.to_string(), 5.0);
            k.entry("a".to_string()).or_default().insert(name.to_string(), -5.0);
            let c = Case {
                fmt,
                groups: Some(g.clone()),
                kerning: if fmt == 2 && i % 3 == 0 { None } else { Some(k) },
                glyphs: ["a".to_string()].into_iter().collect(),
                extra: BTreeSet::new(),
            };
            let obs = observe_load_shapes(&c, &dir, true, true);
            writeln!(out, "{} => {}", c.tokens(), obs).unwrap();
        }
    }
    let near = near_prefix_names();
    // every near-prefix name: all save entry points, a format-3 load under every request shape, a legacy load
    // in which it is referenced on both sides (shapes in rotation); members overlap with a real kerning group so
    // that taking it for one (or not) changes the verdict
    for (i, name) in near_prefix_names().iter().enumerate() {
        let mut g = Groups::new();
        g.insert(name.clone(), vec!["a".to_string(), "b".to_string()]);
        let side = if name.starts_with("public.kern2") { "public.kern2.Z" } else { "public.kern1.Z" };
        g.insert(side.to_string(), vec![if i % 2 == 0 { "a" } else { "c" }.to_string()]);
        emit_save(out, &g, &dir);
        let mut k = Kerning::new();
        k.entry(name.clone()).or_default().insert(name.clone(), 3.0);
        let c3 = Case { fmt: 3, groups: Some(g.clone()), kerning: Some(k.clone()), glyphs: BTreeSet::new(), extra: BTreeSet::new() };
        let obs = observe_load_shapes(&c3, &dir, true, true);
        writeln!(out, "{} => {}", c3.tokens(), obs).unwrap();
        let c1 = Case { fmt: 1 + (i % 2) as u32, groups: Some(g), kerning: Some(k), glyphs: BTreeSet::new(), extra: BTreeSet::new() };
        emit_load(out, &c1, &dir);
    }
    for _ in 0..vn {
        let mut g = Groups::new();
        let ng = 1 + rng.below(4);
        for _ in 0..ng {
            let name = if rng.chance(1, 5) {
                rng.pick(SELF_SIMILAR).to_string()
            } else if rng.chance(1, 8) {
                rng.pick(&near).clone()
            } else {
                rng.pick(VPOOL).to_string()
            };
            let nm = rng.below(4);
            let ms: Vec<String> = (0..nm).map(|_| rng.pick(&["a", "b", "c", "d", "e", "f", "g"]).to_string()).collect();
            g.insert(name, ms);
        }
        emit_save(out, &g, &dir);
        let c = Case { fmt: 3, groups: Some(g), kerning: None, glyphs: BTreeSet::new(), extra: BTreeSet::new() };
        emit_load(out, &c, &dir);
    }
    rm_rf(&dir);
}
