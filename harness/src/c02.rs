//! C02: glif encode -> parse.  Valid glyphs built through the public API, every `WriteOptions`
//! combination over the run, `Glyph::encode_xml_with_options` then `Glyph::parse_raw`.
//!
//! line: `C02 <seed> <index> <opt> G <glyph tokens of g> | <events of the produced bytes> | <show table> | <fmt3 table> | <number table>
//!          => ok <glyph tokens of parse(encode(g))> REF <glyph tokens under the default options> | encerr | parseerr <kind> | panic`
//!   `<seed> <index>` identify the glyph (regenerated on replay; index >= 1000000 = hand-made witnesses),
//!   `<opt>` = `t|s` indent char, count 0..8, `d|q` quote style, e.g. `t1d`.
//!   show table: `<f64 bits>=<hex of Rust's to_string>`, fmt3 table: `<bits>=<hex of format!("{:.3}")>`.
use crate::c12::{glyph_tokens, tokenise};
use crate::common::*;
use crate::rng::Rng;
use norad::{
    AffineTransform, Anchor, Codepoints, Color, Component, Contour, ContourPoint, Glyph, Guideline, Identifier, Image, Line,
    Name, Plist, PointType, QuoteChar, WriteOptions,
};
use std::collections::BTreeSet;
use std::io::Write;
use std::path::PathBuf;

const NUMS: [f64; 25] = [
    // between the relative tolerance 1e-9 and plausible wrong omission thresholds
    1.0000001, 0.9999999, 1e-7,
    0.0, 1.0, -1.0, 10.0, 250.0, -37.5, 0.25, 1000.0, 123456789.0, -0.0, 3.14159, 1e300, -1e300, 1e-300, 5e-324, 2.2250738585072014e-308,
    0.1, 1.0000000000000002, 0.9999999999999999, 0.9999999999999998, 1.0000000000000004, 4294967296.5,
];
const NAMES: [&str; 8] = ["top", "bottom", "a b", "x<y", "\u{e9}t\u{e9}", "q&a", "n\"q'", "\u{1F600}"];
const STRS: [&str; 16] = [
    "", "plain", "line1\nline2", "line1\nline2\n", " lead", "trail ", "  ", "a<b>&\"c'", "cr\rx", "\u{1F600}\u{10FFFF}", "tab\there", "\n",
    "a\r\nb", "]]>", "&amp;", "\u{e9}",
];
const NOTES: [&str; 14] = [
    "a note", "x & y <z>", "line1\nline2", " lead", "trail ", "", "  ", "\u{1F600}", "a\tb", "two  blanks",
    // line ends inside the text (not at the ends, where trimming is the recorded finding)
    "a\r\nb", "a\rb", "l1\r\n\r\nl2\rl3", "cr\r end",
];

/// Unicode `White_Space` characters that are NOT XML white space (quick-xml's `trim_text` strips exactly space, tab,
/// CR, LF): they are content, at the edges as much as in the middle.  `str::trim` would strip all of them.
const UWS: [char; 11] = ['\u{a0}', '\u{3000}', '\u{2003}', '\u{2028}', '\u{2029}', '\u{1680}', '\u{202f}', '\u{205f}', '\u{85}', '\u{b}', '\u{c}'];
/// the same without the control characters a `Name` refuses
const UWS_NAME: [char; 8] = ['\u{a0}', '\u{3000}', '\u{2003}', '\u{2028}', '\u{2029}', '\u{1680}', '\u{202f}', '\u{205f}'];

/// a text with such characters at the very edges and/or in the middle, alone or combined with ASCII blanks;
/// `outermost` = keep a non-XML blank outermost (the text is then its own quick-xml trim)
fn edge_blank_text(rng: &mut Rng, pool: &[char], outermost: bool) -> String {
    let u = |rng: &mut Rng| pool[rng.below(pool.len())];
    let core = *rng.pick(&["", "x", "12", "\u{3053}\u{306e}\u{5b57}", "a b"]);
    let mut s = String::new();
    match rng.below(5) {
        0 => {}
        1 => s.push(u(rng)),
        2 => { s.push(u(rng)); s.push(' '); }
        3 => { if !outermost { s.push(' '); } s.push(u(rng)); s.push('\t'); }
        _ => { s.push(u(rng)); s.push(u(rng)); }
    }
    s.push_str(core);
    if rng.chance(1, 3) { s.push(u(rng)); s.push_str("m"); }
    match rng.below(5) {
        0 => {}
        1 => s.push(u(rng)),
        2 => { s.push(' '); s.push(u(rng)); }
        3 => { s.push('\n'); s.push(u(rng)); if !outermost { s.push(' '); } }
        _ => { s.push(u(rng)); s.push(u(rng)); }
    }
    if s.is_empty() || (outermost && s.trim_matches(|c| c == ' ' || c == '\t' || c == '\r' || c == '\n') != s) {
        s = format!("{}{}{}", u(rng), core, u(rng));
    }
    s
}

fn pk<'a>(rng: &mut Rng, xs: &[&'a str]) -> &'a str {
    xs[rng.below(xs.len())]
}
fn num(rng: &mut Rng) -> f64 {
    match rng.below(4) {
        0 => rng.range(-2000, 2000) as f64,
        1 => rng.range(-200000, 200000) as f64 / 64.0,
        _ => *rng.pick(&NUMS),
    }
}
fn coord(rng: &mut Rng) -> f64 {
    if rng.chance(1, 6) { num(rng) } else { rng.range(-1000, 1000) as f64 }
}
fn color(rng: &mut Rng) -> Option<Color> {
    if rng.chance(1, 2) {
        return None;
    }
    let mut ch = || match rng.below(5) {
        0 => 0.0,
        1 => 1.0,
        2 => 0.5,
        3 => (rng.below(1001) as f64) / 1000.0,
        _ => (rng.below(1000001) as f64) / 1000000.0,
    };
    Some(Color::new(ch(), ch(), ch(), ch()).unwrap())
}
fn name_text(rng: &mut Rng) -> String {
    match rng.below(6) {
        0 => edge_blank_text(rng, &UWS_NAME, false).replace(['\t', '\n'], " "),
        1 => pk(rng, &[" lead", "trail ", " both ", "\u{a0}", "in  side"]).to_string(),
        _ => pk(rng, &NAMES).to_string(),
    }
}
fn name(rng: &mut Rng) -> Option<Name> {
    if rng.chance(1, 2) { Some(Name::new(&name_text(rng)).unwrap()) } else { None }
}
fn transform(rng: &mut Rng) -> AffineTransform {
    let mut t = AffineTransform::default();
    if rng.chance(1, 2) { t.x_scale = num(rng) }
    if rng.chance(1, 3) { t.xy_scale = num(rng) }
    if rng.chance(1, 3) { t.yx_scale = num(rng) }
    if rng.chance(1, 2) { t.y_scale = num(rng) }
    if rng.chance(1, 3) { t.x_offset = num(rng) }
    if rng.chance(1, 3) { t.y_offset = num(rng) }
    t
}
fn pstr(rng: &mut Rng, plain: bool) -> String {
    if rng.chance(1, 6) {
        // newline-free, so inside the guards either way
        return edge_blank_text(rng, &UWS, true).replace('\n', "\u{2028}");
    }
    if plain { rng.pick(&["plain", "a<b>&\"c'", "\u{e9}", "x y", "k.1"]).to_string() } else { rng.pick(&STRS).to_string() }
}
fn pvalue(rng: &mut Rng, depth: usize, plain: bool) -> plist::Value {
    match rng.below(if depth > 2 { 7 } else { 9 }) {
        0 => plist::Value::String(pstr(rng, plain)),
        1 => plist::Value::Integer((*rng.pick(&[0i64, -1, 42, i64::MIN, i64::MAX])).into()),
        2 => plist::Value::Real(*rng.pick(&[0.0, 1.5, -2.25, 1e300, 0.1])),
        3 => plist::Value::Boolean(rng.chance(1, 2)),
        4 => plist::Value::Data((0..*rng.pick(&[0usize, 3, 100])).map(|i| i as u8).collect()),
        5 => plist::Value::Date(plist::Date::from_xml_format("2020-01-02T03:04:05Z").unwrap()),
        6 => plist::Value::Integer(u64::MAX.into()),
        7 => plist::Value::Array((0..rng.below(3)).map(|_| pvalue(rng, depth + 1, plain)).collect()),
        _ => plist::Value::Dictionary(pdict(rng, depth + 1, plain)),
    }
}
fn pdict(rng: &mut Rng, depth: usize, plain: bool) -> Plist {
    let mut d = Plist::new();
    for i in 0..rng.below(4) {
        let k = if rng.chance(1, 4) { pstr(rng, plain) } else { format!("k{}.{}", depth, i) };
        d.insert(k, pvalue(rng, depth, plain));
    }
    d
}

struct Ids(usize);
impl Ids {
    fn next(&mut self, rng: &mut Rng) -> Option<Identifier> {
        if rng.chance(1, 2) {
            return None;
        }
        self.0 += 1;
        let pre = *rng.pick(&["id", "a b", "<&>", "~", " lead", "  "]);
        let post = *rng.pick(&["", "", " ", "  t "]);
        Some(Identifier::new(&format!("{}{}{}", pre, self.0, post)).unwrap())
    }
}

const CONTOURS: [&str; 12] = ["l", "ll", "lll", "ml", "mll", "ooc", "looc", "oq", "oooq", "ooo", "mooc", "Lloc"];

/// `plain` = stay inside the guards of `glif_roundtrip_partial` (no newline in lib text, trimmed non-empty note, normal advance)
pub fn gen_glyph(rng: &mut Rng, plain: bool) -> Glyph {
    let mut g = Glyph::new(pk(rng, &["a", "A.alt \u{e9}", "x<&>\"y"]));
    let mut ids = Ids(0);
    if rng.chance(3, 4) {
        g.width = if plain { rng.range(-100, 2000) as f64 } else { num(rng) };
        if rng.chance(1, 3) {
            g.height = if plain { rng.range(0, 2000) as f64 / 4.0 } else { num(rng) };
        }
    }
    let n = rng.below(3);
    g.codepoints = Codepoints::new((0..n).map(|_| *rng.pick(&['A', 'a', '\u{e9}', '\u{1F600}', '\u{10FFFF}', '\u{0}'])));
    if rng.chance(1, 2) {
        g.note = Some(if rng.chance(1, 4) {
            edge_blank_text(rng, &UWS, plain)
        } else if plain { rng.pick(&["a note", "x & y <z>", "line1\nline2", "\u{1F600}", "two  blanks", "a\r\nb", "a\rb", "l1\r\n\r\nl2\rl3"]).to_string() } else { rng.pick(&NOTES).to_string() });
    }
    if rng.chance(1, 3) {
        g.image = Some(Image::new(PathBuf::from(*rng.pick(&["img.png", "a b.png", "\u{e9}.jpg", "x&y.png", "\u{a0}nb.png\u{3000}", " sp .png ", "\u{2003}"])), color(rng), transform(rng)).unwrap());
    }
    for _ in 0..rng.below(3) {
        let id = ids.next(rng);
        let mut a = Anchor::new(coord(rng), coord(rng), name(rng), color(rng), id);
        if a.identifier().is_some() && rng.chance(1, 2) {
            a.replace_lib(pdict(rng, 1, plain));
        }
        g.anchors.push(a);
    }
    for _ in 0..rng.below(3) {
        let line = match rng.below(3) {
            0 => Line::Vertical(coord(rng)),
            1 => Line::Horizontal(coord(rng)),
            _ => Line::Angle { x: coord(rng), y: coord(rng), degrees: *rng.pick(&[0.0, 360.0, 45.0, 359.999, 1e-300, 180.5]) },
        };
        let id = ids.next(rng);
        let mut gl = Guideline::new(line, name(rng), color(rng), id);
        if gl.identifier().is_some() && rng.chance(1, 2) {
            gl.replace_lib(pdict(rng, 1, plain));
        }
        g.guidelines.push(gl);
    }
    for _ in 0..rng.below(3) {
        let letters = *rng.pick(&CONTOURS);
        let mut pts = Vec::new();
        for ch in letters.chars() {
            let typ = match ch.to_ascii_lowercase() {
                'm' => PointType::Move,
                'l' => PointType::Line,
                'o' => PointType::OffCurve,
                'c' => PointType::Curve,
                _ => PointType::QCurve,
            };
            let id = ids.next(rng);
            let mut p = ContourPoint::new(coord(rng), coord(rng), typ, ch.is_ascii_uppercase(), name(rng), id);
            if p.identifier().is_some() && rng.chance(1, 3) {
                p.replace_lib(pdict(rng, 1, plain));
            }
            pts.push(p);
        }
        let id = ids.next(rng);
        let mut c = Contour::new(pts, id);
        if c.identifier().is_some() && rng.chance(1, 2) {
            c.replace_lib(pdict(rng, 1, plain));
        }
        g.contours.push(c);
    }
    if !plain && rng.chance(1, 2) {
        // contours without points (valid glif; the recorded finding: they do not come back, everything else does): at the
        // first / a middle / the last position, several in a row, with identifiers and object libs of their own
        for _ in 0..1 + rng.below(3) {
            let id = ids.next(rng);
            let mut c = Contour::new(Vec::new(), id);
            if c.identifier().is_some() && rng.chance(1, 2) {
                c.replace_lib(pdict(rng, 1, true));
            }
            let pos = match rng.below(4) {
                0 => 0,
                1 => g.contours.len(),
                _ => rng.below(g.contours.len() + 1),
            };
            g.contours.insert(pos, c);
        }
    }
    for _ in 0..rng.below(3) {
        let id = ids.next(rng);
        let mut k = Component::new(Name::new(&name_text(rng)).unwrap(), transform(rng), id);
        if k.identifier().is_some() && rng.chance(1, 2) {
            k.replace_lib(pdict(rng, 1, plain));
        }
        g.components.push(k);
    }
    if rng.chance(2, 3) {
        g.lib = pdict(rng, 0, plain);
    }
    g
}

/// hand-made witnesses (index - 1000000)
pub fn witness(k: usize) -> Option<Glyph> {
    let mut g = Glyph::new("a");
    match k {
        0 => {
            g.lib.insert("k".into(), plist::Value::String("line1\nline2".into()));
        }
        1 => {
            g.lib.insert("key\nnl".into(), plist::Value::Boolean(true));
        }
        2 => g.note = Some("  n \n".into()),
        3 => g.note = Some("".into()),
        4 => g.width = 5e-324,
        5 => g.contours.push(Contour::new(vec![], None)),
        6 => {
            let mut a = Anchor::new(1.0, 2.0, None, None, Some(Identifier::new("i").unwrap()));
            let mut d = Plist::new();
            d.insert("s".into(), plist::Value::String("a\nb".into()));
            a.replace_lib(d);
            g.anchors.push(a);
        }
        7 => {
            g.components.push(Component::new(Name::new("b").unwrap(), AffineTransform { x_scale: 1.0000000000000002, y_scale: 0.0, ..Default::default() }, None));
        }
        8 => {
            g.lib.insert("blank".into(), plist::Value::String("  ".into()));
            g.lib.insert("cr".into(), plist::Value::String("a\rb".into()));
        }
        9 => {
            g.width = 500.0;
            g.height = -0.0;
            g.codepoints = Codepoints::new(['A', '\u{1F600}']);
            g.note = Some("n".into());
        }
        10 => g.note = Some("a\r\nb".into()),
        11 => g.note = Some("a\rb".into()),
        12 => {
            g.note = Some("l1\r\n\r\nl2\rl3 &amp; <x>".into());
            let mut p = ContourPoint::new(1.0, 2.0, PointType::Line, false, Some(Name::new("Q&A <\"x\">").unwrap()), Some(Identifier::new("i&<>\"'").unwrap()));
            let mut d = Plist::new();
            d.insert("k".into(), plist::Value::Boolean(true));
            p.replace_lib(d);
            g.contours.push(Contour::new(vec![p], Some(Identifier::new("c&amp;").unwrap())));
        }
        13 => g.note = Some("\u{3000}\u{3053}\u{306e}\u{5b57}".into()),
        14 => g.note = Some("12\u{a0}".into()),
        15 => g.note = Some("\u{a0}".into()),
        16 => g.note = Some("\u{b}vt ff\u{c}".into()),
        17 => g.note = Some("\u{2028} \u{85}x\u{2003}\t\u{2029}".into()),
        18 => {
            g = Glyph::new("\u{a0}g \u{3000}");
            g.anchors.push(Anchor::new(1.0, 2.0, Some(Name::new(" a\u{2003}").unwrap()), None, Some(Identifier::new(" i ").unwrap())));
            g.guidelines.push(Guideline::new(Line::Vertical(1.0), Some(Name::new("\u{3000}").unwrap()), None, None));
            g.components.push(Component::new(Name::new("\u{a0}b ").unwrap(), AffineTransform::default(), None));
            g.image = Some(Image::new(PathBuf::from("\u{a0}i.png\u{3000}"), None, AffineTransform::default()).unwrap());
            g.lib.insert("\u{a0}k\u{3000}".into(), plist::Value::String("\u{2003}v\u{a0}".into()));
            g.lib.insert("k2".into(), plist::Value::String("\u{a0}".into()));
        }
        19..=22 => {
            let mk = |pts: usize, id: &str, lib: bool| {
                let points = (0..pts).map(|i| ContourPoint::new(i as f64, 1.0, PointType::Line, false, None, Some(Identifier::new(&format!("{}p{}", id, i)).unwrap()))).collect();
                let mut c = Contour::new(points, Some(Identifier::new(id).unwrap()));
                if lib {
                    let mut d = Plist::new();
                    d.insert("k".into(), plist::Value::String(id.into()));
                    c.replace_lib(d);
                }
                c
            };
            g.contours = match k {
                19 => vec![mk(2, "c1", true), mk(0, "e", true), mk(3, "c3", true)],
                20 => vec![mk(0, "e1", false), mk(0, "e2", true), mk(2, "c2", true), mk(1, "c3", false)],
                21 => vec![mk(2, "c1", false), mk(0, "e", false)],
                _ => vec![mk(0, "e1", true), mk(0, "e2", false)],
            };
            if k == 22 {
                g.components.push(Component::new(Name::new("b").unwrap(), AffineTransform::default(), Some(Identifier::new("k").unwrap())));
                g.anchors.push(Anchor::new(1.0, 2.0, None, None, Some(Identifier::new("a").unwrap())));
            }
        }
        _ => return None,
    }
    Some(g)
}

pub fn glyph_for(seed: u64, index: usize) -> Option<Glyph> {
    if index >= 1_000_000 {
        return witness(index - 1_000_000);
    }
    let mut rng = Rng::new(seed ^ (index as u64).wrapping_mul(0x9E37_79B9_7F4A_7C15));
    let plain = index % 3 != 0;
    Some(gen_glyph(&mut rng, plain))
}

fn opts_of(tok: &str) -> WriteOptions {
    let b = tok.as_bytes();
    let ch = if b[0] == b't' { WriteOptions::TAB } else { WriteOptions::SPACE };
    let n = (b[1] - b'0') as usize;
    let q = if b[2] == b'q' { QuoteChar::Single } else { QuoteChar::Double };
    WriteOptions::new().indent(ch, n).quote_char(q)
}

fn all_numbers(g: &Glyph, out: &mut BTreeSet<u64>) {
    let mut t = |v: f64| {
        out.insert(v.to_bits());
    };
    t(g.width);
    t(g.height);
    let tr = |a: &AffineTransform, t: &mut dyn FnMut(f64)| {
        for v in [a.x_scale, a.xy_scale, a.yx_scale, a.y_scale, a.x_offset, a.y_offset] {
            t(v)
        }
    };
    let col = |c: &Option<Color>, t: &mut dyn FnMut(f64)| {
        if let Some(c) = c {
            let (r, g, b, a) = c.channels();
            for v in [r, g, b, a] {
                t(v)
            }
        }
    };
    if let Some(i) = &g.image {
        tr(&i.transform, &mut t);
        col(&i.color, &mut t);
    }
    for a in &g.anchors {
        t(a.x);
        t(a.y);
        col(&a.color, &mut t);
    }
    for gl in &g.guidelines {
        match gl.line {
            Line::Vertical(x) => t(x),
            Line::Horizontal(y) => t(y),
            Line::Angle { x, y, degrees } => {
                t(x);
                t(y);
                t(degrees)
            }
        }
        col(&gl.color, &mut t);
    }
    for c in &g.contours {
        for p in &c.points {
            t(p.x);
            t(p.y);
        }
    }
    for k in &g.components {
        tr(&k.transform, &mut t);
    }
}

pub fn line_for(seed: u64, index: usize, opt: &str) -> Option<String> {
    let g = glyph_for(seed, index)?;
    let head = format!("C02 {} {} {} G {}", seed, index, opt, glyph_tokens(&g));
    let mut nums = BTreeSet::new();
    all_numbers(&g, &mut nums);
    let show: Vec<String> = nums.iter().map(|b| format!("{:016x}={}", b, hexs(&f64::from_bits(*b).to_string()))).collect();
    let fmt3: Vec<String> = nums.iter().map(|b| format!("{:016x}={}", b, hexs(&format!("{:.3}", f64::from_bits(*b))))).collect();
    let o = opts_of(opt);
    let enc = guarded(|| g.encode_xml_with_options(&o));
    let (evs, table, obs) = match enc {
        Err(_) => (vec![], vec![], "panic".to_string()),
        Ok(Err(_)) => (vec![], vec![], "encerr".to_string()),
        Ok(Ok(bytes)) => {
            let (evs, table) = tokenise(&bytes);
            let obs = match guarded(|| Glyph::parse_raw(&bytes)) {
                Err(_) => "panic".to_string(),
                Ok(Err(e)) => format!("parseerr {}", crate::c12::err_class(&e)),
                Ok(Ok(g2)) => {
                    let r = match guarded(|| g.encode_xml().map(|b| Glyph::parse_raw(&b))) {
                        Ok(Ok(Ok(g3))) => glyph_tokens(&g3),
                        _ => "none".to_string(),
                    };
                    format!("ok {} REF {}", glyph_tokens(&g2), r)
                }
            };
            (evs, table, obs)
        }
    };
    Some(format!("{} | {} | {} | {} | {} => {}", head, evs.join(" "), show.join(" "), fmt3.join(" "), table.join(" "), obs))
}

pub fn all_opts() -> Vec<String> {
    let mut v = Vec::new();
    for c in ['t', 's'] {
        for n in 0..=8 {
            for q in ['d', 'q'] {
                v.push(format!("{}{}{}", c, n, q));
            }
        }
    }
    v
}

pub fn gen(tier: &str, seed: u64, out: &mut dyn Write) {
    let n = if tier == "thorough" { 200_000 } else { 4_000 };
    let opts = all_opts();
    let mut rng = Rng::new(seed.wrapping_add(17));
    for i in 0..n {
        // three option sets per glyph, all 36 covered every 12 glyphs
        for j in 0..3 {
            let o = if j < 2 { &opts[(i * 3 + j) % opts.len()] } else { &opts[rng.below(opts.len())] };
            if let Some(l) = line_for(seed, i, o) {
                writeln!(out, "{}", l).unwrap();
            }
        }
    }
}
