//! SplitMix64: every random choice of the harness derives from one state seeded by VERIF_SEED.
#[derive(Clone)]
pub struct Rng(pub u64);

impl Rng {
    pub fn new(seed: u64) -> Self {
        Rng(seed ^ 0x9E37_79B9_7F4A_7C15)
    }
    pub fn next(&mut self) -> u64 {
        self.0 = self.0.wrapping_add(0x9E37_79B9_7F4A_7C15);
        let mut z = self.0;
        z = (z ^ (z >> 30)).wrapping_mul(0xBF58_476D_1CE4_E5B9);
        z = (z ^ (z >> 27)).wrapping_mul(0x94D0_49BB_1331_11EB);
        z ^ (z >> 31)
    }
    /// uniform in 0..n (n > 0)
    pub fn below(&mut self, n: usize) -> usize {
        (self.next() % (n as u64)) as usize
    }
    pub fn range(&mut self, lo: i64, hi: i64) -> i64 {
        lo + (self.next() % ((hi - lo + 1) as u64)) as i64
    }
    pub fn chance(&mut self, num: u32, den: u32) -> bool {
        (self.next() % den as u64) < num as u64
    }
    pub fn pick<'a, T>(&mut self, xs: &'a [T]) -> &'a T {
        &xs[self.below(xs.len())]
    }
    pub fn fork(&mut self) -> Rng {
        Rng(self.next())
    }
}
