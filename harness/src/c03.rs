//! C03 support streams (labelled as tests, not proofs): structure-aware mutation of glif, plist, UFO
//! trees and designspace files; every call wrapped in catch_unwind with the panic location recorded.
//!
//! line: `C03 <stream> <mutation-kind> <hex input | descriptor> => ok | err | panic:<file>:<msgclass>`
//! Cases that could kill the process (deep nesting → stack overflow) run in a child process
//! (`harness single C03 ...`) and report `abort:<signal>` / `timeout`.
use crate::common::*;
use crate::rng::Rng;
use norad::designspace::DesignSpaceDocument;
use norad::{Font, Glyph};
use std::io::Write;
use std::path::{Path, PathBuf};
use std::sync::Mutex;

pub static LAST_PANIC: Mutex<String> = Mutex::new(String::new());

pub fn install_hook() {
    std::panic::set_hook(Box::new(|info| {
        let loc = info.location().map(|l| l.file().to_string()).unwrap_or_default();
        // keep crate-relative file names stable: strip everything up to `src/` or the registry dir
        // stable, checkout-independent file names: `<crate>/src/...` for registry crates, `norad/src/...` for the
        // crate under test wherever its working tree lives (/repo or a scratch worktree)
        let file = match loc.rfind("/src/") {
            Some(i) => {
                let head = &loc[..i];
                let krate = if head.contains("/.cargo/registry/") || head.contains("/rustc/") {
                    head.rsplit('/').next().unwrap_or("").to_string()
                } else {
                    "norad".to_string()
                };
                format!("{}{}", krate, &loc[i..])
            }
            None => loc.clone(),
        };
        let msg = if let Some(s) = info.payload().downcast_ref::<&str>() {
            s.to_string()
        } else if let Some(s) = info.payload().downcast_ref::<String>() {
            s.clone()
        } else {
            "?".into()
        };
        let class: String = msg
            .split(|c: char| !c.is_alphanumeric())
            .filter(|w| !w.is_empty())
            .take(4)
            .collect::<Vec<_>>()
            .join("-");
        if std::env::var("VERIF_DEBUG").is_ok() {
            eprintln!("panic at {:?}: {}", info.location(), msg);
        }
        *LAST_PANIC.lock().unwrap() = format!("{}:{}", file.replace(' ', "_"), class);
    }));
}

fn outcome<T, E>(r: Result<Result<T, E>, String>) -> String {
    match r {
        Ok(Ok(_)) => "ok".into(),
        Ok(Err(_)) => "err".into(),
        Err(_) => format!("panic:{}", LAST_PANIC.lock().unwrap().clone()),
    }
}

// ------------------------------------------------------------------ base documents

const GLIF_FULL: &str = r#"<?xml version="1.0" encoding="UTF-8"?>
<glyph name="A" format="2">
  <advance width="500" height="10"/>
  <unicode hex="0041"/>
  <unicode hex="1F600"/>
  <note>hello &amp; goodbye</note>
  <image fileName="a.png" xScale="0.5" yScale="0.5" xOffset="1" yOffset="2" color="1,0,0,0.5"/>
  <guideline x="10" name="g" identifier="gid1" color="0,1,0,1"/>
  <guideline x="1" y="2" angle="45.5"/>
  <anchor x="1" y="2" name="top" identifier="aid1"/>
  <outline>
    <contour identifier="cid1">
      <point x="0" y="0" type="move" name="start" identifier="pid1"/>
      <point x="10" y="0" type="line" smooth="yes"/>
      <point x="20" y="10"/>
      <point x="30" y="20"/>
      <point x="40" y="0" type="curve"/>
    </contour>
    <contour>
      <point x="0" y="0"/>
      <point x="5" y="5"/>
      <point x="9" y="1" type="qcurve"/>
    </contour>
    <component base="B" xScale="2" xyScale="0.1" yxScale="0.2" yScale="3" xOffset="5" yOffset="-5" identifier="coid1"/>
  </outline>
  <lib>
    <dict>
      <key>public.objectLibs</key>
      <dict>
        <key>aid1</key><dict><key>k</key><integer>1</integer></dict>
        <key>pid1</key><dict><key>k</key><real>1.5</real></dict>
      </dict>
      <key>com.example</key>
      <array><string>x</string><true/><false/><data>AAEC</data><date>2020-01-02T03:04:05Z</date><dict/></array>
    </dict>
  </lib>
</glyph>
"#;

const GLIF_V1: &str = r#"<?xml version="1.0" encoding="UTF-8"?>
<glyph name="a" format="1">
  <advance width="268"/>
  <unicode hex="0061"/>
  <outline>
    <contour><point x="1" y="2" type="move" name="top"/></contour>
    <contour><point x="0" y="0" type="line"/><point x="5" y="5" type="line"/></contour>
    <component base="b"/>
  </outline>
  <lib><dict><key>a</key><string>b</string></dict></lib>
</glyph>
"#;

const DESIGNSPACE: &str = r#"<?xml version='1.0' encoding='UTF-8'?>
<designspace format="4.1">
  <axes>
    <axis tag="wght" name="weight" minimum="100" maximum="900" default="400"><map input="100" output="10"/><map input="900" output="90"/></axis>
    <axis tag="ital" name="italic" values="0 1" default="0" hidden="1"/>
  </axes>
  <rules processing="last">
    <rule name="r1"><conditionset><condition name="weight" minimum="500" maximum="900"/></conditionset><sub name="a" with="a.alt"/></rule>
  </rules>
  <sources>
    <source filename="a.ufo" name="master.a" familyname="F" stylename="S" layer="bg"><location><dimension name="weight" xvalue="10"/><dimension name="italic" xvalue="0" yvalue="1"/></location></source>
  </sources>
  <instances>
    <instance name="i1" familyname="F" stylename="S" filename="i.ufo" postscriptfontname="F-S" stylemapfamilyname="F" stylemapstylename="regular">
      <location><dimension name="weight" xvalue="50"/></location>
      <lib><dict><key>k</key><array><integer>1</integer><real>2.5</real><data>AAEC</data><date>2020-01-02T03:04:05Z</date></array></dict></lib>
    </instance>
  </instances>
  <lib><dict><key>a</key><true/></dict></lib>
</designspace>
"#;

fn read_testdata(names: &[&str]) -> Vec<Vec<u8>> {
    let repo = std::env::var("VERIF_REPO").unwrap_or_else(|_| "/repo".into());
    names.iter().filter_map(|n| std::fs::read(Path::new(&repo).join("testdata").join(n)).ok()).collect()
}

// ------------------------------------------------------------------ mutations

const NUMS: &[&str] = &[
    "1e400", "-1e400", "NaN", "inf", "-inf", "-0", "", " 1", "1 ", "0x10", "99999999999999999999999999", "1e-400",
    "4294967296", "-2147483649", "1.7976931348623157e308", "١٢", "1_0", "+5", ".5", "5.", "1e", "--1",
];
const STRS: &[&str] = &[
    "", "..", ".", "/", "../../x", "/abs/path", "a/b", "\u{0}", "\u{1}", "\u{7f}", "\u{85}", "public.default", "glyphs",
    "con", "a\nb", " ", "\u{feff}", "&amp;", "&#0;", "&#x110000;", "&bogus;", "]]>", "<", "\u{10ffff}",
];
const TAGS: &[&str] = &[
    "dict", "array", "string", "integer", "real", "true", "false", "data", "date", "key", "glyph", "outline", "contour",
    "point", "component", "anchor", "guideline", "image", "advance", "unicode", "note", "lib", "plist", "axis", "map",
    "source", "instance", "location", "dimension", "rule", "rules", "sub", "condition", "conditionset", "axes", "sources",
    "instances", "designspace", "labelname",
];

fn find_all(hay: &[u8], pred: impl Fn(&[u8], usize) -> Option<usize>) -> Vec<(usize, usize)> {
    let mut v = Vec::new();
    let mut i = 0;
    while i < hay.len() {
        if let Some(end) = pred(hay, i) {
            v.push((i, end));
            i = end.max(i + 1);
        } else {
            i += 1;
        }
    }
    v
}

/// spans of attribute values `="..."` (inside the quotes)
fn attr_values(doc: &[u8]) -> Vec<(usize, usize)> {
    find_all(doc, |d, i| {
        if d[i] == b'=' && i + 1 < d.len() && (d[i + 1] == b'"' || d[i + 1] == b'\'') {
            let q = d[i + 1];
            let s = i + 2;
            d[s..].iter().position(|c| *c == q).map(|e| s + e)
        } else {
            None
        }
    })
    .into_iter()
    .map(|(i, e)| (i + 2, e))
    .collect()
}

/// spans of text content `>text<`
fn text_spans(doc: &[u8]) -> Vec<(usize, usize)> {
    find_all(doc, |d, i| {
        if d[i] == b'>' {
            let s = i + 1;
            d[s..].iter().position(|c| *c == b'<').and_then(|e| if e > 0 { Some(s + e) } else { None })
        } else {
            None
        }
    })
    .into_iter()
    .map(|(i, e)| (i + 1, e))
    .filter(|(s, e)| s < e)
    .collect()
}

/// spans of whole tags `<...>`
fn tag_spans(doc: &[u8]) -> Vec<(usize, usize)> {
    find_all(doc, |d, i| if d[i] == b'<' { d[i..].iter().position(|c| *c == b'>').map(|e| i + e + 1) } else { None })
}

fn splice(doc: &[u8], s: usize, e: usize, with: &[u8]) -> Vec<u8> {
    let mut v = doc[..s].to_vec();
    v.extend_from_slice(with);
    v.extend_from_slice(&doc[e..]);
    v
}

pub fn mutate(rng: &mut Rng, doc: &[u8]) -> (String, Vec<u8>) {
    if doc.len() < 4 {
        return ("none".into(), doc.to_vec());
    }
    let kind = rng.below(13);
    match kind {
        0 => ("truncate".into(), doc[..rng.below(doc.len() + 1)].to_vec()),
        1 => {
            let s = rng.below(doc.len());
            let e = (s + 1 + rng.below(40)).min(doc.len());
            ("delete-range".into(), splice(doc, s, e, b""))
        }
        2 | 3 => {
            let spans = attr_values(doc);
            if spans.is_empty() {
                return ("none".into(), doc.to_vec());
            }
            let (s, e) = *rng.pick(&spans);
            if kind == 2 {
                ("attr-number".into(), splice(doc, s, e, rng.pick(NUMS).as_bytes()))
            } else {
                let v = rng.pick(STRS);
                let esc = v.replace('&', "&amp;").replace('<', "&lt;").replace('"', "&quot;");
                let raw = rng.chance(1, 4);
                ("attr-string".into(), splice(doc, s, e, if raw { v.as_bytes() } else { esc.as_bytes() }))
            }
        }
        4 => {
            let spans = text_spans(doc);
            if spans.is_empty() {
                return ("none".into(), doc.to_vec());
            }
            let (s, e) = *rng.pick(&spans);
            let v: &str = if rng.chance(1, 2) { *rng.pick(NUMS) } else { *rng.pick(STRS) };
            ("text-replace".into(), splice(doc, s, e, v.as_bytes()))
        }
        5 => {
            let spans = tag_spans(doc);
            if spans.is_empty() {
                return ("none".into(), doc.to_vec());
            }
            let (s, e) = *rng.pick(&spans);
            ("tag-delete".into(), splice(doc, s, e, b""))
        }
        6 => {
            let spans = tag_spans(doc);
            if spans.is_empty() {
                return ("none".into(), doc.to_vec());
            }
            let (s, e) = *rng.pick(&spans);
            let t = doc[s..e].to_vec();
            ("tag-duplicate".into(), splice(doc, e, e, &t))
        }
        7 => {
            // rename a tag (open or close) to another known tag
            let spans = tag_spans(doc);
            if spans.is_empty() {
                return ("none".into(), doc.to_vec());
            }
            let (s, e) = *rng.pick(&spans);
            let inner = &doc[s + 1..e - 1];
            let close = inner.first() == Some(&b'/');
            let name_start = s + 1 + close as usize;
            let name_end = doc[name_start..e].iter().position(|c| !c.is_ascii_alphanumeric()).map(|p| name_start + p).unwrap_or(e);
            ("tag-rename".into(), splice(doc, name_start, name_end, rng.pick(TAGS).as_bytes()))
        }
        8 => {
            // swap two tags
            let spans = tag_spans(doc);
            if spans.len() < 2 {
                return ("none".into(), doc.to_vec());
            }
            let a = *rng.pick(&spans);
            let b = *rng.pick(&spans);
            let (a, b) = if a.0 <= b.0 { (a, b) } else { (b, a) };
            if a.1 > b.0 {
                return ("none".into(), doc.to_vec());
            }
            let mut v = doc[..a.0].to_vec();
            v.extend_from_slice(&doc[b.0..b.1]);
            v.extend_from_slice(&doc[a.1..b.0]);
            v.extend_from_slice(&doc[a.0..a.1]);
            v.extend_from_slice(&doc[b.1..]);
            ("tag-swap".into(), v)
        }
        9 => {
            // invalid UTF-8 / random byte
            let s = rng.below(doc.len());
            let b = *rng.pick(&[0xffu8, 0xc0, 0x80, 0x00, b'<', b'&', b'"']);
            ("byte-replace".into(), splice(doc, s, s + 1, &[b]))
        }
        10 => {
            // moderate nesting inside the first <dict> / <array> content position
            let depth = 1 + rng.below(200);
            let tag = if rng.chance(1, 2) { "array" } else { "dict" };
            let mut ins = String::new();
            for _ in 0..depth {
                ins.push_str(&format!("<{}>", tag));
                if tag == "dict" {
                    ins.push_str("<key>k</key>");
                }
            }
            for _ in 0..depth {
                ins.push_str(&format!("</{}>", tag));
            }
            let pos = find_sub(doc, b"<array>").or_else(|| find_sub(doc, b"<dict>")).map(|p| p + if doc[p + 1] == b'a' { 7 } else { 6 });
            match pos {
                Some(p) if p >= 2 => {
                    let pre = if doc[p - 2] == b't' { "<key>nest</key>".to_string() } else { String::new() };
                    ("nest-moderate".into(), splice(doc, p, p, format!("{}{}", pre, ins).as_bytes()))
                }
                _ => ("none".into(), doc.to_vec()),
            }
        }
        11 => {
            // long value
            let spans = attr_values(doc);
            if spans.is_empty() {
                return ("none".into(), doc.to_vec());
            }
            let (s, e) = *rng.pick(&spans);
            let n = 1000 * (1 + rng.below(100));
            ("attr-long".into(), splice(doc, s, e, "9".repeat(n).as_bytes()))
        }
        _ => {
            // insert an XML construct at a tag boundary
            let spans = tag_spans(doc);
            if spans.is_empty() {
                return ("none".into(), doc.to_vec());
            }
            let (_, e) = *rng.pick(&spans);
            let c = rng.pick(&[
                "<!-- c -->", "<![CDATA[x]]>", "<?pi x?>", "<!DOCTYPE x>", "<x:y xmlns:x='u'/>", "&amp;", "\u{feff}", "<a", "</", "<>",
            ]);
            ("insert-construct".into(), splice(doc, e, e, c.as_bytes()))
        }
    }
}

fn find_sub(hay: &[u8], needle: &[u8]) -> Option<usize> {
    hay.windows(needle.len()).position(|w| w == needle)
}

// ------------------------------------------------------------------ entry points

pub fn run_glif(doc: &[u8]) -> String {
    let r = guarded(|| {
        let g = Glyph::parse_raw(doc)?;
        // whatever parses must also encode without panicking
        let _ = g.encode_xml();
        Ok::<(), norad::error::GlifLoadError>(())
    });
    outcome(r)
}

pub fn run_designspace(doc: &[u8], scratch: &Path) -> String {
    let p = scratch.join("d.designspace");
    std::fs::write(&p, doc).unwrap();
    let r = guarded(|| {
        let d = DesignSpaceDocument::load(&p)?;
        let _ = d.save(scratch.join("d2.designspace"));
        Ok::<(), norad::error::DesignSpaceLoadError>(())
    });
    outcome(r)
}

/// write a small but complete UFO with norad itself
pub fn base_ufo(dir: &Path) {
    rm_rf(dir);
    let mut f = Font::new();
    let mut g = Glyph::parse_raw(GLIF_FULL.as_bytes()).unwrap();
    g.image = None;
    f.default_layer_mut().insert_glyph(g);
    f.default_layer_mut().insert_glyph(Glyph::new("B"));
    let l = f.layers.new_layer("bg").unwrap();
    l.insert_glyph(Glyph::new("A"));
    l.color = Some(norad::Color::new(1.0, 0.5, 0.0, 1.0).unwrap());
    f.lib.insert("k".into(), plist::Value::String("v".into()));
    f.groups.insert(norad::Name::new("public.kern1.A").unwrap(), vec![norad::Name::new("A").unwrap()]);
    let mut inner = std::collections::BTreeMap::new();
    inner.insert(norad::Name::new("B").unwrap(), -10.0);
    f.kerning.insert(norad::Name::new("public.kern1.A").unwrap(), inner);
    f.features = "feature kern {} kern;\n".into();
    f.font_info.family_name = Some("Fam".into());
    f.font_info.units_per_em = Some(norad::fontinfo::NonNegativeIntegerOrFloat::new(1000.0).unwrap());
    f.font_info.open_type_head_created = Some("2020/01/02 03:04:05".into());
    f.font_info.postscript_blue_values = Some(vec![0.0, 10.0]);
    f.data.insert(PathBuf::from("a/b.txt"), b"hello".to_vec()).unwrap();
    f.images.insert(PathBuf::from("i.png"), vec![0x89, b'P', b'N', b'G', 0x0d, 0x0a, 0x1a, 0x0a, 1, 2]).unwrap();
    f.save(dir).unwrap();
}

const TREE_FILES: &[&str] = &[
    "metainfo.plist", "fontinfo.plist", "lib.plist", "groups.plist", "kerning.plist", "layercontents.plist",
    "glyphs/contents.plist", "glyphs/A_.glif", "glyphs.bg/contents.plist", "glyphs.bg/layerinfo.plist",
];

pub fn run_tree(base: &Path, rel: &str, kind: &str, content: &[u8], scratch: &Path) -> String {
    let dir = scratch.join("t.ufo");
    rm_rf(&dir);
    copy_dir(base, &dir);
    let target = dir.join(rel);
    match kind {
        "file-missing" => rm_rf(&target),
        "file-is-dir" => {
            rm_rf(&target);
            std::fs::create_dir_all(&target).unwrap();
        }
        "file-symlink-loop" => {
            rm_rf(&target);
            let _ = std::os::unix::fs::symlink(&target, &target);
        }
        "layer-dotdot-with-contents" => {
            // the layer directory `..` resolves to the scratch directory: give it a contents.plist
            std::fs::write(&target, content).unwrap();
            std::fs::write(
                scratch.join("contents.plist"),
                "<?xml version=\"1.0\" encoding=\"UTF-8\"?>\n<plist version=\"1.0\"><dict/></plist>\n",
            )
            .unwrap();
        }
        _ => std::fs::write(&target, content).unwrap(),
    }
    let r = guarded(|| {
        let f = Font::load(&dir)?;
        // whatever loads must also save without panicking
        let _ = f.save(scratch.join("t2.ufo"));
        Ok::<(), norad::error::FontLoadError>(())
    });
    let o = outcome(r);
    rm_rf(&dir);
    rm_rf(&scratch.join("t2.ufo"));
    let _ = std::fs::remove_file(scratch.join("contents.plist"));
    o
}

fn copy_dir(from: &Path, to: &Path) {
    std::fs::create_dir_all(to).unwrap();
    for e in std::fs::read_dir(from).unwrap() {
        let e = e.unwrap();
        let p = e.path();
        let t = to.join(e.file_name());
        if p.is_dir() {
            copy_dir(&p, &t);
        } else {
            std::fs::copy(&p, &t).unwrap();
        }
    }
}

/// adversarial relative paths placed into layercontents.plist / contents.plist
const PATHS: &[&str] = &["..", ".", "", "/", "../x", "a/b", "/abs", "glyphs/../glyphs", "glyphs/", "./glyphs", "GLYPHS", "\u{0}"];

fn layercontents_with(path: &str) -> Vec<u8> {
    let esc = path.replace('&', "&amp;").replace('<', "&lt;");
    format!(
        "<?xml version=\"1.0\" encoding=\"UTF-8\"?>\n<plist version=\"1.0\"><array><array><string>public.default</string><string>glyphs</string></array><array><string>bg</string><string>{}</string></array></array></plist>\n",
        esc
    )
    .into_bytes()
}

fn contents_with(path: &str) -> Vec<u8> {
    let esc = path.replace('&', "&amp;").replace('<', "&lt;");
    format!(
        "<?xml version=\"1.0\" encoding=\"UTF-8\"?>\n<plist version=\"1.0\"><dict><key>A</key><string>{}</string><key>B</key><string>B_.glif</string></dict></plist>\n",
        esc
    )
    .into_bytes()
}

/// API-built values that the documentation does not exclude
pub fn run_api(which: &str, scratch: &Path) -> String {
    use std::os::unix::ffi::OsStringExt;
    match which {
        "image-non-utf8-name" => {
            let r = guarded(|| {
                let mut g = Glyph::new("a");
                let name = PathBuf::from(std::ffi::OsString::from_vec(vec![0xff, b'.', b'p', b'n', b'g']));
                match norad::Image::new(name, None, Default::default()) {
                    Ok(img) => g.image = Some(img),
                    Err(_) => return Err(()),
                }
                g.encode_xml().map(|_| ()).map_err(|_| ())
            });
            outcome(r)
        }
        "glyph-nan-width" => {
            let r = guarded(|| {
                let mut g = Glyph::new("a");
                g.width = f64::NAN;
                g.height = f64::INFINITY;
                g.encode_xml().map(|_| ()).map_err(|_| ())
            });
            outcome(r)
        }
        "object-lib-without-identifier-roundtrip" => {
            let r = guarded(|| {
                let mut g = Glyph::new("a");
                let mut a = norad::Anchor::new(0.0, 0.0, None, None, Some(norad::Identifier::new("id1").unwrap()));
                a.replace_lib(Default::default());
                g.anchors.push(a);
                g.encode_xml().map(|_| ()).map_err(|_| ())
            });
            outcome(r)
        }
        "save-into-file-path" => {
            let p = scratch.join("plainfile");
            std::fs::write(&p, b"x").unwrap();
            let r = guarded(|| Font::new().save(&p));
            let _ = std::fs::remove_file(&p);
            outcome(r)
        }
        "save-empty-path" => outcome(guarded(|| Font::new().save(""))),
        "load-nonexistent" => outcome(guarded(|| Font::load(scratch.join("nope.ufo")))),
        "fontinfo-guideline-nan-angle" => {
            let r = guarded(|| {
                let mut f = Font::new();
                f.guidelines_mut().push(norad::Guideline::new(
                    norad::Line::Angle { x: 0.0, y: 0.0, degrees: f64::NAN },
                    None,
                    None,
                    None,
                ));
                f.save(scratch.join("g.ufo"))
            });
            rm_rf(&scratch.join("g.ufo"));
            outcome(r)
        }
        w if w.starts_with("wopt-") => run_wopt(w, scratch),
        w if w.starts_with("olib-") => run_olib(w, scratch),
        _ => "unknown".into(),
    }
}

fn small_lib(tag: &str) -> norad::Plist {
    let mut inner = plist::Dictionary::new();
    inner.insert("n".into(), plist::Value::Integer(1.into()));
    inner.insert("s".into(), plist::Value::String(format!("two\nlines {}", tag)));
    let mut l = norad::Plist::new();
    l.insert("com.example.k".into(), plist::Value::String(tag.to_string()));
    l.insert("com.example.d".into(), plist::Value::Dictionary(inner));
    l.insert("com.example.a".into(), plist::Value::Array(vec![plist::Value::Boolean(true), plist::Value::Real(0.5)]));
    l
}

/// a glyph that exercises every writer path that indents by hand: glyph lib, object libs on every kind of object
fn libby_glyph() -> Glyph {
    let id = |s: &str| Some(norad::Identifier::new(s).unwrap());
    let mut g = Glyph::new("a");
    g.lib = small_lib("glyph");
    let mut a = norad::Anchor::new(1.0, 2.0, None, None, id("a1"));
    a.replace_lib(small_lib("anchor"));
    g.anchors.push(a);
    let mut gl = norad::Guideline::new(norad::Line::Vertical(3.0), None, None, id("g1"));
    gl.replace_lib(small_lib("guide"));
    g.guidelines.push(gl);
    let mut p = norad::ContourPoint::new(0.0, 0.0, norad::PointType::Line, false, None, id("p1"));
    p.replace_lib(small_lib("point"));
    let mut c = norad::Contour::new(vec![p, norad::ContourPoint::new(1.0, 1.0, norad::PointType::Line, false, None, None)], id("c1"));
    c.replace_lib(small_lib("contour"));
    g.contours.push(c);
    let mut m = norad::Component::new(norad::Name::new("b").unwrap(), Default::default(), id("m1"));
    m.replace_lib(small_lib("component"));
    g.components.push(m);
    g
}

/// `wopt-<s|t>-<count>-<d|s>-<glyph|font>`: every option of `WriteOptions` at typical and untypical values (the indent
/// width is a caller-supplied usize with no documented limit) against a glyph whose libs are written by the hand-rolled
/// indenter, through `Glyph::encode_xml_with_options` and `Font::save_with_options`
fn run_wopt(which: &str, scratch: &Path) -> String {
    let t: Vec<&str> = which.split('-').collect();
    if t.len() != 5 {
        return "unknown".into();
    }
    let ch = if t[1] == "s" { norad::WriteOptions::SPACE } else { norad::WriteOptions::TAB };
    let count: usize = t[2].parse().unwrap_or(1);
    let quote = if t[3] == "s" { norad::QuoteChar::Single } else { norad::QuoteChar::Double };
    let target = t[4].to_string();
    let dir = scratch.join("wopt.ufo");
    let r = guarded(|| {
        let opts = norad::WriteOptions::default().indent(ch, count).quote_char(quote);
        let g = libby_glyph();
        if target == "glyph" {
            let bytes = g.encode_xml_with_options(&opts).map_err(|_| ())?;
            // what was written must be readable again
            Glyph::parse_raw(&bytes).map(|_| ()).map_err(|_| ())
        } else {
            let mut f = Font::new();
            f.lib = small_lib("font");
            f.layers.default_layer_mut().insert_glyph(g);
            f.layers.default_layer_mut().insert_glyph(Glyph::new("b"));
            f.save_with_options(&dir, &opts).map_err(|_| ())?;
            Font::load(&dir).map(|_| ()).map_err(|_| ())
        }
    });
    rm_rf(&dir);
    outcome(r)
}

pub const WOPT_COUNTS: &[usize] = &[0, 1, 2, 3, 4, 7, 8, 15, 16, 17, 31, 32, 33, 63, 64, 65, 100, 255, 256, 257, 1000, 4096];

/// `olib-<a|g|c|p|m>-<0|1>-<ops>`: histories of the object-lib API on one object (anchor, guideline, contour, point,
/// component; created with or without an identifier), then encode, parse, encode. ops: e replace_lib(empty),
/// n replace_lib(non-empty), i lib_mut().insert, x lib_mut() remove every key, t take_lib, r replace_identifier
fn run_olib(which: &str, scratch: &Path) -> String {
    let t: Vec<&str> = which.split('-').collect();
    if t.len() != 4 {
        return "unknown".into();
    }
    let kind = t[1].to_string();
    let with_id = t[2] == "1";
    let ops = t[3].to_string();
    let dir = scratch.join("olib.ufo");
    let to_font = ops.len() % 2 == 1 && ops.ends_with('i');
    let r = guarded(|| {
        macro_rules! drive {
            ($o:expr) => {{
                let mut k = 0;
                for op in ops.chars() {
                    k += 1;
                    match op {
                        'e' => {
                            $o.replace_lib(norad::Plist::new());
                        }
                        'n' => {
                            $o.replace_lib(small_lib("n"));
                        }
                        'i' => {
                            if let Some(l) = $o.lib_mut() {
                                l.insert(format!("k{}", k), plist::Value::Integer(7.into()));
                            }
                        }
                        'x' => {
                            if let Some(l) = $o.lib_mut() {
                                let keys: Vec<String> = l.keys().cloned().collect();
                                for key in keys {
                                    l.remove(&key);
                                }
                            }
                        }
                        't' => {
                            $o.take_lib();
                        }
                        'r' => {
                            $o.replace_identifier(norad::Identifier::new(&format!("new{}", k)).unwrap());
                        }
                        _ => {}
                    }
                }
            }};
        }
        let id = if with_id { Some(norad::Identifier::new("id0").unwrap()) } else { None };
        let mut g = Glyph::new("a");
        match kind.as_str() {
            "a" => {
                let mut o = norad::Anchor::new(1.0, 2.0, None, None, id);
                drive!(o);
                g.anchors.push(o);
            }
            "g" => {
                let mut o = norad::Guideline::new(norad::Line::Horizontal(3.0), None, None, id);
                drive!(o);
                g.guidelines.push(o);
            }
            "c" => {
                let p = norad::ContourPoint::new(0.0, 0.0, norad::PointType::Line, false, None, None);
                let mut o = norad::Contour::new(vec![p], id);
                drive!(o);
                g.contours.push(o);
            }
            "p" => {
                let mut o = norad::ContourPoint::new(0.0, 0.0, norad::PointType::Line, false, None, id);
                drive!(o);
                g.contours.push(norad::Contour::new(vec![o], None));
            }
            _ => {
                let mut o = norad::Component::new(norad::Name::new("b").unwrap(), Default::default(), id);
                drive!(o);
                g.components.push(o);
            }
        }
        if to_font {
            let mut f = Font::new();
            f.layers.default_layer_mut().insert_glyph(g);
            f.save(&dir).map_err(|_| ())?;
            Font::load(&dir).map(|_| ()).map_err(|_| ())
        } else {
            let bytes = g.encode_xml().map_err(|_| ())?;
            let g2 = Glyph::parse_raw(&bytes).map_err(|_| ())?;
            g2.encode_xml().map(|_| ()).map_err(|_| ())
        }
    });
    rm_rf(&dir);
    outcome(r)
}

fn olib_sequences(max_len: usize) -> Vec<String> {
    let alpha = ['e', 'n', 'i', 'x', 't', 'r'];
    let mut out = vec![String::new()];
    let mut cur = vec![String::new()];
    for _ in 0..max_len {
        let mut next = Vec::new();
        for s in &cur {
            for a in alpha {
                let mut t = s.clone();
                t.push(a);
                next.push(t);
            }
        }
        out.extend(next.iter().cloned());
        cur = next;
    }
    out
}

pub const API_CASES: &[&str] = &[
    "image-non-utf8-name",
    "glyph-nan-width",
    "object-lib-without-identifier-roundtrip",
    "save-into-file-path",
    "save-empty-path",
    "load-nonexistent",
    "fontinfo-guideline-nan-angle",
];

/// deep nesting: run in a child process, because a stack overflow aborts
fn run_child(stream: &str, depth: usize, scratch: &Path) -> String {
    let exe = std::env::current_exe().unwrap();
    let mut child = match std::process::Command::new(exe)
        .args(["single", "C03", stream, &depth.to_string()])
        .env("VERIF_SCRATCH", scratch)
        .stdout(std::process::Stdio::piped())
        .stderr(std::process::Stdio::null())
        .spawn()
    {
        Ok(c) => c,
        Err(_) => return "spawn-failed".into(),
    };
    let start = std::time::Instant::now();
    loop {
        match child.try_wait() {
            Ok(Some(st)) => {
                use std::os::unix::process::ExitStatusExt;
                let mut out = String::new();
                if let Some(mut so) = child.stdout.take() {
                    use std::io::Read;
                    let _ = so.read_to_string(&mut out);
                }
                if let Some(sig) = st.signal() {
                    return format!("abort:signal{}", sig);
                }
                return out.trim().to_string();
            }
            Ok(None) => {
                let limit = if stream.starts_with("fifo") { 10 } else { 60 };
                if start.elapsed().as_secs() > limit {
                    let _ = child.kill();
                    let _ = child.wait();
                    return "timeout".into();
                }
                std::thread::sleep(std::time::Duration::from_millis(5));
            }
            Err(_) => return "wait-failed".into(),
        }
    }
}

pub fn nested_plist(depth: usize, tag: &str) -> String {
    let mut s = String::new();
    for _ in 0..depth {
        s.push_str(&format!("<{}>", tag));
        if tag == "dict" {
            s.push_str("<key>k</key>");
        }
    }
    if tag == "dict" {
        s.push_str("<string>x</string>");
    }
    for _ in 0..depth {
        s.push_str(&format!("</{}>", tag));
    }
    s
}

/// entry for `harness single C03 <stream> <depth>`
pub fn single(stream: &str, depth: usize) -> String {
    let scratch = scratch_root().join("c03single");
    std::fs::create_dir_all(&scratch).unwrap();
    let r = match stream {
        "deep-glif-lib-dict" | "deep-glif-lib-array" => {
            let tag = if stream.ends_with("dict") { "dict" } else { "array" };
            let doc = format!(
                "<?xml version=\"1.0\" encoding=\"UTF-8\"?>\n<glyph name=\"a\" format=\"2\"><lib><dict><key>n</key>{}</dict></lib></glyph>",
                nested_plist(depth, tag)
            );
            run_glif(doc.as_bytes())
        }
        "deep-font-lib-dict" | "deep-font-lib-array" => {
            let tag = if stream.ends_with("dict") { "dict" } else { "array" };
            let base = scratch.join("base.ufo");
            base_ufo(&base);
            let doc = format!(
                "<?xml version=\"1.0\" encoding=\"UTF-8\"?>\n<plist version=\"1.0\"><dict><key>n</key>{}</dict></plist>",
                nested_plist(depth, tag)
            );
            let o = run_tree(&base, "lib.plist", "replace", doc.as_bytes(), &scratch);
            rm_rf(&base);
            o
        }
        "deep-designspace-lib" => {
            let doc = DESIGNSPACE.replace("<key>a</key><true/>", &format!("<key>a</key>{}", nested_plist(depth, "array")));
            run_designspace(doc.as_bytes(), &scratch)
        }
        "fifo-in-data" | "fifo-in-images" | "fifo-as-glif" => {
            // a named pipe where a plain file is expected: reading it would block for ever
            let base = scratch.join("base.ufo");
            base_ufo(&base);
            let p = match stream {
                "fifo-in-data" => base.join("data/pipe"),
                "fifo-in-images" => base.join("images/pipe.png"),
                _ => {
                    let g = base.join("glyphs/B_.glif");
                    let _ = std::fs::remove_file(&g);
                    g
                }
            };
            let _ = std::process::Command::new("mkfifo").arg(&p).status();
            let r = guarded(|| {
                let f = Font::load(&base)?;
                let _ = f.save(scratch.join("out.ufo"));
                Ok::<(), norad::error::FontLoadError>(())
            });
            let o = outcome(r);
            rm_rf(&base);
            o
        }
        "deep-glif-elements" => {
            let mut doc = String::from("<?xml version=\"1.0\" encoding=\"UTF-8\"?>\n<glyph name=\"a\" format=\"2\">");
            for _ in 0..depth {
                doc.push_str("<outline>");
            }
            run_glif(doc.as_bytes())
        }
        _ => "unknown".into(),
    };
    rm_rf(&scratch);
    r
}

pub const DEEP_STREAMS: &[&str] = &[
    "deep-glif-lib-dict",
    "deep-glif-lib-array",
    "deep-font-lib-dict",
    "deep-font-lib-array",
    "deep-designspace-lib",
    "deep-glif-elements",
];

pub fn observe(toks: &[&str], scratch: &Path) -> String {
    // toks: stream kind payload...
    match toks[0] {
        "glif" => run_glif(&unhex(toks[2])),
        "designspace" => run_designspace(&unhex(toks[2]), scratch),
        "tree" => {
            let base = scratch.join("base.ufo");
            if !base.exists() {
                base_ufo(&base);
            }
            let rel = String::from_utf8(unhex(toks[2])).unwrap();
            run_tree(&base, &rel, toks[1], &unhex(toks.get(3).copied().unwrap_or("-")), scratch)
        }
        "api" => run_api(toks[1], scratch),
        "deep" => run_child(toks[1], toks[2].parse().unwrap(), scratch),
        _ => "unknown-stream".into(),
    }
}

/// the API-built values and API histories alone (also run with a DEBUG build of norad and the harness: `debug_assert!`s
/// and arithmetic-overflow checks only exist there, and `cargo test` users run exactly that build)
pub fn gen_api(tier: &str, _seed: u64, out: &mut dyn Write) {
    let scratch = scratch_root().join("c03api");
    std::fs::create_dir_all(&scratch).unwrap();
    gen_api_into(tier == "thorough", &scratch, out);
    // a sample of the document streams as well: the unmutated bases and one mutation of each
    let mut rng = Rng::new(7);
    let mut glifs: Vec<Vec<u8>> = vec![GLIF_FULL.as_bytes().to_vec(), GLIF_V1.as_bytes().to_vec()];
    glifs.extend(read_testdata(&["sample_period.glif", "note.glif", "small_lib.glif", "glifv1.glif", "bom_glif.glif"]));
    for _ in 0..(if tier == "thorough" { 20_000 } else { 1_500 }) {
        let base = rng.pick(&glifs).clone();
        let (kind, doc) = mutate(&mut rng, &base);
        writeln!(out, "C03 glif {} {} => {}", kind, hex(&doc), run_glif(&doc)).unwrap();
    }
    rm_rf(&scratch);
}

fn gen_api_into(thorough: bool, scratch: &Path, out: &mut dyn Write) {
    let scratch = scratch.to_path_buf();
    // API-built values
    for c in API_CASES {
        let o = run_api(c, &scratch);
        writeln!(out, "C03 api {} => {}", c, o).unwrap();
    }
    // 4b. option structs at typical and untypical values: WriteOptions (indent character x width x quote style) against
    //     every writer path that indents by hand
    for ch in ["s", "t"] {
        for n in WOPT_COUNTS {
            for q in ["d", "s"] {
                for target in ["glyph", "font"] {
                    if target == "font" && (*n > 300 || (q == "s" && *n % 2 == 1)) {
                        continue;
                    }
                    let c = format!("wopt-{}-{}-{}-{}", ch, n, q, target);
                    let o = run_api(&c, &scratch);
                    writeln!(out, "C03 api {} => {}", c, o).unwrap();
                }
            }
        }
    }
    // 4c. histories of the object-lib API (lazily created identifiers, emptied libs, taken libs) on every kind of object:
    //     all sequences up to length 3 (quick) / 4 (thorough) over six operations, with and without an initial identifier
    for kind in ["a", "g", "c", "p", "m"] {
        for with_id in ["0", "1"] {
            for ops in olib_sequences(if thorough { 4 } else { 3 }) {
                let c = format!("olib-{}-{}-{}", kind, with_id, if ops.is_empty() { "_".to_string() } else { ops });
                let o = run_api(&c, &scratch);
                writeln!(out, "C03 api {} => {}", c, o).unwrap();
            }
        }
    }
}

pub fn gen(tier: &str, seed: u64, out: &mut dyn Write) {
    let scratch = scratch_root().join("c03");
    std::fs::create_dir_all(&scratch).unwrap();
    let mut rng = Rng::new(seed);
    let thorough = tier == "thorough";
    // 1. glif documents
    let mut glifs: Vec<Vec<u8>> = vec![GLIF_FULL.as_bytes().to_vec(), GLIF_V1.as_bytes().to_vec()];
    glifs.extend(read_testdata(&["sample_period.glif", "note.glif", "small_lib.glif", "glifv1.glif", "bom_glif.glif"]));
    let n_glif = if thorough { 400_000 } else { 25_000 };
    for i in 0..n_glif {
        let base = rng.pick(&glifs).clone();
        let (mut kind, mut doc) = mutate(&mut rng, &base);
        // stack a second mutation on one case in three
        if i % 3 == 0 {
            let (k2, d2) = mutate(&mut rng, &doc);
            kind = format!("{}+{}", kind, k2);
            doc = d2;
        }
        if doc.len() > 400_000 {
            continue;
        }
        let o = run_glif(&doc);
        writeln!(out, "C03 glif {} {} => {}", kind, hex(&doc), o).unwrap();
    }
    // 2. designspace documents
    let mut dss: Vec<Vec<u8>> = vec![DESIGNSPACE.as_bytes().to_vec()];
    dss.extend(read_testdata(&["MutatorSans.designspace", "wght.designspace"]));
    let n_ds = if thorough { 60_000 } else { 4_000 };
    for _ in 0..n_ds {
        let base = rng.pick(&dss).clone();
        let (kind, doc) = mutate(&mut rng, &base);
        let o = run_designspace(&doc, &scratch);
        writeln!(out, "C03 designspace {} {} => {}", kind, hex(&doc), o).unwrap();
    }
    // 3. UFO trees: one file mutated / replaced / missing / a directory; adversarial paths
    let base = scratch.join("base.ufo");
    base_ufo(&base);
    for rel in TREE_FILES {
        for kind in ["file-missing", "file-is-dir", "file-symlink-loop"] {
            let o = run_tree(&base, rel, kind, b"", &scratch);
            writeln!(out, "C03 tree {} {} - => {}", kind, hexs(rel), o).unwrap();
        }
    }
    for p in PATHS {
        let o = run_tree(&base, "layercontents.plist", "layer-path", &layercontents_with(p), &scratch);
        writeln!(out, "C03 tree layer-path:{} {} {} => {}", hexs(p), hexs("layercontents.plist"), hex(&layercontents_with(p)), o).unwrap();
        let o = run_tree(&base, "glyphs/contents.plist", "glif-path", &contents_with(p), &scratch);
        writeln!(out, "C03 tree glif-path:{} {} {} => {}", hexs(p), hexs("glyphs/contents.plist"), hex(&contents_with(p)), o).unwrap();
    }
    {
        let o = run_tree(&base, "layercontents.plist", "layer-dotdot-with-contents", &layercontents_with(".."), &scratch);
        writeln!(out, "C03 tree layer-dotdot-with-contents {} {} => {}", hexs("layercontents.plist"), hex(&layercontents_with("..")), o).unwrap();
    }
    let n_tree = if thorough { 60_000 } else { 3_000 };
    for _ in 0..n_tree {
        let rel = *rng.pick(TREE_FILES);
        let orig = std::fs::read(base.join(rel)).unwrap();
        let (kind, doc) = mutate(&mut rng, &orig);
        let o = run_tree(&base, rel, &kind, &doc, &scratch);
        writeln!(out, "C03 tree {} {} {} => {}", kind, hexs(rel), hex(&doc), o).unwrap();
    }
    gen_api_into(thorough, &scratch, out);
    // 5. deep nesting, each in a child process
    let depths: &[usize] = if thorough { &[100, 1000, 5000, 20000, 100000, 400000] } else { &[100, 2000, 20000, 100000] };
    for s in DEEP_STREAMS {
        for d in depths {
            // the designspace lib reader is super-linear in the nesting depth (depth 3000: about a minute,
            // 5000: several minutes; it does terminate) - keep the moderate depths small for this stream;
            // the large ones exhaust the stack at once
            if *s == "deep-designspace-lib" && *d > 500 && *d < 20000 {
                continue;
            }
            let o = run_child(s, *d, &scratch);
            writeln!(out, "C03 deep {} {} => {}", s, d, o).unwrap();
        }
    }
    // 6. special files where plain files are expected (child process + watchdog: a read would hang)
    for s in ["fifo-in-data", "fifo-in-images", "fifo-as-glif"] {
        let o = run_child(s, 0, &scratch);
        writeln!(out, "C03 deep {} 0 => {}", s, o).unwrap();
    }
    rm_rf(&scratch);
}
