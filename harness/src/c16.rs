//! C16: data and image stores.  Operation histories on `font.data` / `font.images` (empty, or loaded
//! lazily from a generated tree through `Font::load`), with explicit environment steps on the source
//! tree, and `Font::save` into a sandbox with sentinels.  Second stream `C16path`/`C16pp`: the path
//! model against `std::path`.
//!
//! line: `C16 <d|i> <token> <token> ... => <obs> <obs> ...`  (one observation per token)
//!   before `LOAD`: environment steps that build the source tree; `NEW` instead = `Font::new()`
//!   `I:<key>:<bytes>` insert   `R:<key>` remove   `G:<key>` get   `H:<key>` contains_key   `C` clear
//!   `CL` continue on a clone of the font (the original gets the same steps; `!` marks a differing observation)
//!   `X:<path>:<o|i|d>` replace by a symlink to a directory outside / inside the UFO, or a dangling one
//!   `T` iter   `K` keys/len/is_empty   `S`/`SA`/`SE` Font::save into a fresh sandbox whose target holds
//!   sentinels / is absent / is an empty directory
//!   `W:<path>:<bytes>` (re)write a file of the source store directory   `D:<path>` delete
//!   `M:<path>` replace by a directory   `L:<path>:<bytes>` replace by a symlink to a file with these bytes
//! observation: `<result>#<sorted keys>`; keys are never obtained by forcing a cell (keys() only).
use crate::common::*;
use crate::rng::Rng;
use norad::datastore::{DataType, Store};
use norad::Font;
use std::io::Write;
use std::os::unix::ffi::{OsStrExt, OsStringExt};
use std::path::{Path, PathBuf};

const PNG: [u8; 8] = [137u8, 80, 78, 71, 13, 10, 26, 10];

fn unhex_str(s: &str) -> String {
    String::from_utf8(unhex(s)).unwrap()
}

/// keys and tree paths travel as the hex of their raw bytes (they need not be UTF-8)
fn pb(h: &str) -> PathBuf {
    PathBuf::from(std::ffi::OsString::from_vec(unhex(h)))
}

fn khex(p: &Path) -> String {
    hex(p.as_os_str().as_bytes())
}

fn keys_of<T: DataType>(st: &Store<T>) -> String {
    let mut ks: Vec<Vec<u8>> = st.keys().map(|k| k.as_os_str().as_bytes().to_vec()).collect();
    ks.sort();
    ks.iter().map(|k| hex(k)).collect::<Vec<_>>().join(",")
}

/// contents through `keys()` + `get` (independent of `iter`), used for the dump after a save
fn get_dump<T: DataType>(st: &Store<T>) -> String {
    let mut v: Vec<(Vec<u8>, String)> = st
        .keys()
        .map(|k| {
            (k.as_os_str().as_bytes().to_vec(), match st.get(k) {
                Some(Ok(b)) => format!("o{}", hex(&b)),
                Some(Err(_)) => "e".to_string(),
                None => "missing".to_string(),
            })
        })
        .collect();
    v.sort();
    v.iter().map(|(k, r)| format!("{}={}", hex(k), r)).collect::<Vec<_>>().join(",")
}

fn iter_dump<T: DataType>(st: &Store<T>) -> String {
    let mut v: Vec<(Vec<u8>, String)> = st
        .iter()
        .map(|(k, r)| {
            (k.as_os_str().as_bytes().to_vec(), match r {
                Ok(b) => format!("o{}", hex(&b)),
                Err(_) => "e".to_string(),
            })
        })
        .collect();
    v.sort();
    v.iter().map(|(k, r)| format!("{}={}", hex(k), r)).collect::<Vec<_>>().join(",")
}

struct Ctx {
    dir: PathBuf,      // scratch directory of this case
    src: PathBuf,      // source UFO (when loaded)
    store_dir: PathBuf, // src/data or src/images
    links: usize,
    saves: usize,
}

fn env_step(cx: &mut Ctx, tok: &str) {
    let parts: Vec<&str> = tok.split(':').collect();
    let relb = unhex(parts[1]);
    let p = cx.store_dir.join(pb(parts[1]));
    // make every proper prefix a directory
    let mut cur = cx.store_dir.clone();
    let comps: Vec<&[u8]> = relb.split(|b| *b == b'/').collect();
    for c in &comps[..comps.len() - 1] {
        cur = cur.join(std::ffi::OsStr::from_bytes(c));
        let md = std::fs::symlink_metadata(&cur);
        match md {
            Ok(m) if m.is_dir() && !m.file_type().is_symlink() => {}
            Ok(_) => {
                rm_rf(&cur);
                std::fs::create_dir(&cur).unwrap();
            }
            Err(_) => std::fs::create_dir(&cur).unwrap(),
        }
    }
    rm_rf(&p);
    match parts[0] {
        "W" => std::fs::write(&p, unhex(parts[2])).unwrap(),
        "D" => {}
        "M" => std::fs::create_dir(&p).unwrap(),
        "L" => {
            cx.links += 1;
            let side = cx.dir.join(format!("link{}", cx.links));
            std::fs::write(&side, unhex(parts[2])).unwrap();
            std::os::unix::fs::symlink(&side, &p).unwrap();
        }
        // a symbolic link that does not lead to a plain file: `o` a directory outside the UFO that
        // holds a file, `i` a directory inside the UFO (its glyphs directory), `d` dangling
        "X" => {
            cx.links += 1;
            let target = match parts[2] {
                "o" => {
                    let side = cx.dir.join(format!("linkdir{}", cx.links));
                    std::fs::create_dir_all(side.join("sub")).unwrap();
                    std::fs::write(side.join("secret.txt"), b"secret").unwrap();
                    std::fs::write(side.join("sub").join("deep.png"), PNG).unwrap();
                    side
                }
                "i" => cx.src.join("glyphs"),
                _ => cx.dir.join(format!("nowhere{}", cx.links)),
            };
            std::os::unix::fs::symlink(&target, &p).unwrap();
        }
        _ => unreachable!(),
    }
}

fn is_env(tok: &str) -> bool {
    tok.starts_with("W:") || tok.starts_with("D:") || tok.starts_with("M:") || tok.starts_with("L:") || tok.starts_with("X:")
}

/// sandbox for one save.  variant `S`: the target exists and holds sentinels; `SA`: the target path is
/// absent; `SE`: the target is an existing empty directory.  Sentinels beside and above in every variant.
fn sandbox(cx: &mut Ctx, variant: &str) -> (PathBuf, PathBuf) {
    cx.saves += 1;
    let sb = cx.dir.join(format!("sb{}", cx.saves));
    let target = sb.join("up").join("target.ufo");
    std::fs::create_dir_all(sb.join("up")).unwrap();
    std::fs::write(sb.join("side"), b"S0").unwrap();
    std::fs::write(sb.join("up").join("side"), b"S1").unwrap();
    match variant {
        "SA" => {}
        "SE" => std::fs::create_dir(&target).unwrap(),
        _ => {
            std::fs::create_dir_all(target.join("old")).unwrap();
            std::fs::create_dir_all(target.join("data")).unwrap();
            std::fs::write(target.join("old").join("s"), b"S2").unwrap();
            std::fs::write(target.join("data").join("stale"), b"S3").unwrap();
        }
    }
    (sb, target)
}

/// the sandbox after a save (paths as raw bytes); after a successful save the files every UFO has are left out
fn tree_dump(sb: &Path, ok: bool) -> String {
    fn walk(base: &Path, p: &Path, out: &mut Vec<(Vec<u8>, char, Vec<u8>)>) {
        let rel = p.strip_prefix(base).unwrap().as_os_str().as_bytes().to_vec();
        let md = match std::fs::symlink_metadata(p) {
            Ok(m) => m,
            Err(_) => return,
        };
        if md.file_type().is_symlink() {
            out.push((rel, 'l', Vec::new()));
        } else if md.is_dir() {
            out.push((rel, 'd', Vec::new()));
            let mut names: Vec<_> = std::fs::read_dir(p).unwrap().map(|e| e.unwrap().path()).collect();
            names.sort();
            for n in names {
                walk(base, &n, out);
            }
        } else {
            out.push((rel, 'f', std::fs::read(p).unwrap_or_default()));
        }
    }
    let mut nodes = Vec::new();
    walk(sb, sb, &mut nodes);
    let mut v = Vec::new();
    for (rel, kind, bytes) in nodes {
        if rel.is_empty() {
            continue;
        }
        let t = b"up/target.ufo/";
        if ok && rel.starts_with(t) {
            let r = &rel[t.len()..];
            if r == b"metainfo.plist" || r == b"layercontents.plist" || r == b"glyphs" || r.starts_with(b"glyphs/") {
                continue;
            }
        }
        v.push(format!("{}={}{}", hex(&rel), kind, if kind == 'd' { String::new() } else { hex(&bytes) }));
    }
    v.join(",")
}

fn store_step<T: DataType>(st: &mut Store<T>, tok: &str) -> String {
    let parts: Vec<&str> = tok.split(':').collect();
    match parts[0] {
        "I" => {
            let k = pb(parts[1]);
            match st.insert(k, unhex(parts[2])) {
                Ok(()) => "k".to_string(),
                Err(e) => format!("e.{:?}", e).split('(').next().unwrap().to_string(),
            }
        }
        "R" => {
            st.remove(&pb(parts[1]));
            "-".to_string()
        }
        "G" => match st.get(&pb(parts[1])) {
            None => "n".to_string(),
            Some(Ok(b)) => format!("o{}", hex(&b)),
            Some(Err(_)) => "e".to_string(),
        },
        "H" => (st.contains_key(&pb(parts[1])) as u8).to_string(),
        "C" => {
            st.clear();
            "-".to_string()
        }
        "T" => format!("t{}", iter_dump(st)),
        "K" => format!("{}.{}", st.len(), st.is_empty() as u8),
        _ => "?".to_string(),
    }
}

/// one store or save step on one font: (observation, freeze the environment?, panicked in a store step?)
fn font_step(f: &mut Font, kind: &str, tok: &str, cx: &mut Ctx) -> (String, bool, bool) {
    if tok == "S" || tok == "SA" || tok == "SE" {
        let (sb, target) = sandbox(cx, tok);
        let r = guarded(|| f.save(&target));
        let (res, ok) = match r {
            Ok(Ok(())) => ("k".to_string(), true),
            Ok(Err(e)) => {
                let s = format!("{:?}", e);
                (format!("e.{}", s.split(|c: char| !c.is_alphanumeric()).next().unwrap_or("")), false)
            }
            Err(_) => ("p".to_string(), false),
        };
        let tree = tree_dump(&sb, ok);
        let it = match guarded(|| if kind == "d" { get_dump(&f.data) } else { get_dump(&f.images) }) {
            Ok(s) => s,
            Err(_) => "panic".to_string(),
        };
        let ks = if kind == "d" { keys_of(&f.data) } else { keys_of(&f.images) };
        rm_rf(&sb);
        // a save refused because of an error entry may have left other cells lazy (hash order):
        // from here on the environment is not changed any more
        let freeze = !ok && (it.contains("=e") || it == "panic");
        return (format!("{}|{}|{}#{}", res, tree, it, ks), freeze, false);
    }
    let r = if kind == "d" {
        guarded(|| store_step(&mut f.data, tok))
    } else {
        guarded(|| store_step(&mut f.images, tok))
    };
    match r {
        Ok(s) => {
            let ks = if kind == "d" { keys_of(&f.data) } else { keys_of(&f.images) };
            (format!("{}#{}", s, ks), false, false)
        }
        Err(_) => ("panic".to_string(), false, true),
    }
}

pub fn observe(toks: &[&str]) -> String {
    let kind = toks[1];
    let n = NEXT.fetch_add(1, std::sync::atomic::Ordering::SeqCst);
    let base = case_root();
    let dir = base.join(format!("c16-{}", n));
    rm_rf(&dir);
    std::fs::create_dir_all(&dir).unwrap();
    let src = dir.join("src.ufo");
    let store_dir = src.join(if kind == "d" { "data" } else { "images" });
    let mut cx = Ctx { dir: dir.clone(), src, store_dir, links: 0, saves: 0 };
    let mut obs: Vec<String> = Vec::new();
    let mut font: Option<Font> = None;
    let mut shadow: Option<Font> = None; // the original, once the history continues on a clone
    let mut dead = false; // load failed, or a panic: nothing more is executed
    let mut frozen = false; // after a failed save environment steps are not executed
    let mut prepared = false;
    for tok in &toks[2..] {
        if dead {
            obs.push("x".to_string());
            continue;
        }
        if *tok == "NEW" {
            font = Some(Font::new());
            obs.push("ok#".to_string());
            continue;
        }
        if font.is_none() && !prepared && (is_env(tok) || *tok == "LOAD") {
            Font::new().save(&cx.src).unwrap();
            std::fs::create_dir(&cx.store_dir).unwrap();
            prepared = true;
        }
        if *tok == "LOAD" {
            match guarded(|| Font::load(&cx.src)) {
                Ok(Ok(f)) => {
                    let ks = if kind == "d" { keys_of(&f.data) } else { keys_of(&f.images) };
                    obs.push(format!("ok#{}", ks));
                    font = Some(f);
                }
                Ok(Err(e)) => {
                    let s = format!("{:?}", e);
                    let cls = if s.contains("NotPlainFileOrDir") {
                        "NotPlainFileOrDir"
                    } else if s.contains("NotPlainFile") {
                        "NotPlainFile"
                    } else if s.contains("Subdir") {
                        "Subdir"
                    } else {
                        "other"
                    };
                    obs.push(format!("err.{}", cls));
                    dead = true;
                }
                Err(_) => {
                    obs.push("panic".to_string());
                    dead = true;
                }
            }
            continue;
        }
        if is_env(tok) {
            if frozen || (font.is_some() && !prepared) {
                obs.push("x".to_string());
            } else {
                env_step(&mut cx, tok);
                obs.push("-".to_string());
            }
            continue;
        }
        let f = match font.as_mut() {
            Some(f) => f,
            None => {
                obs.push("x".to_string());
                continue;
            }
        };
        if *tok == "CL" {
            // from here on the history runs on a clone; the original is kept and receives the same
            // operations, every observation is compared with the original's
            let c = f.clone();
            if shadow.is_none() {
                shadow = Some(std::mem::replace(f, c));
            } else {
                *f = c;
            }
            let ks = if kind == "d" { keys_of(&f.data) } else { keys_of(&f.images) };
            obs.push(format!("-#{}", ks));
            continue;
        }
        let (o, freeze, panicked) = font_step(f, kind, tok, &mut cx);
        let mut mark = "";
        if let Some(sh) = shadow.as_mut() {
            let (o2, _, _) = font_step(sh, kind, tok, &mut cx);
            if o2 != o {
                mark = "!";
            }
        }
        obs.push(format!("{}{}", mark, o));
        if freeze {
            frozen = true;
        }
        if panicked {
            dead = true;
        }
    }
    drop(shadow);
    drop(font);
    rm_rf(&dir);
    let _ = std::fs::remove_dir(&base); // only when empty
    obs.join(" ")
}

/// Where the per-case trees live.  The histories create, load and save a few small UFOs each; on a
/// disk-backed scratch directory the file-system latency dominates (20x), so a memory-backed
/// directory is used when there is one; otherwise the scratch root of the check.
pub(crate) fn case_root() -> PathBuf {
    let shm = Path::new("/dev/shm");
    if shm.is_dir() {
        let p = shm.join(format!("verif-c16-{}", std::process::id()));
        if std::fs::create_dir_all(&p).is_ok() {
            return p;
        }
    }
    scratch_root()
}

static NEXT: std::sync::atomic::AtomicUsize = std::sync::atomic::AtomicUsize::new(0);

// ---------------------------------------------------------------- path stream

fn comps_of(p: &Path) -> (bool, String) {
    use std::path::Component::*;
    let mut abs = false;
    let mut v = Vec::new();
    for c in p.components() {
        match c {
            RootDir => abs = true,
            CurDir => v.push("C".to_string()),
            ParentDir => v.push("P".to_string()),
            Normal(s) => v.push(format!("N{}", hexs(&s.to_string_lossy()))),
            Prefix(_) => v.push("?".to_string()),
        }
    }
    (abs, v.join(","))
}

fn pform(p: &Path) -> String {
    let (a, c) = comps_of(p);
    format!("{}:{}", a as u8, c)
}

pub fn observe_path(s: &str) -> String {
    let p = Path::new(s);
    let par = match p.parent() {
        None => "none".to_string(),
        Some(q) => pform(q),
    };
    let fname = match p.file_name() {
        None => "none".to_string(),
        Some(f) => format!("s{}", hexs(&f.to_string_lossy())),
    };
    let anc: Vec<String> = p.ancestors().map(pform).collect();
    let img = match norad::Image::new(PathBuf::from(s), None, Default::default()) {
        Ok(_) => "k",
        Err(_) => "e",
    };
    format!(
        "P {} p={} f={} abs={} empty={} anc={} img={}",
        pform(p),
        par,
        fname,
        p.is_absolute() as u8,
        p.as_os_str().is_empty() as u8,
        anc.join(";"),
        img
    )
}

pub fn observe_pair(s: &str, t: &str) -> String {
    let (p, q) = (Path::new(s), Path::new(t));
    format!("Q sw={} eq={} join={}", p.starts_with(q) as u8, (p == q) as u8, pform(&p.join(q)))
}

fn all_strings(max: usize, f: &mut dyn FnMut(&str)) {
    const AL: [char; 4] = ['a', 'b', '.', '/'];
    for len in 0..=max {
        let mut idx = vec![0usize; len];
        loop {
            let s: String = idx.iter().map(|i| AL[*i]).collect();
            f(&s);
            let mut k = len;
            let mut done = true;
            while k > 0 {
                k -= 1;
                idx[k] += 1;
                if idx[k] < 4 {
                    done = false;
                    break;
                }
                idx[k] = 0;
            }
            if done {
                break;
            }
        }
    }
}

pub fn gen_path(_tier: &str, seed: u64, out: &mut dyn Write) {
    let mut all = Vec::new();
    all_strings(6, &mut |s| all.push(s.to_string()));
    for s in &all {
        writeln!(out, "C16path {} => {}", hexs(s), observe_path(s)).unwrap();
    }
    let small: Vec<&String> = all.iter().filter(|s| s.len() <= 3).collect();
    for s in &small {
        for t in &small {
            writeln!(out, "C16pp {} {} => {}", hexs(s), hexs(t), observe_pair(s, t)).unwrap();
        }
    }
    // every string up to length 5 against each of its own ancestors (true prefixes) and random partners
    let mut rng = Rng::new(seed ^ 0x16);
    for s in all.iter().filter(|s| s.len() <= 5) {
        for a in Path::new(s).ancestors().skip(1) {
            let t = a.to_string_lossy().to_string();
            writeln!(out, "C16pp {} {} => {}", hexs(s), hexs(&t), observe_pair(s, &t)).unwrap();
        }
        let t = &all[rng.below(all.len())];
        writeln!(out, "C16pp {} {} => {}", hexs(s), hexs(t), observe_pair(s, t)).unwrap();
    }
}

// ---------------------------------------------------------------- history generator

const KEY_POOL: [&[u8]; 12] =
    [b"a", b"a/b", b"a/b/c", b"b", b"./a", b"a/../b", b"..", b"../x", b"/abs", b"", b"a/", b"a//b"];
const KEY_EXTRA: [&[u8]; 24] = [
    b"b/a", b".", b"a/b/", b"c", b"a/.", b"b/", b"a/b/c/d", b"./a/b", b"/abs/x",
    // hidden names and other dot-laden *normal* components (not the `.`/`..` path components)
    b".hidden", b"a/.lock", b".cache/x", b"..hidden", b"...", b"a.", b".b.png", b".c/.d",
    // names that are not UTF-8 (two that differ only in an invalid byte), and a multi-byte one
    b"\xff", b"\xfe", b"a\xffb", b"a\xfeb", b"d/\xff\xfe.bin", b"\xc3\x28", b"caf\xc3\xa9",
];
const TREE_DATA: [&[u8]; 20] = [
    b"a", b"b", b"a/b", b"a/b/c", b"c", b"b/a", b"a/c",
    b".hidden", b"a/.lock", b".cache/x", b"..hidden", b"...", b"a.", b".c/.d", b"com.example.tool/.lock",
    b"\xff", b"\xfe", b"a\xffb", b"d/\xff\xfe.bin", b"caf\xc3\xa9",
];
const TREE_IMG_FLAT: [&[u8]; 11] =
    [b"a", b"b", b"c", b".b.png", b".hidden", b"...", b"a.", b"..hidden", b"\xff", b"\xfe", b"a\xffb"];
const TREE_IMG_SUB: [&[u8]; 3] = [b"a/b", b".h/x", b"c/.d"];

fn content(rng: &mut Rng, kind: &str) -> Vec<u8> {
    let png_bias = if kind == "i" { 7 } else { 2 };
    if rng.below(10) < png_bias {
        let mut v = PNG.to_vec();
        for _ in 0..rng.below(4) {
            v.push(rng.below(256) as u8);
        }
        return v;
    }
    match rng.below(7) {
        0 => Vec::new(),
        1 => PNG[..7].to_vec(),
        2 => {
            let mut v = PNG[..4].to_vec();
            v.extend_from_slice(&[1, 2, 3, 4, 5]);
            v
        }
        3 => {
            let mut v = PNG.to_vec();
            v[7] = 11;
            v
        }
        4 => {
            let mut v = vec![0u8];
            v.extend_from_slice(&PNG);
            v
        }
        _ => (0..1 + rng.below(5)).map(|_| rng.below(256) as u8).collect(),
    }
}

fn key(rng: &mut Rng) -> &'static [u8] {
    if rng.chance(4, 5) {
        KEY_POOL[rng.below(KEY_POOL.len())]
    } else {
        KEY_EXTRA[rng.below(KEY_EXTRA.len())]
    }
}

fn tree_path(rng: &mut Rng, kind: &str) -> &'static [u8] {
    if kind == "d" {
        TREE_DATA[rng.below(TREE_DATA.len())]
    } else if rng.chance(1, 12) {
        TREE_IMG_SUB[rng.below(TREE_IMG_SUB.len())]
    } else {
        TREE_IMG_FLAT[rng.below(TREE_IMG_FLAT.len())]
    }
}

fn env_tok(rng: &mut Rng, kind: &str, building: bool) -> String {
    let p = tree_path(rng, kind);
    let r = rng.below(if building { 24 } else { 10 });
    if rng.chance(1, if building { 14 } else { 9 }) {
        return format!("X:{}:{}", hex(p), ["o", "i", "d"][rng.below(3)]);
    }
    if building {
        match r {
            0 => format!("M:{}", hex(p)),
            1 if rng.chance(1, 3) => format!("L:{}:{}", hex(p), hex(&content(rng, kind))),
            _ => format!("W:{}:{}", hex(p), hex(&content(rng, kind))),
        }
    } else {
        match r {
            0..=4 => format!("W:{}:{}", hex(p), hex(&content(rng, kind))),
            5 | 6 => format!("D:{}", hex(p)),
            7 | 8 => format!("M:{}", hex(p)),
            _ => format!("L:{}:{}", hex(p), hex(&content(rng, kind))),
        }
    }
}

fn history(rng: &mut Rng) -> Vec<String> {
    let kind = if rng.chance(1, 2) { "d" } else { "i" };
    let mut toks = vec!["C16".to_string(), kind.to_string()];
    let loaded = rng.chance(2, 3);
    if loaded {
        for _ in 0..1 + rng.below(6) {
            toks.push(env_tok(rng, kind, true));
        }
        toks.push("LOAD".to_string());
        if rng.chance(1, 5) {
            toks.push("CL".to_string());
        }
    } else {
        toks.push("NEW".to_string());
    }
    let n = 1 + rng.below(20);
    for _ in 0..n {
        let r = rng.below(100);
        let t = if r < 30 {
            // on a loaded store prefer keys that exist in the tree half of the time
            let k = if loaded && rng.chance(1, 3) { tree_path(rng, kind) } else { key(rng) };
            format!("I:{}:{}", hex(k), hex(&content(rng, kind)))
        } else if r < 52 {
            let k = if loaded && rng.chance(3, 4) { tree_path(rng, kind) } else { key(rng) };
            format!("G:{}", hex(k))
        } else if r < 60 {
            let k = if loaded && rng.chance(1, 2) { tree_path(rng, kind) } else { key(rng) };
            format!("R:{}", hex(k))
        } else if r < 61 {
            "C".to_string()
        } else if r < 63 {
            "CL".to_string()
        } else if r < 68 {
            "T".to_string()
        } else if r < 72 {
            "K".to_string()
        } else if r < 77 {
            format!("H:{}", hex(key(rng)))
        } else if r < 94 {
            if loaded {
                env_tok(rng, kind, false)
            } else {
                format!("G:{}", hex(key(rng)))
            }
        } else {
            save_tok(rng)
        };
        toks.push(t);
    }
    if rng.chance(1, 2) {
        toks.push("T".to_string());
    }
    if rng.chance(3, 4) {
        toks.push(save_tok(rng));
    }
    toks
}

fn save_tok(rng: &mut Rng) -> String {
    match rng.below(5) {
        0 | 1 => "SA".to_string(),
        2 => "SE".to_string(),
        _ => "S".to_string(),
    }
}

fn emit(out: &mut dyn Write, toks: &[String]) {
    let refs: Vec<&str> = toks.iter().map(|s| s.as_str()).collect();
    let obs = observe(&refs);
    writeln!(out, "{} => {}", toks.join(" "), obs).unwrap();
}

pub fn gen(tier: &str, seed: u64, out: &mut dyn Write) {
    // exhaustive: every insert order of every 3-subset of the key pool, both kinds, then iter + save
    let n = KEY_POOL.len();
    for kind in ["d", "i"] {
        let body: &[u8] = if kind == "d" { b"x" } else { &PNG };
        for i in 0..n {
            for j in i + 1..n {
                for k in j + 1..n {
                    let tri = [i, j, k];
                    for perm in [[0, 1, 2], [0, 2, 1], [1, 0, 2], [1, 2, 0], [2, 0, 1], [2, 1, 0]] {
                        let mut toks = vec!["C16".to_string(), kind.to_string(), "NEW".to_string()];
                        for (pos, pi) in perm.iter().enumerate() {
                            let mut b = body.to_vec();
                            b.push(b'0' + pos as u8);
                            toks.push(format!("I:{}:{}", hex(KEY_POOL[tri[*pi]]), hex(&b)));
                        }
                        toks.push("S".to_string());
                        emit(out, &toks);
                    }
                }
            }
        }
    }
    let mut rng = Rng::new(seed);
    let count = if tier == "thorough" { 200_000 } else { 30_000 };
    for _ in 0..count {
        let toks = history(&mut rng);
        emit(out, &toks);
    }
}
