//! C09: a saved tree depends only on the font and stays inside the target.
//!
//! line: as C08 plus `craft=<0..9>` (crafted relative paths, see `c08::craft_tree` / `craft_font`) and the
//! observation token `FRESH=<result>:<same|diff>` (the font saved once more into a fresh path, trees compared
//! byte for byte).  The sandbox holds sentinel files beside and above the target.
use crate::c08::observe_ext;
use crate::common::*;
use crate::rng::Rng;
use std::io::Write;
use std::path::{Path, PathBuf};

pub fn observe(toks: &[&str], scratch: &Path) -> String {
    observe_ext(toks, scratch, true)
}

fn emit(out: &mut dyn Write, scratch: &Path, recipe: &str) {
    let toks: Vec<&str> = recipe.split(' ').collect();
    let obs = observe(&toks, scratch);
    writeln!(out, "C09 {} => {}", recipe, obs).unwrap();
}

pub fn gen(tier: &str, seed: u64, out: &mut dyn Write) {
    let scratch: PathBuf = scratch_root().join("c09");
    std::fs::create_dir_all(&scratch).unwrap();
    let mut rng = Rng::new(seed);
    let reps = if tier == "thorough" { 40 } else { 1 };
    for rep in 0..reps {
        // every combination of optional parts (rich bits) x API-built / loaded, over rotating pre-states
        for rich in 0..32u32 {
            for load in 0..2 {
                let pre = (rich + load + rep) % 6;
                let stores = rng.below(3) as u32;
                emit(out, &scratch, &format!("rich={} load={} stores={} sabot=0 kinds=0 pre={} craft=0 e=", rich, load, stores, pre));
            }
        }
        // every pre-state x a few fonts, with edits
        for pre in 0..6 {
            for _ in 0..40 {
                let rich = rng.below(32) as u32;
                let load = rng.below(2) as u32;
                let stores = rng.below(3) as u32;
                let e = match rng.below(6) {
                    4 => "fe.3,ge,lc.6672657368",
                    5 => "ke,le,cl.7075626c69632e64656661756c74,ll.7075626c69632e64656661756c74",
                    0 => "di.6e2f652f772e747874.w1,gi.7a7a,ii.6e65772e706e67.p",
                    1 => "nl.6578747261,gi.415f62,lk,di.612e747874.w2",
                    2 => "gr.61,dr.612e747874,ir.69312e706e67,dg.7a",
                    _ => "",
                };
                emit(out, &scratch, &format!("rich={} load={} stores={} sabot=0 kinds=0 pre={} craft=0 e={}", rich, load, stores, pre, e));
            }
        }
        // crafted relative paths
        for craft in 1..=12 {
            for pre in [0u32, 2, 3, 5] {
                let rich = rng.below(32) as u32;
                let load = if (craft >= 5 && craft <= 7) || craft >= 10 { 1 } else { rng.below(2) as u32 };
                emit(out, &scratch, &format!("rich={} load={} stores=1 sabot=0 kinds=0 pre={} craft={} e=", rich, load, pre, craft));
            }
        }
    }
    // round-2 blind spots: a symlinked target; blank-only feature text; empty-but-present containers; empty layers
    // with layer info
    for _ in 0..6 {
        for load in 0..2 {
            emit(out, &scratch, &format!("rich={} load={} stores={} sabot=0 kinds=0 pre=6 craft=0 e=", rng.below(32), load, rng.below(3)));
        }
    }
    for n in 0..6 {
        for load in 0..2 {
            // rich without bit 4 (no feature text of its own)
            emit(out, &scratch, &format!("rich={} load={} stores=0 sabot=0 kinds=0 pre={} craft=0 e=fe.{}", rng.below(32) & !4, load, [0u32, 2][n % 2], n));
        }
    }
    for e in ["ge", "ke", "le", "ge,ke,le"] {
        for load in 0..2 {
            // rich without groups (bit 2), kerning (bit 4), lib (bit 1) of their own
            emit(out, &scratch, &format!("rich={} load={} stores=0 sabot=0 kinds=0 pre=2 craft=0 e={}", rng.below(32) & !7, load, e));
        }
    }
    let pd = hexs("public.default");
    let fr = hexs("fresh");
    let bg = hexs("background");
    for e in [
        format!("lc.{}", fr),
        format!("ll.{}", fr),
        format!("cl.{},ll.{}", pd, pd),
        format!("cl.{},lc.{}", pd, pd),
        format!("cl.{},lc.{}", bg, bg),
        format!("lc.{},ll.{},cl.{}", bg, bg, bg),
    ] {
        for load in 0..2 {
            for rich in [0u32, 31] {
                emit(out, &scratch, &format!("rich={} load={} stores=0 sabot=0 kinds=0 pre={} craft=0 e={}", rich, load, 2 * load, e));
            }
        }
    }
    // round 3: directories missing ABOVE the target (the surroundings are snapshotted); empty-but-present containers at
    // every nesting level of kerning / groups / lib, built through the API, by add-then-remove, and hand-written;
    // format 1 / 2 sources with data/ and images/ saved elsewhere and in place
    for anc in 1..=2 {
        for load in 0..2 {
            for _ in 0..3 {
                emit(out, &scratch, &format!("rich={} load={} stores={} sabot=0 kinds=0 pre=0 craft=0 anc={} e=", rng.below(32), load, rng.below(3), anc));
            }
        }
    }
    for e in ["kp", "k2", "ke,k2", "g2", "l2", "kp,g2,l2,ge,le", "ke", "kp,fe.0"] {
        for load in 0..2 {
            for &(rich, pre) in &[(0u32, 0u32), (24, 2), (31, 2 + 3 * load)] {
                emit(out, &scratch, &format!("rich={} load={} stores=0 sabot=0 kinds=0 pre={} craft=0 e={}", rich, load, pre, e));
            }
        }
    }
    for pre in [0u32, 2, 5] {
        for rich in [0u32, 31] {
            emit(out, &scratch, &format!("rich={} load=1 stores=1 sabot=0 kinds=0 pre={} craft=13 e=", rich, pre));
        }
    }
    for legacy in 1..=2 {
        for pre in [0u32, 2, 5] {
            emit(out, &scratch, &format!("rich=13 load=1 stores={} sabot=0 kinds=0 pre={} craft=0 legacy={} e=", legacy, pre, legacy));
        }
    }
    // round 4: PROCESS history - a failing save of another font on this thread right before the observed save (the
    // fresh-path comparison runs on a fresh thread); store names that are not valid UTF-8; dot-named store entries
    for prior in 1..=8 {
        for load in 0..2 {
            for &(rich, pre) in &[(0u32, 0u32), (31, 2), (3, 5 * load)] {
                emit(out, &scratch, &format!("rich={} load={} stores=1 sabot=0 kinds=0 pre={} craft=0 prior={} e=", rich, load, pre, prior));
            }
        }
    }
    for craft in 14..=15 {
        for pre in [0u32, 2, 5] {
            for rich in [0u32, 31] {
                emit(out, &scratch, &format!("rich={} load=1 stores=2 sabot=0 kinds=0 pre={} craft={} e=", rich, pre, craft));
            }
        }
    }
    for pre in [0u32, 2, 5] {
        emit(out, &scratch, &format!("rich=31 load=1 stores=3 sabot=0 kinds=0 pre={} craft=0 e=", pre));
    }
    // round 5: "present but empty" inner values of font info (every Option<Vec> field set to Some(empty) through the API),
    // a layer lib filled and emptied; fonts WITHOUT other font info so that nothing else keeps fontinfo.plist non-empty
    for n in 0..10 {
        for load in 0..2 {
            for &(rich, pre) in &[(0u32, 0u32), (1, 2), (29, 5 * load)] {
                emit(out, &scratch, &format!("rich={} load={} stores=0 sabot=0 kinds=0 pre={} craft=0 e=ie.{}", rich, load, pre, n));
            }
        }
    }
    emit(out, &scratch, &format!("rich=0 load=0 stores=0 sabot=0 kinds=0 pre=2 craft=0 e=ie.0,ie.2,ie.5,lx.{}", hexs("public.default")));
    emit(out, &scratch, &format!("rich=0 load=1 stores=0 sabot=0 kinds=0 pre=5 craft=0 e=lx.{},lx.{}", hexs("fresh"), hexs("public.default")));
    // names that clash after sanitising (glyphs and layers, both insertion orders): as many files / directories as names
    for n in 0..6 {
        for order in 0..2 {
            for load in 0..2 {
                emit(out, &scratch, &format!("rich={} load={} stores=0 sabot=0 kinds=0 pre={} craft=0 e=gp.{}.{}", [0u32, 3][load as usize], load, 2 * load, n, order));
                emit(out, &scratch, &format!("rich={} load={} stores=0 sabot=0 kinds=0 pre={} craft=0 e=lp.{}.{},gp.{}.{}", [1u32, 7][load as usize], load, 5 * load, n, order, (n + 1) % 6, 1 - order));
            }
        }
    }
    // other entry points, other spellings of the target, fonts from partial loads (phase 3 review)
    for wo in 1..=2 {
        for pre in 0..6 {
            for load in 0..2 {
                emit(out, &scratch, &format!("rich={} load={} stores=1 sabot=0 kinds=0 pre={} craft=0 wo={} e=", rng.below(32), load, pre, wo));
            }
        }
    }
    for tsp in 1..=2 {
        for pre in 0..6 {
            emit(out, &scratch, &format!("rich={} load={} stores=2 sabot=0 kinds=0 pre={} craft=0 tsp={} e=", rng.below(32), pre % 2, pre, tsp));
        }
        for craft in [2u32, 5, 10] {
            emit(out, &scratch, &format!("rich=3 load=1 stores=1 sabot=0 kinds=0 pre=2 craft={} tsp={} e=", craft, tsp));
        }
    }
    for part in 1..=2 {
        for pre in [0u32, 2, 3, 5] {
            emit(out, &scratch, &format!("rich=31 load=1 stores=2 sabot=0 kinds=0 pre={} craft=0 part={} e=", pre, part));
        }
    }
    // round 6: store files that vanish / turn into directories / are truncated on disk after the load and before any
    // access (k of them), saved elsewhere and in place: a successful save writes exactly the store's keys; an entry in
    // error state refuses the save with everything untouched.  Alias spellings of an in-place target; a large lazy file.
    for stores in 1..=2u32 {
        let (d, i) = crate::c08::store_set(stores);
        let (nd, ni) = (d.len(), i.len());
        for op in ["x", "r", "t"] {
            let all_d: Vec<String> = (0..nd).map(|k| format!("d{}{}", k, op)).collect();
            let sets = [format!("d{}{}", nd - 1, op), format!("i{}{}", ni - 1, op), format!("d0{}.i0{}", op, op), all_d.join(".")];
            for pre in [0u32, 2, 5] {
                for sab in &sets {
                    emit(out, &scratch, &format!("rich={} load=1 stores={} sabot=0 kinds=0 pre={} craft=0 sab={} e=", rng.below(32), stores, pre, sab));
                }
            }
        }
    }
    for tsp in 3..=4 {
        for pre in [5u32, 2] {
            emit(out, &scratch, &format!("rich={} load=1 stores=2 sabot=0 kinds=0 pre={} craft=0 tsp={} e=", rng.below(32), pre, tsp));
        }
    }
    // a glyph created through the raw `Layer::entry` and then replaced by `insert_glyph` (the usual get-or-create idiom):
    // API-built and loaded fonts, new names and a name the layer already has, alone and among other edits
    for (k, e) in [
        format!("gn.{}", hexs("b")),
        format!("gn.{}", hexs("a")),
        format!("gn.{},gn.{}", hexs("fresh.one"), hexs("A_b")),
        format!("gi.{},gn.{},gr.{}", hexs("zz"), hexs("b"), hexs("zz")),
        format!("gn.{},gn.{}", hexs("b"), hexs("b")),
    ]
    .iter()
    .enumerate()
    {
        for load in 0..2 {
            for pre in [0u32, 2, 5 * load] {
                emit(out, &scratch, &format!("rich={} load={} stores={} sabot=0 kinds=0 pre={} craft=0 e={}", [3u32, 31, 0, 7, 16][k], load, load, pre, e));
            }
        }
    }
    emit(out, &scratch, "rich=3 load=1 stores=5 sabot=0 kinds=0 pre=5 craft=0 e=");
    emit(out, &scratch, "rich=3 load=1 stores=5 sabot=0 kinds=0 pre=0 craft=0 sab=d0x e=");
    rm_rf(&scratch);
}
