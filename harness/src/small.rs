//! SMALL: the small types every property's mechanism depends on one or two calls away (`Name`, `Identifier`, `Color`,
//! `Codepoints`, `Guideline`, `Image`, `WriteOptions`): the laws the models ASSUME of them, observed on the real types.
//! One protocol line per probe, `SM <kind> <input tokens> => <observation tokens>`; the driver (`Driver/Small.lean`)
//! computes the expectation from the model's own predicates (`Glif.validName`, `Glif.validIdent`, …).
//! Borrowed by the checks whose theorems rest on the law in question (`borrowed` generator, rules filtered per property).

use crate::common::{guarded, hex};
use crate::rng::Rng;
use norad::{Color, Glyph, Identifier, Name};
use std::collections::{BTreeSet, HashSet};
use std::io::Write;
use std::str::FromStr;

fn hs(s: &str) -> String {
    let h = hex(s.as_bytes());
    if h.is_empty() {
        "-".into()
    } else {
        h
    }
}

fn b(x: bool) -> char {
    if x {
        '1'
    } else {
        '0'
    }
}

/// strings around everything a validity rule, an ordering or a hash could cut at
pub fn name_pool() -> Vec<String> {
    let mut v: Vec<String> = Vec::new();
    v.push(String::new());
    for c in 0u32..=0x100 {
        if let Some(ch) = char::from_u32(c) {
            v.push(ch.to_string());
            v.push(format!("a{}b", ch));
            // a control character AFTER a non-ASCII one, and before one
            v.push(format!("\u{e9}{}", ch));
            v.push(format!("{}\u{65e5}", ch));
        }
    }
    for c in [
        0xFFFDu32, 0xFFFE, 0xFFFF, 0x202A, 0x202B, 0x202C, 0x202D, 0x202E, 0x2066, 0x2067, 0x2068, 0x2069, 0x200B, 0x00AD,
        0x2028, 0x2029, 0xFEFF, 0xE000, 0xF8FF, 0xFB01, 0xD7FF, 0x10000, 0x1F600, 0x10FFFF, 0x3A3, 0x3C2, 0x1C5,
    ] {
        let ch = char::from_u32(c).unwrap();
        v.push(ch.to_string());
        v.push(format!("glyph{}", ch));
        v.push(format!("{}x", ch));
    }
    for n in [1usize, 31, 32, 33, 63, 64, 65, 254, 255, 256, 257, 300, 1000] {
        v.push("x".repeat(n));
        v.push(format!("{}Y", "x".repeat(n - 1)));
    }
    v.push("\u{65e5}".repeat(85));
    v.push("\u{65e5}".repeat(86));
    for s in [
        "A\\B", "it's", "say \"hi\"", "a b", " a", "a ", ".", "..", "a..b", "public.kern1.", "public.kern1\u{e9}", "public.kern\u{20ac}",
        "public.kern1.public.kern1.", "@MMK_L_x", "pA", "pa", "PA", "\u{3a3}", "a\u{3a3}", "a\u{3c3}", "a\u{3c2}", "\u{c9}*", "\u{c9}_",
    ] {
        v.push(s.to_string());
    }
    v
}

fn probe_name(out: &mut dyn Write, s: &str) {
    let new = Name::new(s);
    let fromstr = Name::from_str(s).is_ok();
    let tryfrom = Name::try_from(s.to_string()).is_ok();
    let de: Result<Name, _> = plist::from_value(&plist::Value::String(s.to_string()));
    let (disp, ser, clone_eq, borrow) = match &new {
        Ok(n) => {
            let disp = hs(&format!("{}", n));
            let ser = match plist::to_value(n) {
                Ok(plist::Value::String(t)) => hs(&t),
                _ => "err".into(),
            };
            let as_ref: &str = n.as_ref();
            (disp, ser, b(n.clone() == *n && n.as_str() == s), b(as_ref == s && n.as_str() == s))
        }
        Err(_) => ("-".into(), "-".into(), '-', '-'),
    };
    // what serde lets in must be what the constructor lets in, and must come out as it went in
    let de_same = match &de {
        Ok(n) => b(n.as_str() == s),
        Err(_) => '-',
    };
    writeln!(
        out,
        "SM name {} => new={} fromstr={} tryfrom={} de={} desame={} disp={} ser={} cloneeq={} borrow={}",
        hs(s),
        b(new.is_ok()),
        b(fromstr),
        b(tryfrom),
        b(de.is_ok()),
        de_same,
        disp,
        ser,
        clone_eq,
        borrow
    )
    .unwrap();
}

fn ord_pool() -> Vec<String> {
    let mut v: Vec<String> = [
        "a", "b", "A", "aa", "a\u{e9}", "\u{e9}", "\u{e000}", "\u{f8ff}", "\u{fb01}", "\u{ffff}", "\u{fffd}", "\u{10000}", "\u{1f600}",
        "\u{10ffff}", "\u{d7ff}", "x\u{fb01}", "x\u{1f600}", "\u{fb01}x", "\u{1f600}x", "z", "\u{7f}x",
    ]
    .iter()
    .map(|s| s.to_string())
    .collect();
    for n in [31usize, 32, 33, 64, 65, 300] {
        v.push("n".repeat(n));
        v.push(format!("{}A", "n".repeat(n)));
        v.push(format!("{}B", "n".repeat(n)));
    }
    v.retain(|s| Name::new(s).is_ok());
    v
}

/// `Name` must order, compare and hash exactly like its text: the containers are `BTreeMap<Name, _>` / `HashSet<Name>`
/// searched with `&str` through `Borrow<str>`
fn probe_name_pair(out: &mut dyn Write, a: &str, c: &str) {
    let (na, nc) = (Name::new(a).unwrap(), Name::new(c).unwrap());
    let cmp = match na.cmp(&nc) {
        std::cmp::Ordering::Less => -1,
        std::cmp::Ordering::Equal => 0,
        std::cmp::Ordering::Greater => 1,
    };
    let mut bt: BTreeSet<Name> = BTreeSet::new();
    bt.insert(na.clone());
    bt.insert(nc.clone());
    let bt_found = bt.contains(a) && bt.contains(c);
    let bt_order: Vec<String> = bt.iter().map(|n| hs(n.as_str())).collect();
    let mut hsx: HashSet<Name> = HashSet::new();
    hsx.insert(na.clone());
    hsx.insert(nc.clone());
    let h_found = hsx.contains(a) && hsx.contains(c);
    // removal through the borrowed form must remove
    let removed = bt.remove(a);
    writeln!(
        out,
        "SM nameord {} {} => cmp={} eq={} btfound={} btlen={} btorder={} hfound={} hlen={} removed={}",
        hs(a),
        hs(c),
        cmp,
        b(na == nc),
        b(bt_found),
        bt.len() + removed as usize,
        bt_order.join(","),
        b(h_found),
        hsx.len(),
        b(removed)
    )
    .unwrap();
}

pub fn ident_pool() -> Vec<String> {
    let mut v: Vec<String> = vec![String::new()];
    for c in 0u32..=0x80 {
        if let Some(ch) = char::from_u32(c) {
            v.push(ch.to_string());
            v.push(format!("a{}", ch));
            v.push(format!("{}a", ch));
        }
    }
    for s in ["\u{e9}", "a\u{e9}", "pA", "pa", "PA", "Pa", "guide\tone", " ", "  ", "id with space", "~", "\u{7f}", "\u{a0}"] {
        v.push(s.to_string());
    }
    for n in [1usize, 2, 50, 95, 99, 100, 101, 102, 200, 1000] {
        v.push("i".repeat(n));
    }
    v
}

fn probe_ident(out: &mut dyn Write, s: &str) {
    let new = Identifier::new(s);
    let de: Result<Identifier, _> = plist::from_value(&plist::Value::String(s.to_string()));
    let (ser, asref) = match &new {
        Ok(i) => {
            let ser = match guarded(|| plist::to_value(i)) {
                Ok(Ok(plist::Value::String(t))) => hs(&t),
                Ok(_) => "err".into(),
                Err(_) => "panic".into(),
            };
            (ser, b(i.as_str() == s))
        }
        Err(_) => ("-".into(), '-'),
    };
    let de_same = match &de {
        Ok(i) => b(i.as_str() == s),
        Err(_) => '-',
    };
    // what `Deserialize` let in goes back out through `Serialize` (load, then save)
    let deser = match &de {
        Ok(i) => match guarded(|| plist::to_value(i)) {
            Ok(Ok(plist::Value::String(t))) => hs(&t),
            Ok(_) => "err".into(),
            Err(_) => "panic".into(),
        },
        Err(_) => "-".into(),
    };
    writeln!(
        out,
        "SM ident {} => new={} de={} desame={} ser={} asref={} deser={}",
        hs(s),
        b(new.is_ok()),
        b(de.is_ok()),
        de_same,
        ser,
        asref,
        deser
    )
    .unwrap();
}

/// identifiers are compared exactly; equality, hashing and set membership must agree with the text, on every hash seed
fn probe_ident_pair(out: &mut dyn Write, a: &str, c: &str) {
    let (ia, ic) = (Identifier::new(a).unwrap(), Identifier::new(c).unwrap());
    let mut sizes: BTreeSet<usize> = BTreeSet::new();
    for _ in 0..48 {
        // a fresh `RandomState` per set: equality coarser than the hash shows as a seed-dependent size
        let mut s: HashSet<Identifier> = HashSet::new();
        s.insert(ia.clone());
        s.insert(ic.clone());
        sizes.insert(s.len());
    }
    let sz: Vec<String> = sizes.iter().map(|n| n.to_string()).collect();
    writeln!(out, "SM identeq {} {} => eq={} sizes={}", hs(a), hs(c), b(ia == ic), sz.join(",")).unwrap();
}

fn color_values() -> Vec<f64> {
    vec![
        -0.0,
        0.0,
        1.0,
        0.5,
        0.25,
        1.0 / 3.0,
        0.9994,
        0.9995,
        0.9996,
        0.9999,
        0.0004,
        0.0005,
        0.0006,
        1e-320,
        -1e-320,
        f64::MIN_POSITIVE,
        1.0 - f64::EPSILON / 2.0,
        1.0 + f64::EPSILON,
        -f64::EPSILON,
        -1.0,
        2.0,
        f64::NAN,
        f64::INFINITY,
        f64::NEG_INFINITY,
    ]
}

fn probe_color(out: &mut dyn Write, ch: [f64; 4]) {
    let new = Color::new(ch[0], ch[1], ch[2], ch[3]);
    let (text, back) = match &new {
        Ok(c) => {
            // the colour as norad writes it (the serde form is the glif / plist text)
            let text = match plist::to_value(c) {
                Ok(plist::Value::String(t)) => t,
                _ => "?".into(),
            };
            let back = match Color::from_str(&text) {
                Ok(c2) => {
                    let (r, g, bl, a) = c2.channels();
                    format!("{:016x},{:016x},{:016x},{:016x}", r.to_bits(), g.to_bits(), bl.to_bits(), a.to_bits())
                }
                Err(_) => "err".into(),
            };
            (hs(&text), back)
        }
        Err(_) => ("-".into(), "-".into()),
    };
    writeln!(
        out,
        "SM color {:016x},{:016x},{:016x},{:016x} => new={} text={} back={}",
        ch[0].to_bits(),
        ch[1].to_bits(),
        ch[2].to_bits(),
        ch[3].to_bits(),
        b(new.is_ok()),
        text,
        back
    )
    .unwrap();
}

fn probe_colorstr(out: &mut dyn Write, s: &str) {
    let r = Color::from_str(s);
    let obs = match r {
        Ok(c) => {
            let (r, g, bl, a) = c.channels();
            format!("ok:{:016x},{:016x},{:016x},{:016x}", r.to_bits(), g.to_bits(), bl.to_bits(), a.to_bits())
        }
        Err(_) => "err".into(),
    };
    writeln!(out, "SM colorstr {} => {}", hs(s), obs).unwrap();
}

fn probe_codepoints(out: &mut dyn Write, cps: &[u32]) {
    let chars: Vec<char> = cps.iter().filter_map(|c| char::from_u32(*c)).collect();
    let c = norad::Codepoints::new(chars.clone());
    let it: Vec<String> = c.iter().map(|ch| format!("{:x}", ch as u32)).collect();
    let it2: Vec<String> = (&c).into_iter().map(|ch| format!("{:x}", *ch as u32)).collect();
    // through the writer and the parser: the first <unicode> is the primary one, the order is data
    let mut g = Glyph::new("a");
    g.codepoints = c.clone();
    let via = match g.encode_xml().ok().and_then(|bytes| Glyph::parse_raw(&bytes).ok()) {
        Some(g2) => g2.codepoints.iter().map(|ch| format!("{:x}", ch as u32)).collect::<Vec<_>>().join(","),
        None => "err".into(),
    };
    let inp: Vec<String> = cps.iter().map(|c| format!("{:x}", c)).collect();
    writeln!(
        out,
        "SM cps {} => iter={} intoiter={} via={}",
        if inp.is_empty() { "-".into() } else { inp.join(",") },
        if it.is_empty() { "-".into() } else { it.join(",") },
        if it2.is_empty() { "-".into() } else { it2.join(",") },
        if via.is_empty() { "-".into() } else { via }
    )
    .unwrap();
}

/// `Guideline`: what the validators accept (`FontInfo::validate`, run before anything is deleted) must be what the
/// serialiser accepts (run after the target was wiped); the identifier given is the identifier reported
fn probe_guideline(out: &mut dyn Write, degrees: f64, ident: Option<&str>) {
    let id = ident.map(|s| Identifier::new(s).unwrap());
    let g = norad::Guideline::new(norad::Line::Angle { x: 1.0, y: 2.0, degrees }, None, None, id);
    let ident_back = match g.identifier() {
        Some(i) => hs(i.as_str()),
        None => "none".into(),
    };
    let mut fi = norad::FontInfo::default();
    fi.guidelines = Some(vec![g.clone()]);
    let validate = fi.validate().is_ok();
    let ser = match guarded(|| plist::to_value(&g)) {
        Ok(Ok(_)) => "ok",
        Ok(Err(_)) => "err",
        Err(_) => "panic",
    };
    writeln!(
        out,
        "SM gline {:016x} {} => ident={} validate={} ser={}",
        degrees.to_bits(),
        match ident {
            Some(s) => hs(s),
            None => "none".into(),
        },
        ident_back,
        b(validate),
        ser
    )
    .unwrap();
}

fn probe_image(out: &mut dyn Write, name: &str) {
    let r = norad::Image::new(std::path::PathBuf::from(name), None, Default::default());
    // what the constructor accepts the parser must accept (and the other way round)
    let doc = format!(
        "<?xml version=\"1.0\" encoding=\"UTF-8\"?>\n<glyph name=\"a\" format=\"2\">\n<image fileName=\"{}\"/>\n</glyph>\n",
        name.replace('&', "&amp;").replace('<', "&lt;").replace('"', "&quot;")
    );
    let parsed = Glyph::parse_raw(doc.as_bytes()).is_ok();
    writeln!(out, "SM image {} => new={} parsed={}", hs(name), b(r.is_ok()), b(parsed)).unwrap();
}

/// every byte as the indent character: constructible exactly for tab and space (documented panic otherwise), and
/// every constructible option writes something the parser reads back
fn probe_indent_byte(out: &mut dyn Write, byte: u8) {
    let built = guarded(|| norad::WriteOptions::default().indent(byte, 2));
    let (constructible, rt) = match built {
        Ok(opts) => {
            let mut g = Glyph::new("a");
            g.lib.insert("k".into(), plist::Value::String("v".into()));
            g.anchors.push(norad::Anchor::new(1.0, 2.0, None, None, None));
            let rt = match guarded(|| g.encode_xml_with_options(&opts).ok().and_then(|bs| Glyph::parse_raw(&bs).ok()).map(|g2| g2 == g)) {
                Ok(Some(true)) => "ok",
                Ok(Some(false)) => "differs",
                Ok(None) => "unreadable",
                Err(_) => "panic",
            };
            (true, rt)
        }
        Err(_) => (false, "na"),
    };
    writeln!(out, "SM indent {} => constructible={} roundtrip={}", byte, b(constructible), rt).unwrap();
}

fn probe_pointtype(out: &mut dyn Write, s: &str) {
    let r = norad::PointType::from_str(s);
    let obs = match r {
        Ok(t) => format!("ok:{}", hs(&t.to_string())),
        Err(_) => "err".into(),
    };
    writeln!(out, "SM ptype {} => {}", hs(s), obs).unwrap();
}

/// every probe under `catch_unwind`: a probe that panics is a line of its own
struct Guarded<'a> {
    out: &'a mut dyn Write,
}

impl<'a> Write for Guarded<'a> {
    fn write(&mut self, buf: &[u8]) -> std::io::Result<usize> {
        self.out.write(buf)
    }
    fn flush(&mut self) -> std::io::Result<()> {
        self.out.flush()
    }
}

pub fn gen(tier: &str, seed: u64, out: &mut dyn Write) {
    // generate into memory line by line; a panicking probe loses only its own line and is reported
    let mut buf: Vec<u8> = Vec::new();
    let r = guarded(|| gen_inner(tier, seed, &mut buf));
    out.write_all(&buf).unwrap();
    if r.is_err() {
        // the probe that was running did not finish its line: report where the stream stopped
        let done = buf.iter().filter(|c| **c == b'\n').count();
        writeln!(out, "SM aborted {} => outcome=panic", done).unwrap();
    }
}

fn gen_inner(tier: &str, seed: u64, out: &mut dyn Write) {
    let thorough = tier == "thorough";
    let mut rng = Rng::new(seed ^ 0x5ca1ab1e);
    for s in name_pool() {
        probe_name(out, &s);
    }
    let op = ord_pool();
    for a in &op {
        for c in &op {
            probe_name_pair(out, a, c);
        }
    }
    // random valid names against each other (private-use / supplementary / long common prefixes)
    let alphabet: Vec<char> = "ab\u{e9}\u{e000}\u{fb01}\u{ffff}\u{10000}\u{1f600}".chars().collect();
    for _ in 0..(if thorough { 20000 } else { 1500 }) {
        let mk = |rng: &mut Rng| -> String {
            let n = 1 + rng.below(4);
            let mut s = if rng.chance(1, 4) { "n".repeat(30 + rng.below(6)) } else { String::new() };
            for _ in 0..n {
                s.push(alphabet[rng.below(alphabet.len())]);
            }
            s
        };
        let (a, c) = (mk(&mut rng), mk(&mut rng));
        probe_name_pair(out, &a, &c);
    }
    let ip = ident_pool();
    for s in &ip {
        probe_ident(out, s);
    }
    let valid: Vec<&String> = ip.iter().filter(|s| Identifier::new(s.as_str()).is_ok()).collect();
    for (i, a) in valid.iter().enumerate() {
        // every identifier against itself, its case variants and two neighbours
        let mut others: Vec<String> = vec![a.to_string(), a.to_uppercase(), a.to_lowercase()];
        others.push(valid[(i + 1) % valid.len()].to_string());
        others.push(valid[(i + 7) % valid.len()].to_string());
        for c in others {
            if Identifier::new(&c).is_ok() {
                probe_ident_pair(out, a, &c);
            }
        }
    }
    let cv = color_values();
    for (k, v) in cv.iter().enumerate() {
        for pos in 0..4 {
            let mut ch = [0.5, 0.25, 1.0, 0.0];
            ch[pos] = *v;
            probe_color(out, ch);
        }
        probe_color(out, [*v, cv[(k + 1) % cv.len()], cv[(k + 5) % cv.len()], *v]);
    }
    for s in [
        "1,0,0,1", "0,0,0,0", "-0,0.5,1,1", "-0.0,0,0,0", "0.5,0.5,0.5", "1,1,1,1,1", "", ",,,", " 1,0,0,1", "1, 0,0,1", "1,0,0,1 ", "+1,0,0,1", "1e0,0,0,1",
        ".5,0,0,1", "1.,0,0,1", "0x1,0,0,1", "NaN,0,0,1", "inf,0,0,1", "1,0,0,1.0000001", "1,0,0,-0.0000001", "0.3333,0.6667,1,0",
    ] {
        probe_colorstr(out, s);
    }
    for cps in [
        vec![],
        vec![0x41],
        vec![0x2126, 0x3A9, 0x1F700, 0x41],
        vec![0x3A9, 0x2126, 0x1D6C0, 0x3C9, 0x57],
        vec![0x41, 0x42, 0x43],
        vec![0x43, 0x42, 0x41],
        vec![0x41, 0x41, 0x42, 0x41],
        vec![0x10FFFF, 0x0, 0xFFFF, 0x1],
        vec![0x1F600, 0x1F601, 0x61],
    ] {
        probe_codepoints(out, &cps);
    }
    for _ in 0..(if thorough { 2000 } else { 150 }) {
        let n = 1 + rng.below(6);
        let pool = [0x41u32, 0x42, 0x3A9, 0x2126, 0x1F700, 0xFFFF, 0x10000, 0x57, 0x61, 0xE000];
        let cps: Vec<u32> = (0..n).map(|_| pool[rng.below(pool.len())]).collect();
        probe_codepoints(out, &cps);
    }
    for d in [
        -0.0f64,
        0.0,
        360.0,
        f64::from_bits(360.0f64.to_bits() + 1),
        f64::from_bits(360.0f64.to_bits() - 1),
        -f64::EPSILON,
        -1e-320,
        1e-320,
        45.5,
        400.0,
        -1.0,
        f64::NAN,
        f64::INFINITY,
    ] {
        for id in [None, Some(""), Some("id"), Some(" ")] {
            probe_guideline(out, d, id);
        }
    }
    for s in [
        "a.png", "ellipsis..png", "a..", "..a", ".a", "...", "a b.png", "\u{e9}.png", "a/b.png", "sub/a.png", "/a.png", "", "a.png/..", "x\u{ff0f}y.png",
        "a\\b.png", "-", "~",
    ] {
        probe_image(out, s);
    }
    for byte in 0u16..=255 {
        probe_indent_byte(out, byte as u8);
    }
    for s in ["move", "line", "offcurve", "curve", "qcurve", "Move", "LINE", "off", "", " line", "line ", "curve\u{0}", "qCurve"] {
        probe_pointtype(out, s);
    }
}

/// replay of one protocol line
pub fn observe(toks: &[&str]) -> String {
    let mut buf: Vec<u8> = Vec::new();
    let unh = |h: &str| -> String {
        if h == "-" {
            String::new()
        } else {
            String::from_utf8(crate::common::unhex(h)).unwrap_or_default()
        }
    };
    let bits = |h: &str| f64::from_bits(u64::from_str_radix(h, 16).unwrap_or(0));
    match toks[0] {
        "name" => probe_name(&mut buf, &unh(toks[1])),
        "nameord" => probe_name_pair(&mut buf, &unh(toks[1]), &unh(toks[2])),
        "ident" => probe_ident(&mut buf, &unh(toks[1])),
        "identeq" => probe_ident_pair(&mut buf, &unh(toks[1]), &unh(toks[2])),
        "color" => {
            let v: Vec<f64> = toks[1].split(',').map(bits).collect();
            probe_color(&mut buf, [v[0], v[1], v[2], v[3]])
        }
        "colorstr" => probe_colorstr(&mut buf, &unh(toks[1])),
        "cps" => {
            let v: Vec<u32> = if toks[1] == "-" { vec![] } else { toks[1].split(',').map(|h| u32::from_str_radix(h, 16).unwrap_or(0)).collect() };
            probe_codepoints(&mut buf, &v)
        }
        "gline" => {
            let id = if toks[2] == "none" { None } else { Some(unh(toks[2])) };
            probe_guideline(&mut buf, bits(toks[1]), id.as_deref())
        }
        "image" => probe_image(&mut buf, &unh(toks[1])),
        "indent" => probe_indent_byte(&mut buf, toks[1].parse().unwrap_or(0)),
        "ptype" => probe_pointtype(&mut buf, &unh(toks[1])),
        _ => return "unknown".into(),
    }
    let line = String::from_utf8(buf).unwrap_or_default();
    line.split(" => ").nth(1).unwrap_or("").trim().to_string()
}
