//! C20: `Contour::to_kurbo`, `ContourPoint::transform`, `AffineTransform` <-> `kurbo::Affine`.
//!
//! `C20 K <types> <x,y;x,y;..> => ok <el> .. | err <kind> | panic`
//!     types: letters m l o c q (upper case = smooth), `-` = empty contour; coordinates are decimal
//!     integers; elements `M<b>,<b>` `L..` `Q<b>*4` `C<b>*6` `Z`, `<b>` = f64 bit pattern.
//! `C20 T <xs> <xys> <yxs> <ys> <xo> <yo> <x> <y> => tr t:<b>,<b> k:<b>,<b> tk:<b>*6 rt:<b>*6 kt:<b>*6`
//! `C20 C <types> => k:<0|1> p:<0|1|->`   `Contour::is_closed` in the `kurbo` build and in the default build
//!
//! The property needs the `kurbo` feature of norad to be observed in full, so the generator runs in a harness
//! built with `--features kurbo`.  Everything of C20 that exists WITHOUT the feature (`ContourPoint::transform`,
//! `Contour::is_closed`) is additionally observed in the harness built with the crate's default features
//! (`$HARNESS_PLAIN`, a worker process `harness c20w`), token `p:`; `p:-` when no such binary is available.
use crate::common::*;
use crate::rng::Rng;
use norad::{AffineTransform, Contour, ContourPoint, Glyph, PointType};
use std::io::Write;

const LETTERS: [char; 5] = ['m', 'l', 'o', 'c', 'q'];

fn typ_of(c: char) -> PointType {
    match c.to_ascii_lowercase() {
        'm' => PointType::Move,
        'l' => PointType::Line,
        'o' => PointType::OffCurve,
        'c' => PointType::Curve,
        'q' => PointType::QCurve,
        _ => panic!("bad type letter"),
    }
}

fn typ_name(c: char) -> &'static str {
    match c.to_ascii_lowercase() {
        'm' => "move",
        'l' => "line",
        'o' => "offcurve",
        'c' => "curve",
        'q' => "qcurve",
        _ => panic!("bad type letter"),
    }
}

fn fb(x: f64) -> String {
    if x.is_nan() {
        "nan".to_string()
    } else {
        f64bits(x)
    }
}

/// The contour the glif parser returns for these points, when it accepts them (one non-empty
/// contour); otherwise the same points through the public constructors.
fn build(types: &str, coords: &[(i64, i64)]) -> Contour {
    if !types.is_empty() {
        let mut s = String::from("<?xml version=\"1.0\" encoding=\"UTF-8\"?>\n<glyph name=\"a\" format=\"2\">\n<outline>\n<contour>\n");
        for (ch, (x, y)) in types.chars().zip(coords) {
            s.push_str(&format!("<point x=\"{}\" y=\"{}\" type=\"{}\"", x, y, typ_name(ch)));
            if ch.is_ascii_uppercase() {
                s.push_str(" smooth=\"yes\"");
            }
            s.push_str("/>\n");
        }
        s.push_str("</contour>\n</outline>\n</glyph>\n");
        if let Ok(Ok(g)) = guarded(|| Glyph::parse_raw(s.as_bytes())) {
            if g.contours.len() == 1 && g.contours[0].points.len() == coords.len() {
                return g.contours[0].clone();
            }
        }
    }
    let pts = types
        .chars()
        .zip(coords)
        .map(|(ch, (x, y))| ContourPoint::new(*x as f64, *y as f64, typ_of(ch), ch.is_ascii_uppercase(), None, None))
        .collect();
    Contour::new(pts, None)
}

#[cfg(not(feature = "kurbo"))]
pub fn observe_path(_types: &str, _coords: &[(i64, i64)]) -> String {
    "nokurbo".to_string()
}

#[cfg(not(feature = "kurbo"))]
pub fn observe_transform(_v: &[f64]) -> String {
    "nokurbo".to_string()
}

#[cfg(feature = "kurbo")]
pub fn observe_path(types: &str, coords: &[(i64, i64)]) -> String {
    let c = build(types, coords);
    path_obs(&c)
}

#[cfg(not(feature = "kurbo"))]
fn path_obs(_c: &Contour) -> String {
    "nokurbo".to_string()
}

#[cfg(feature = "kurbo")]
fn path_obs(c: &Contour) -> String {
    match guarded(|| c.to_kurbo()) {
        Err(_) => "panic".to_string(),
        Ok(Err(e)) => format!("err {}", format!("{:?}", e).replace(' ', "_")),
        Ok(Ok(path)) => {
            let mut s = String::from("ok");
            for el in path.elements() {
                s.push(' ');
                match el {
                    kurbo::PathEl::MoveTo(p) => s.push_str(&format!("M{},{}", fb(p.x), fb(p.y))),
                    kurbo::PathEl::LineTo(p) => s.push_str(&format!("L{},{}", fb(p.x), fb(p.y))),
                    kurbo::PathEl::QuadTo(a, p) => {
                        s.push_str(&format!("Q{},{},{},{}", fb(a.x), fb(a.y), fb(p.x), fb(p.y)))
                    }
                    kurbo::PathEl::CurveTo(a, b, p) => s.push_str(&format!(
                        "C{},{},{},{},{},{}",
                        fb(a.x),
                        fb(a.y),
                        fb(b.x),
                        fb(b.y),
                        fb(p.x),
                        fb(p.y)
                    )),
                    kurbo::PathEl::ClosePath => s.push('Z'),
                }
            }
            s
        }
    }
}

fn coords_tok(coords: &[(i64, i64)]) -> String {
    if coords.is_empty() {
        return "-".to_string();
    }
    coords.iter().map(|(x, y)| format!("{},{}", x, y)).collect::<Vec<_>>().join(";")
}

pub fn parse_coords(tok: &str) -> Vec<(i64, i64)> {
    if tok == "-" {
        return Vec::new();
    }
    tok.split(';')
        .map(|p| {
            let mut it = p.split(',');
            (it.next().unwrap().parse().unwrap(), it.next().unwrap().parse().unwrap())
        })
        .collect()
}

fn emit_path(out: &mut dyn Write, types: &str, coords: &[(i64, i64)]) {
    let obs = observe_path(types, coords);
    let t = if types.is_empty() { "-" } else { types };
    writeln!(out, "C20 K {} {} => {}", t, coords_tok(coords), obs).unwrap();
}

/// pairwise distinct points with even integer coordinates (midpoints of two inputs are integers)
fn distinct_coords(rng: &mut Rng, n: usize, span: i64) -> Vec<(i64, i64)> {
    let mut v: Vec<(i64, i64)> = Vec::with_capacity(n);
    while v.len() < n {
        let p = (2 * rng.range(-span, span), 2 * rng.range(-span, span));
        // also keep midpoints apart from inputs as far as cheaply possible: distinct points suffice
        if !v.contains(&p) {
            v.push(p);
        }
    }
    v
}

fn enumerate(len: usize, f: &mut dyn FnMut(&str)) {
    let mut idx = vec![0usize; len];
    loop {
        let s: String = idx.iter().map(|i| LETTERS[*i]).collect();
        f(&s);
        let mut k = len;
        loop {
            if k == 0 {
                return;
            }
            k -= 1;
            idx[k] += 1;
            if idx[k] < 5 {
                break;
            }
            idx[k] = 0;
        }
    }
}

/// a mostly legal random contour built from segments, optionally damaged
fn random_contour(rng: &mut Rng) -> String {
    let mut s = String::new();
    let shape = rng.below(20);
    if shape == 0 {
        // off-curves only
        let cap = if rng.chance(1, 5) { 40 } else { 8 };
        let n = 1 + rng.below(cap);
        return "o".repeat(n);
    }
    let open = shape < 7;
    let cap = if rng.chance(1, 6) { 30 } else { 7 };
    let nseg = 1 + rng.below(cap);
    for _ in 0..nseg {
        match rng.below(10) {
            0 | 1 | 2 => s.push('l'),
            3 | 4 | 5 | 6 => {
                let k = if rng.chance(1, 25) { 3 } else { rng.below(3) };
                s.push_str(&"o".repeat(k));
                s.push('c');
            }
            _ => {
                let k = if rng.chance(1, 6) { 4 + rng.below(6) } else { rng.below(4) };
                s.push_str(&"o".repeat(k));
                s.push('q');
            }
        }
    }
    if open {
        s.insert(0, 'm');
        if rng.chance(1, 25) {
            s.push('o'); // trailing off-curve: illegal
        }
    } else {
        // rotate: a closed contour may start anywhere, in particular inside a run of off-curves
        let n = s.chars().count();
        let r = rng.below(n);
        let v: Vec<char> = s.chars().collect();
        s = v[r..].iter().chain(v[..r].iter()).collect();
    }
    if rng.chance(1, 30) {
        // damage: an off-curve before a line, or a move in the middle
        let v: Vec<char> = s.chars().collect();
        let i = rng.below(v.len());
        let ins = if rng.chance(1, 2) { "ol" } else { "m" };
        s = v[..i].iter().collect::<String>() + ins + &v[i..].iter().collect::<String>();
    }
    // random smooth flags on on-curve points
    s.chars().map(|c| if c != 'o' && c != 'm' && rng.chance(1, 4) { c.to_ascii_uppercase() } else { c }).collect()
}



// ---------------------------------------------------------------- glif documents -> path (stream G)
//
// `C20 G <fmt> <types> <x,y;..> <names> => ok <el>.. | anchor <b>,<b> | rej <kind> | shape c=<n> a=<m> | panic`
// The path the PARSER's contour converts to, for a document in format 1 or 2 with names on some points (`names`:
// one 0/1 per point) and coordinates that may coincide.  The driver derives the expected path from the point list of
// the XML (this line's input), not from the parsed `Contour`: a parser that drops, merges or moves a point shows here.

pub fn glif_document(fmt: u32, types: &str, coords: &[(i64, i64)], names: &str) -> String {
    let mut s = format!("<?xml version=\"1.0\" encoding=\"UTF-8\"?>\n<glyph name=\"a\" format=\"{}\">\n<outline>\n<contour>\n", fmt);
    for (i, ((ch, (x, y)), n)) in types.chars().zip(coords).zip(names.chars().chain(std::iter::repeat('0'))).enumerate() {
        s.push_str(&format!("<point x=\"{}\" y=\"{}\" type=\"{}\"", x, y, typ_name(ch)));
        if ch.is_ascii_uppercase() {
            s.push_str(" smooth=\"yes\"");
        }
        if n == '1' {
            s.push_str(&format!(" name=\"p{}\"", i));
        }
        s.push_str("/>\n");
    }
    s.push_str("</contour>\n</outline>\n</glyph>\n");
    s
}

pub fn observe_glif(fmt: u32, types: &str, coords: &[(i64, i64)], names: &str) -> String {
    let doc = glif_document(fmt, types, coords, names);
    match guarded(|| Glyph::parse_raw(doc.as_bytes())) {
        Err(_) => "panic".to_string(),
        Ok(Err(e)) => {
            let k = match e {
                norad::error::GlifLoadError::Parse(k) => format!("{:?}", k),
                other => format!("other:{:?}", other).replace(' ', "_"),
            };
            format!("rej {}", k)
        }
        Ok(Ok(g)) => {
            if g.contours.len() == 1 && g.anchors.is_empty() && g.components.is_empty() {
                path_obs(&g.contours[0])
            } else if g.contours.is_empty() && g.anchors.len() == 1 && g.components.is_empty() {
                format!("anchor {},{}", fb(g.anchors[0].x), fb(g.anchors[0].y))
            } else {
                format!("shape c={} a={}", g.contours.len(), g.anchors.len())
            }
        }
    }
}

fn emit_glif(out: &mut dyn Write, fmt: u32, types: &str, coords: &[(i64, i64)], names: &str) {
    writeln!(out, "C20 G {} {} {} {} => {}", fmt, types, coords_tok(coords), names, observe_glif(fmt, types, coords, names)).unwrap();
}

/// coordinate assignments in which points COINCIDE (index-derived or random coordinates never do)
fn coincide(kind: usize, types: &str, base: &[(i64, i64)]) -> Vec<(i64, i64)> {
    let n = base.len();
    let t: Vec<char> = types.chars().map(|c| c.to_ascii_lowercase()).collect();
    let mut v = base.to_vec();
    match kind {
        0 => {}                                   // pairwise distinct
        1 => v[n - 1] = v[0],                     // the closing point repeats the first
        2 => v.iter_mut().for_each(|p| *p = (6, -4)), // all points equal
        3 => (0..n).for_each(|i| v[i] = base[i / 2]), // stacked pairs
        4 => {
            // every off-curve sits on the next point that is not an off-curve (cyclically)
            for i in 0..n {
                if t[i] == 'o' {
                    if let Some(k) = (1..n).map(|d| (i + d) % n).find(|j| t[*j] != 'o') {
                        v[i] = base[k];
                    }
                }
            }
        }
        5 => {
            // first = second = last
            v[n - 1] = v[0];
            if n > 1 {
                v[1] = v[0];
            }
        }
        _ => (0..n).for_each(|i| v[i] = base[i % 2]), // only two distinct positions, alternating
    }
    v
}

fn name_mask(kind: usize, n: usize, rng: &mut Rng) -> String {
    (0..n)
        .map(|i| {
            let on = match kind {
                0 => false,
                1 => i == 0,
                2 => i == n / 2,
                3 => i == n - 1,
                4 => true,
                _ => rng.chance(1, 3),
            };
            if on { '1' } else { '0' }
        })
        .collect()
}

fn gen_glif(tier: &str, rng: &mut Rng, out: &mut dyn Write) {
    // every type sequence of 1..=4 points x both formats x names none/first/middle/last/all x 7 coincidence patterns
    for len in 1..=4usize {
        enumerate(len, &mut |s| {
            let base = distinct_coords(rng, len, 300);
            for fmt in [1u32, 2] {
                for nk in 0..5 {
                    let names = name_mask(nk, len, rng);
                    for ck in 0..7 {
                        emit_glif(out, fmt, s, &coincide(ck, s, &base), &names);
                    }
                }
            }
        });
    }
    // longer, mostly legal contours with random names and coincidence patterns
    let n = if tier == "thorough" { 200_000 } else { 25_000 };
    for _ in 0..n {
        let s = random_contour(rng);
        let len = s.chars().count();
        let base = distinct_coords(rng, len, 500);
        let fmt = if rng.chance(1, 2) { 1 } else { 2 };
        let names = name_mask(rng.below(6), len, rng);
        let ck = rng.below(7);
        emit_glif(out, fmt, &s, &coincide(ck, &s, &base), &names);
    }
}

// ---------------------------------------------------------------- the default-feature build

fn transform_of(v: &[f64]) -> (f64, f64) {
    let t = AffineTransform {
        x_scale: v[0],
        xy_scale: v[1],
        yx_scale: v[2],
        y_scale: v[3],
        x_offset: v[4],
        y_offset: v[5],
    };
    let mut p = ContourPoint::new(v[6], v[7], PointType::Line, false, None, None);
    p.transform(t);
    (p.x, p.y)
}

fn is_closed_of(types: &str) -> bool {
    let pts = types
        .chars()
        .enumerate()
        .map(|(i, ch)| ContourPoint::new(i as f64, 0.0, typ_of(ch), false, None, None))
        .collect();
    Contour::new(pts, None).is_closed()
}

/// answer of this build to one request line: `T <8 bit patterns>` -> `<bx>,<by>`; `C <types>` -> `0|1`
fn answer(line: &str) -> String {
    let toks: Vec<&str> = line.split(' ').collect();
    let r = guarded(|| match toks[0] {
        "T" => {
            let v: Vec<f64> = toks[1..9].iter().map(|t| f64::from_bits(u64::from_str_radix(t, 16).unwrap())).collect();
            let (x, y) = transform_of(&v);
            format!("{},{}", fb(x), fb(y))
        }
        "C" => {
            let types = if toks[1] == "-" { "" } else { toks[1] };
            (is_closed_of(types) as u8).to_string()
        }
        _ => "?".to_string(),
    });
    r.unwrap_or_else(|_| "panic".to_string())
}

/// `harness c20w`: the worker loop (one answer line per request line, flushed)
pub fn plain_worker() {
    use std::io::BufRead;
    let stdin = std::io::stdin();
    let stdout = std::io::stdout();
    let mut out = stdout.lock();
    for line in stdin.lock().lines() {
        let line = match line {
            Ok(l) => l,
            Err(_) => break,
        };
        writeln!(out, "{}", answer(line.trim())).unwrap();
        out.flush().unwrap();
    }
}

struct PlainProc {
    child: std::process::Child,
    stdin: std::process::ChildStdin,
    stdout: std::io::BufReader<std::process::ChildStdout>,
}

fn plain_binary() -> Option<(std::path::PathBuf, bool)> {
    if let Ok(p) = std::env::var("HARNESS_PLAIN") {
        return Some((std::path::PathBuf::from(p), true));
    }
    // fallback for manual runs: `check` builds this configuration into `<target>-kurbo`, the default one into `<target>`
    let exe = std::env::current_exe().ok()?;
    let tdir = exe.parent()?.parent()?.to_string_lossy().to_string();
    let base = tdir.strip_suffix("-kurbo")?;
    let p = std::path::PathBuf::from(format!("{}/release/harness", base));
    if p.exists() {
        Some((p, false))
    } else {
        None
    }
}

static PLAIN: std::sync::OnceLock<std::sync::Mutex<Option<PlainProc>>> = std::sync::OnceLock::new();

/// the default-feature build's answer to `req`, `-` when there is no such binary.  A binary named by
/// `$HARNESS_PLAIN` that cannot be driven is a tooling error (the process exits non-zero), never a silent `-`.
fn plain_ask(req: &str) -> String {
    use std::io::BufRead;
    let cell = PLAIN.get_or_init(|| {
        let proc_ = plain_binary().and_then(|(path, required)| {
            let spawned = std::process::Command::new(&path)
                .arg("c20w")
                .stdin(std::process::Stdio::piped())
                .stdout(std::process::Stdio::piped())
                .spawn();
            match spawned {
                Ok(mut child) => {
                    let stdin = child.stdin.take().unwrap();
                    let stdout = std::io::BufReader::new(child.stdout.take().unwrap());
                    Some(PlainProc { child, stdin, stdout })
                }
                Err(e) => {
                    if required {
                        eprintln!("C20: cannot run the default-feature harness {}: {}", path.display(), e);
                        std::process::exit(3);
                    }
                    None
                }
            }
        });
        std::sync::Mutex::new(proc_)
    });
    let mut guard = cell.lock().unwrap();
    match guard.as_mut() {
        None => "-".to_string(),
        Some(p) => {
            let mut line = String::new();
            let ok = writeln!(p.stdin, "{}", req).is_ok()
                && p.stdin.flush().is_ok()
                && p.stdout.read_line(&mut line).map(|n| n > 0).unwrap_or(false);
            if !ok {
                eprintln!("C20: the default-feature harness worker stopped answering");
                let _ = p.child.kill();
                std::process::exit(3);
            }
            line.trim().to_string()
        }
    }
}

pub fn observe_closed(types: &str) -> String {
    let k = guarded(|| is_closed_of(types)).map(|b| (b as u8).to_string()).unwrap_or_else(|_| "panic".to_string());
    let t = if types.is_empty() { "-" } else { types };
    format!("cl k:{} p:{}", k, plain_ask(&format!("C {}", t)))
}

fn emit_closed(out: &mut dyn Write, types: &str) {
    let t = if types.is_empty() { "-" } else { types };
    writeln!(out, "C20 C {} => {}", t, observe_closed(types)).unwrap();
}

// ---------------------------------------------------------------- transforms

#[cfg(feature = "kurbo")]
pub fn observe_transform(v: &[f64]) -> String {
    let t = AffineTransform {
        x_scale: v[0],
        xy_scale: v[1],
        yx_scale: v[2],
        y_scale: v[3],
        x_offset: v[4],
        y_offset: v[5],
    };
    let r = guarded(|| {
        let mut p = ContourPoint::new(v[6], v[7], PointType::Line, false, None, None);
        p.transform(t);
        let plain = plain_ask(&format!("T {}", v.iter().map(|x| f64bits(*x)).collect::<Vec<_>>().join(" ")));
        let ka: kurbo::Affine = t.into();
        let kp = ka * kurbo::Point::new(v[6], v[7]);
        let tk = ka.as_coeffs();
        let rt: AffineTransform = ka.into();
        let kin = kurbo::Affine::new([v[0], v[1], v[2], v[3], v[4], v[5]]);
        let mid: AffineTransform = kin.into();
        let kt: kurbo::Affine = mid.into();
        let kt = kt.as_coeffs();
        let six = |a: &[f64]| a.iter().map(|x| fb(*x)).collect::<Vec<_>>().join(",");
        format!(
            "tr t:{},{} k:{},{} tk:{} rt:{} kt:{} p:{}",
            fb(p.x),
            fb(p.y),
            fb(kp.x),
            fb(kp.y),
            six(&tk),
            six(&[rt.x_scale, rt.xy_scale, rt.yx_scale, rt.y_scale, rt.x_offset, rt.y_offset]),
            six(&kt),
            plain
        )
    });
    r.unwrap_or_else(|_| "panic".to_string())
}

fn emit_transform(out: &mut dyn Write, v: &[f64]) {
    let obs = observe_transform(v);
    let inp: Vec<String> = v.iter().map(|x| f64bits(*x)).collect();
    writeln!(out, "C20 T {} => {}", inp.join(" "), obs).unwrap();
}

const BOUNDARY: [f64; 16] = [
    0.0,
    -0.0,
    1.0,
    -1.0,
    0.5,
    2.0,
    f64::MAX,
    f64::MIN,
    f64::MIN_POSITIVE,
    5e-324,
    9007199254740992.0,
    9007199254740993.0,
    1e-9,
    1e308,
    -1e308,
    0.1,
];

fn random_finite(rng: &mut Rng) -> f64 {
    loop {
        let x = f64::from_bits(rng.next());
        if x.is_finite() {
            return x;
        }
    }
}

fn random_value(rng: &mut Rng, mode: usize) -> f64 {
    match mode {
        0 => rng.range(-1000, 1000) as f64,              // exact in the integer model
        1 => rng.range(-4000, 4000) as f64 / 4.0,        // quarter units: still exact
        2 => random_finite(rng),                         // any finite double
        3 => (rng.range(-1_000_000, 1_000_000) as f64) * 1e-3, // ordinary font-unit magnitudes, inexact
        _ => *rng.pick(&BOUNDARY),
    }
}

/// `base` moved by `k` units in the last place (through the bit pattern; crosses zero into the subnormals)
fn ulps(base: f64, k: i64) -> f64 {
    if base == 0.0 {
        let m = f64::from_bits(k.unsigned_abs());
        return if k < 0 { -m } else { m };
    }
    let b = base.to_bits() as i64;
    // for a negative double a larger bit pattern is a smaller value
    let nb = if base > 0.0 { b + k } else { b - k };
    f64::from_bits(nb as u64)
}

/// the values a short-circuit test "is this coefficient (approximately) `base`?" separates: `base` itself, 1 and 2
/// ulp either side, and absolute distances around `f64::EPSILON` (2^-53, 1e-16, EPS/2, EPS, 2 EPS; tiny ones for 0)
fn near(base: f64) -> Vec<f64> {
    let mut v = vec![base];
    for k in [1i64, 2] {
        v.push(ulps(base, k));
        v.push(ulps(base, -k));
    }
    let eps = f64::EPSILON;
    for d in [eps / 2.0, 1e-16, eps * 0.75, eps, 2.0 * eps, 1e-12] {
        v.push(base + d);
        v.push(base - d);
    }
    if base == 0.0 {
        v.push(f64::MIN_POSITIVE);
        v.push(-f64::MIN_POSITIVE);
        v.push(-0.0);
    }
    v.dedup_by(|a, b| a.to_bits() == b.to_bits());
    v
}

/// 3n. transforms a hair away from a shape an optimisation might test for (identity, zero, pure translation, scale
/// only, uniform scale, symmetric / equal cross terms): every coefficient at its shape value or just beside it — all
/// six moved at once and one at a time — applied to the origin and to points with huge coordinates, where one ulp
/// of a coefficient is whole units of the result.  An approximate comparison (`(a - b).abs() < EPSILON`) or a
/// skipped term shows on exactly these.
fn gen_near_shapes(rng: &mut Rng, out: &mut dyn Write) {
    let big = f64::MAX / 4.0;
    let points: [(f64, f64); 12] = [
        (0.0, 0.0),
        (-0.0, -0.0),
        (1.0, 1.0),
        (4503599627370496.0, 4503599627370496.0),   // 2^52
        (9007199254740992.0, 9007199254740992.0),   // 2^53
        (-9007199254740992.0, 9007199254740991.0),
        (1e18, 1e18),
        (10.0, 1e18),
        (1e18, -10.0),
        (big, -big),
        (-big, big),
        (123.0, -457.0),
    ];
    let shapes: [[f64; 6]; 9] = [
        [1.0, 0.0, 0.0, 1.0, 0.0, 0.0],       // identity
        [0.0, 0.0, 0.0, 0.0, 0.0, 0.0],       // zero
        [1.0, 0.0, 0.0, 1.0, 37.0, -12.5],    // pure translation
        [2.5, 0.0, 0.0, -3.0, 0.0, 0.0],      // scale only
        [2.5, 0.0, 0.0, -3.0, 37.0, -12.5],   // scale and offset, no cross terms
        [3.0, 0.0, 0.0, 3.0, 0.0, 0.0],       // uniform scale
        [1.0, 0.25, 0.25, 1.0, 0.0, 0.0],     // equal cross terms
        [0.0, 1.0, -1.0, 0.0, 0.0, 0.0],      // quarter turn
        [-1.0, 0.0, 0.0, 1.0, 0.0, 0.0],      // mirror
    ];
    let emit = |out: &mut dyn Write, c: &[f64; 6], p: (f64, f64)| {
        let v = [c[0], c[1], c[2], c[3], c[4], c[5], p.0, p.1];
        if v.iter().all(|x| x.is_finite()) {
            emit_transform(out, &v);
        }
    };
    for shape in shapes.iter() {
        let nears: Vec<Vec<f64>> = shape.iter().map(|b| near(*b)).collect();
        let n = nears.iter().map(|v| v.len()).max().unwrap();
        // all six beside their shape value at once (the j-th neighbour of each), every point
        for j in 0..n {
            let mut c = [0.0f64; 6];
            for i in 0..6 {
                c[i] = nears[i][j % nears[i].len()];
            }
            for p in points.iter() {
                emit(out, &c, *p);
            }
        }
        // all six beside it, independently chosen neighbours
        for _ in 0..40 {
            let mut c = [0.0f64; 6];
            for i in 0..6 {
                c[i] = *rng.pick(&nears[i]);
            }
            for p in points.iter() {
                emit(out, &c, *p);
            }
        }
        // one at a time, the others exactly on the shape
        for i in 0..6 {
            for x in nears[i].iter() {
                let mut c = *shape;
                c[i] = *x;
                for p in points.iter() {
                    emit(out, &c, *p);
                }
            }
        }
    }
}

pub fn gen(tier: &str, seed: u64, out: &mut dyn Write) {
    if !cfg!(feature = "kurbo") {
        eprintln!("C20: the generator needs the harness built with --features kurbo");
        std::process::exit(2);
    }
    let mut rng = Rng::new(seed);
    // 0. `Contour::is_closed` in both builds: every type sequence up to length 4
    for len in 0..=4 {
        enumerate(len, &mut |s| emit_closed(out, s));
    }
    let thorough = tier == "thorough";
    // 1. exhaustive: every type sequence up to the bound, random pairwise distinct coordinates
    let max_len = if thorough { 8 } else { 7 };
    for len in 0..=max_len {
        enumerate(len, &mut |s| {
            let coords = distinct_coords(&mut rng, len, 300);
            emit_path(out, s, &coords);
            // a second assignment with coincident points for the short ones (degenerate geometry)
            if len >= 1 && len <= 4 {
                let c2: Vec<(i64, i64)> = (0..len).map(|i| if i % 2 == 0 { (4, -6) } else { (-2, 8) }).collect();
                emit_path(out, s, &c2);
            }
        });
    }
    // 2. random longer contours, mostly legal, every legal start rotation, smooth flags
    let n = if thorough { 400_000 } else { 40_000 };
    for _ in 0..n {
        let s = random_contour(&mut rng);
        let span = if rng.chance(1, 10) { 1 << 28 } else { 500 };
        let coords = distinct_coords(&mut rng, s.chars().count(), span);
        emit_path(out, &s, &coords);
    }
    // 2g. glif documents (both formats, names on points, coinciding coordinates): expected path from the XML
    gen_glif(tier, &mut rng, out);
    // 3n. near-shape transforms (identity, zero, translation, scale-only, ... +- a hair) on the origin and on huge points
    gen_near_shapes(&mut rng, out);
    // 3a. transforms, structured: every pattern of the six coefficients over {0, 1, -1, other} (4^6 = 4096
    //     patterns: identity, pure translation, unit scales with shear, mirrored axes, ...), two points each
    for pat in 0..4096usize {
        for _ in 0..2 {
            let mut v = [0.0f64; 8];
            let mut p = pat;
            for x in v.iter_mut().take(6) {
                *x = match p % 4 {
                    0 => 0.0,
                    1 => 1.0,
                    2 => -1.0,
                    _ => {
                        let r = rng.range(2, 40) as f64;
                        if rng.chance(1, 2) { r } else { -r / 4.0 }
                    }
                };
                p /= 4;
            }
            v[6] = rng.range(-1000, 1000) as f64;
            v[7] = rng.range(-1000, 1000) as f64;
            if v[6] == 0.0 { v[6] = 7.0; }
            if v[7] == 0.0 { v[7] = -3.0; }
            emit_transform(out, &v);
        }
    }
    // 3b. transforms: 8 numbers; per-position modes so that exact and inexact cases both occur
    let n = if thorough { 1_000_000 } else { 100_000 };
    for i in 0..n {
        let mode = match i % 5 {
            0 => 0,
            1 => 1,
            2 => 2,
            3 => 3,
            _ => 9, // mixed
        };
        let mut v = [0.0f64; 8];
        for x in v.iter_mut() {
            let m = if mode == 9 { rng.below(5) } else { mode };
            *x = random_value(&mut rng, m);
        }
        emit_transform(out, &v);
    }
}
