#![allow(dead_code)]
//! Correspondence harness: drives the real norad API (path dependency on /repo) and prints one
//! canonical line per case: `<model> <input tokens> => <observation tokens>`.
mod common;
mod rng;
mod c11;
mod c06;
mod c05;

use std::io::{BufWriter, Write};

fn main() {
    common::silence_panics();
    let args: Vec<String> = std::env::args().collect();
    if args.len() < 2 {
        eprintln!("usage: harness gen <Cxx> <tier> <seed> | replay <file>");
        std::process::exit(2);
    }
    let stdout = std::io::stdout();
    let mut out = BufWriter::new(stdout.lock());
    match args[1].as_str() {
        "gen" => {
            let prop = args[2].as_str();
            let tier = args.get(3).map(|s| s.as_str()).unwrap_or("quick");
            let seed: u64 = args.get(4).and_then(|s| s.parse().ok()).unwrap_or(1);
            match prop {
                "C11" => c11::gen(tier, seed, &mut out),
                "C06" => c06::gen(tier, seed, &mut out),
                "C05" => c05::gen(tier, seed, &mut out),
                _ => {
                    eprintln!("unknown property {}", prop);
                    std::process::exit(2);
                }
            }
        }
        "replay" => {
            // re-run the implementation on the input part of every line of the file
            let text = std::fs::read_to_string(&args[2]).expect("replay file");
            for line in text.lines() {
                if line.starts_with('#') || line.trim().is_empty() {
                    continue;
                }
                let input = line.split(" => ").next().unwrap();
                let toks: Vec<&str> = input.split(' ').collect();
                let obs = replay_one(&toks);
                writeln!(out, "{} => {}", input, obs).unwrap();
            }
        }
        _ => {
            eprintln!("unknown command");
            std::process::exit(2);
        }
    }
    out.flush().unwrap();
}

fn replay_one(toks: &[&str]) -> String {
    match toks[0] {
        "C11" => {
            let fmt: u32 = toks[1].parse().unwrap();
            let cs: Vec<String> = toks[2][1..].split(',').map(|s| s.to_string()).collect();
            c11::observe(fmt, &cs)
        }
        "C06" => {
            let scratch = common::scratch_root().join("c06r");
            std::fs::create_dir_all(&scratch).unwrap();
            let r = c06::observe(&toks[1..], &scratch);
            common::rm_rf(&scratch);
            r
        }
        "C05" => {
            let scratch = common::scratch_root().join("c05r");
            std::fs::create_dir_all(&scratch).unwrap();
            let r = c05::observe(&toks[1..], &scratch);
            if std::env::var("VERIF_KEEP").is_err() {
                common::rm_rf(&scratch);
            }
            r
        }
        other => format!("unknown-model {}", other),
    }
}
