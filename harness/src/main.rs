#![allow(dead_code)]
//! Correspondence harness: drives the real norad API (path dependency on /repo) and prints one
//! canonical line per case: `<model> <input tokens> => <observation tokens>`.
mod common;
mod rng;
mod c11;
mod c06;
mod c03;
mod c18;
mod c20;
mod c07;
mod c15;
mod c10;
mod c13;
mod c14;
mod fi_fields;
mod legacy_fields;
mod c16;
mod c16req;
mod c12;
mod c02;
mod fsfam;
mod c08;
mod c09;
mod c17;
mod c19;
mod c01;
mod c04;
mod c05;
mod small;

use std::io::{BufWriter, Write};

fn main() {
    c03::install_hook();
    let args: Vec<String> = std::env::args().collect();
    if args.len() < 2 {
        eprintln!("usage: harness gen <Cxx> <tier> <seed> | replay <file>");
        std::process::exit(2);
    }
    let stdout = std::io::stdout();
    let mut out = BufWriter::new(stdout.lock());
    match args[1].as_str() {
        "gen" => {
            let prop = args[2].as_str();
            let tier = args.get(3).map(|s| s.as_str()).unwrap_or("quick");
            let seed: u64 = args.get(4).and_then(|s| s.parse().ok()).unwrap_or(1);
            match prop {
                "C11" => c11::gen(tier, seed, &mut out),
                "SM" => small::gen(tier, seed, &mut out),
                "C03API" => c03::gen_api(tier, seed, &mut out),
                "C06" => c06::gen(tier, seed, &mut out),
                "C03" => c03::gen(tier, seed, &mut out),
                "C18" => c18::gen(tier, seed, &mut out),
                "C20" => c20::gen(tier, seed, &mut out),
                "C07" => c07::gen(tier, seed, &mut out),
                "C15" => c15::gen(tier, seed, &mut out),
                "C10" => c10::gen(tier, seed, &mut out),
                "C13" => c13::gen(tier, seed, &mut out),
                "C14" => c14::gen(tier, seed, &mut out),
                "C16" => c16::gen(tier, seed, &mut out),
                "C16path" => c16::gen_path(tier, seed, &mut out),
                "C16req" => c16req::gen(tier, seed, &mut out),
                "C12" => c12::gen(tier, seed, &mut out),
                "C02" => c02::gen(tier, seed, &mut out),
                "C08" => c08::gen(tier, seed, &mut out),
                "C09" => c09::gen(tier, seed, &mut out),
                "C17" => c17::gen(tier, seed, &mut out),
                "C19" => c19::gen(tier, seed, &mut out),
                "C01" => c01::gen(tier, seed, &mut out),
                "C04" => c04::gen(tier, seed, &mut out),
                "C05" => c05::gen(tier, seed, &mut out),
                _ => {
                    eprintln!("unknown property {}", prop);
                    std::process::exit(2);
                }
            }
        }
        "single" => {
            // one potentially process-killing case, run in a child process
            if args[2] == "C03" {
                let r = c03::single(&args[3], args[4].parse().unwrap());
                writeln!(out, "{}", r).unwrap();
            }
        }
        // worker of the default-feature build, driven by the `kurbo` build of C20 over stdin/stdout
        "c20w" => c20::plain_worker(),
        "replay" => {
            // re-run the implementation on the input part of every line of the file
            let text = std::fs::read_to_string(&args[2]).expect("replay file");
            for line in text.lines() {
                if line.starts_with('#') || line.trim().is_empty() {
                    continue;
                }
                let input = line.split(" => ").next().unwrap();
                let toks: Vec<&str> = input.split(' ').collect();
                if toks[0] == "C12" {
                    // events and number table are derived from the document: regenerate the whole line
                    writeln!(out, "{}", c12::line_for(&common::unhex(toks[1]))).unwrap();
                    continue;
                }
                if toks[0] == "C02" {
                    // the glyph is regenerated from (seed, index); the whole line is derived from it
                    if let Some(l) = c02::line_for(toks[1].parse().unwrap(), toks[2].parse().unwrap(), toks[3]) {
                        writeln!(out, "{}", l).unwrap();
                    }
                    continue;
                }
                let obs = replay_one(&toks);
                writeln!(out, "{} => {}", input, obs).unwrap();
            }
        }
        "c10child" => c10::child(&args[2], &args[3], args.get(4).map(|s| s.as_str()).unwrap_or("E:")),
        "c19w" => c19::worker(&args[2..], &mut out),
        _ => {
            eprintln!("unknown command");
            std::process::exit(2);
        }
    }
    out.flush().unwrap();
}

fn replay_one(toks: &[&str]) -> String {
    match toks[0] {
        "SM" => small::observe(&toks[1..]),
        "C11" => {
            let mut ft = toks[1].split('@');
            let fmt: u32 = ft.next().unwrap().parse().unwrap();
            let order: usize = ft.next().map(|o| o.parse().unwrap()).unwrap_or(0);
            let cs: Vec<String> = toks[2][1..].split(',').map(|s| s.to_string()).collect();
            c11::observe_o(fmt, order, &cs)
        }
        "C06" => {
            let scratch = common::scratch_root().join("c06r");
            std::fs::create_dir_all(&scratch).unwrap();
            let r = c06::observe(&toks[1..], &scratch);
            common::rm_rf(&scratch);
            r
        }
        "C03" => {
            let scratch = common::scratch_root().join("c03r");
            std::fs::create_dir_all(&scratch).unwrap();
            let r = c03::observe(&toks[1..], &scratch);
            common::rm_rf(&scratch);
            r
        }
        "C18" | "C18L" | "C18F" => c18::observe(toks[0], &toks[1..]),
        "C20" => {
            if toks[1] == "K" {
                let types = if toks[2] == "-" { "" } else { toks[2] };
                c20::observe_path(types, &c20::parse_coords(toks[3]))
            } else if toks[1] == "G" {
                c20::observe_glif(toks[2].parse().unwrap(), toks[3], &c20::parse_coords(toks[4]), toks[5])
            } else if toks[1] == "C" {
                c20::observe_closed(if toks[2] == "-" { "" } else { toks[2] })
            } else {
                let v: Vec<f64> =
                    toks[2..10].iter().map(|t| f64::from_bits(u64::from_str_radix(t, 16).unwrap())).collect();
                c20::observe_transform(&v)
            }
        }
        "C07" => c07::replay(toks),
        "C15" => c15::observe(toks),
        "C10" => c10::observe(toks),
        "C13" => c13::replay(&toks[1..]),
        "C14" => c14::replay(&toks[1..]),
        "C16" => c16::observe(toks),
        "C16req" => c16req::observe(toks),
        "C16path" => c16::observe_path(&String::from_utf8(common::unhex(toks[1])).unwrap()),
        "C16pp" => c16::observe_pair(
            &String::from_utf8(common::unhex(toks[1])).unwrap(),
            &String::from_utf8(common::unhex(toks[2])).unwrap(),
        ),
        "C08" => {
            let scratch = common::scratch_root().join("c08r");
            std::fs::create_dir_all(&scratch).unwrap();
            let r = c08::observe(&toks[1..], &scratch);
            common::rm_rf(&scratch);
            r
        }
        "C09" => {
            let scratch = common::scratch_root().join("c09r");
            std::fs::create_dir_all(&scratch).unwrap();
            let r = c09::observe(&toks[1..], &scratch);
            common::rm_rf(&scratch);
            r
        }
        "C17" => {
            let scratch = common::scratch_root().join("c17r");
            std::fs::create_dir_all(&scratch).unwrap();
            let r = c17::observe(&toks[1..], &scratch);
            common::rm_rf(&scratch);
            r
        }
        "C19" => {
            let scratch = c19::scratch();
            let r = c19::observe(&toks[1..], &scratch, 100);
            common::rm_rf(&scratch);
            r
        }
        "C01" => {
            let scratch = common::scratch_root().join("c01r");
            std::fs::create_dir_all(&scratch).unwrap();
            let r = c01::observe(&toks[1..], &scratch);
            common::rm_rf(&scratch);
            r
        }
        "C04" => {
            let scratch = common::scratch_root().join("c04r");
            std::fs::create_dir_all(&scratch).unwrap();
            let r = c04::observe(&toks[1..], &scratch);
            common::rm_rf(&scratch);
            r
        }
        "C05" => {
            let scratch = common::scratch_root().join("c05r");
            std::fs::create_dir_all(&scratch).unwrap();
            let r = c05::observe(&toks[1..], &scratch);
            if std::env::var("VERIF_KEEP").is_err() {
                common::rm_rf(&scratch);
            }
            r
        }
        other => format!("unknown-model {}", other),
    }
}
