//! C08: refused saves leave the target untouched; in-place saves keep lazy store data.
//!
//! line: `C08 rich=<n> load=<0|1> stores=<0..2> sabot=<0..5> kinds=<bits> pre=<0..5> e=<op,op..>
//!          => <font description> T=<target> PRE=<tree> R=<result> POST=<tree>`
//!   kinds bits: 1 version<3 (64: V1 instead of V2), 2 public.objectLibs, 4 groups, 8 fontinfo (validate),
//!               32 guideline angle 400, 128 angle NaN, 256 angle -1e-9 (invalid font info in the specification's sense,
//!               whatever `validate` says)
//!   sabot (needs load=1): 1 non-PNG image in the source, 2 data file deleted after load, 3 data file replaced
//!               by a directory after load, 4 image truncated after load, 5 = 1 and the cell already forced
//!   pre: 0 absent, 1 empty dir, 2 another larger UFO, 3 nested junk, 4 plain file, 5 the font's own source
//!   round 6: sab=<d|i><index><x|r|t>.<..> (store files deleted / replaced by a directory / truncated on disk after the
//!               load, before any access), retry=<n> (the same save tried n times before), tsp=3|4 (target spelled through a
//!               symlinked parent / relative to the parent), stores=4|5 (size classes up to 3 MiB)
//!   gn.<hexname>: `Layer::entry(name).or_insert_with(..)` then `insert_glyph` of the same name (C09 histories)
//!   edits: gi.<n> gr.<n> lk nl.<n> di.<hexkey>.<c> dr.<hexkey> ii.<hexkey>.<c> ir.<hexkey> dg.<hexkey>
use crate::common::*;
use crate::fsfam::*;
use crate::rng::Rng;
use norad::{Font, Glyph};
use std::io::Write;
use std::path::{Path, PathBuf};

fn field<'a>(toks: &'a [&'a str], key: &str) -> &'a str {
    for t in toks {
        if let Some(r) = t.strip_prefix(key) {
            if let Some(v) = r.strip_prefix('=') {
                return v;
            }
        }
    }
    ""
}

fn num(toks: &[&str], key: &str) -> u32 {
    field(toks, key).parse().unwrap_or(0)
}

fn unhexs(s: &str) -> String {
    String::from_utf8(unhex(s)).unwrap()
}

pub fn store_set(id: u32) -> (Vec<(&'static str, Vec<u8>)>, Vec<(&'static str, Vec<u8>)>) {
    match id {
        0 => (vec![], vec![]),
        1 => (
            vec![("a.txt", b"Hello".to_vec()), ("com.x/y/z.bin", vec![0, 255, 7]), ("empty.bin", vec![])],
            vec![("i1.png", png("1")), ("i2.png", png("two")), ("Cover.PNG", png("cover")), ("sketch", png("noext"))],
        ),
        3 => (
            // dot-named files and directories at every depth: everything below data/ is data
            vec![
                (".gitkeep", vec![]),
                (".notdef.bin", vec![1, 2, 3]),
                ("x/.state", b"s".to_vec()),
                (".cache/a/b.bin", b"cached".to_vec()),
                ("plain.txt", b"p".to_vec()),
                ("deep/.hidden/.x/y", b"y".to_vec()),
            ],
            vec![(".thumb.png", png("thumb")), ("normal.png", png("n")), (".png", png("dotpng"))],
        ),
        4 => {
            // size classes of lazily read files (round 6): 0, 1, 4 KiB, 64 KiB + 1, 1 MiB + 1, 3 MiB; one large image
            let mut img = png("big");
            img.extend(blob(1024 * 1024 + 1, 5));
            (
                vec![
                    ("s0.bin", vec![]),
                    ("s1.bin", blob(1, 1)),
                    ("s4k.bin", blob(4096, 2)),
                    ("s64k1.bin", blob(64 * 1024 + 1, 3)),
                    ("big/s1m1.bin", blob(1024 * 1024 + 1, 4)),
                    ("s3m.bin", blob(3 * 1024 * 1024, 6)),
                ],
                vec![("big.png", img), ("small.png", png("small"))],
            )
        }
        5 => {
            // the cheap large case: one data file and one image just above 1 MiB next to small ones
            let mut img = png("big");
            img.extend(blob(1024 * 1024 + 1, 8));
            (vec![("a.txt", b"A".to_vec()), ("s1m1.bin", blob(1024 * 1024 + 1, 7))], vec![("big.png", img), ("i.png", png("i"))])
        }
        _ => (
            vec![
                ("a.txt", b"A".to_vec()),
                ("b/c.txt", b"C".to_vec()),
                ("b/d/e.txt", b"E\r\n".to_vec()),
                ("b/d/f.txt", b"F".to_vec()),
                ("z", vec![9; 40]),
            ],
            vec![("only.png", png("only")), ("Scan.Png", png("scan"))],
        ),
    }
}

/// deterministic bytes of a given length
fn blob(len: usize, salt: usize) -> Vec<u8> {
    (0..len).map(|i| ((i * 31 + salt * 7 + (i >> 11)) % 251) as u8).collect()
}

fn content(id: &str) -> Vec<u8> {
    match id {
        "p" => png("new"),
        "q" => png("other"),
        "x" => b"not a png".to_vec(),
        "e" => vec![],
        other => other.as_bytes().to_vec(),
    }
}

fn apply_edit(f: &mut Font, tr: &mut Track, op: &str) {
    let p: Vec<&str> = op.split('.').collect();
    let _ = guarded(|| match p[0] {
        "gi" => {
            f.default_layer_mut().insert_glyph(Glyph::new(&unhexs(p[1])));
        }
        "gn" => {
            // get-or-create through the raw map entry, then the usual "replace the placeholder" (C09 histories only)
            let n = unhexs(p[1]);
            let name = norad::Name::new(&n).unwrap();
            f.default_layer_mut().entry(name).or_insert_with(|| Glyph::new(&n));
            let mut g = Glyph::new(&n);
            g.width = 77.0;
            f.default_layer_mut().insert_glyph(g);
        }
        "gr" => {
            f.default_layer_mut().remove_glyph(&unhexs(p[1]));
        }
        "lk" => {
            f.lib.insert("com.test.edit".into(), plist::Value::Boolean(true));
        }
        "fe" => {
            // blank-only feature text is non-empty content
            f.features = [" ", "\n", "\r\n", "\u{a0}", "\u{2003}", "\t \n"][p[1].parse::<usize>().unwrap() % 6].to_string();
        }
        "ge" => {
            // a group without members is a (valid, non-empty) groups map
            f.groups.insert(norad::Name::new("vowels").unwrap(), vec![]);
        }
        "ie" => {
            // "present but empty" INNER values of font info, through the API: `Some(vec![])` is not the default, so the font
            // info is not empty and fontinfo.plist must be written WITH that (empty) list in it
            let fi = &mut f.font_info;
            match p[1].parse::<u32>().unwrap_or(0) {
                0 => {
                    f.guidelines_mut();
                }
                1 => {
                    let gs = f.guidelines_mut();
                    gs.push(norad::Guideline::new(norad::Line::Horizontal(5.0), None, None, None));
                    gs.clear();
                }
                2 => fi.postscript_blue_values = Some(vec![]),
                3 => fi.postscript_other_blues = Some(vec![]),
                4 => fi.postscript_stem_snap_h = Some(vec![]),
                5 => fi.open_type_gasp_range_records = Some(vec![]),
                6 => fi.open_type_name_records = Some(vec![]),
                7 => fi.open_type_os2_selection = Some(vec![]),
                8 => fi.open_type_os2_unicode_ranges = Some(vec![]),
                _ => fi.open_type_head_flags = Some(vec![]),
            }
        }
        "lx" => {
            // a layer lib that was filled and emptied again (and no colour): no layerinfo.plist
            if let Ok(l) = f.layers.get_or_create_layer(&unhexs(p[1])) {
                l.lib.insert("k".into(), plist::Value::Boolean(true));
                l.lib.remove("k");
            }
        }
        "gp" | "lp" => {
            // pairs of names that map to the same file name once illegal characters are replaced (and, for the sigma and
            // titlecase pairs, once case is ignored the way the clash test does); inserted in both orders
            let pairs = [("a*", "a_"), ("\u{c9}*", "\u{c9}_"), (".a\u{3a3}", "_a\u{3a3}"), ("a\u{3a3}*", "a\u{3a3}_"), ("\u{1c5}", "\u{1c6}"), ("A*", "a_")];
            let (a, b) = pairs[p[1].parse::<usize>().unwrap_or(0) % pairs.len()];
            let (first, second) = if p[2] == "1" { (b, a) } else { (a, b) };
            for n in [first, second] {
                if p[0] == "gp" {
                    f.default_layer_mut().insert_glyph(Glyph::new(n));
                } else {
                    let _ = f.layers.new_layer(n);
                }
            }
        }
        "kp" => {
            // add a pair, then delete it the obvious way: the first glyph stays behind with no seconds
            let a = norad::Name::new("A").unwrap();
            f.kerning.entry(a.clone()).or_default().insert(norad::Name::new("V").unwrap(), -30.0);
            f.kerning.get_mut(&a).unwrap().remove("V");
        }
        "k2" => {
            f.kerning.insert(norad::Name::new("E").unwrap(), Default::default());
            f.kerning.entry(norad::Name::new("F").unwrap()).or_default().insert(norad::Name::new("o").unwrap(), -5.0);
        }
        "g2" => {
            f.groups.insert(norad::Name::new("empty.one").unwrap(), vec![]);
            f.groups.insert(norad::Name::new("full.one").unwrap(), vec![norad::Name::new("a").unwrap()]);
        }
        "l2" => {
            let mut inner = plist::Dictionary::new();
            inner.insert("n".into(), plist::Value::Dictionary(Default::default()));
            inner.insert("m".into(), plist::Value::Array(vec![]));
            f.lib.insert("com.test.nested".into(), plist::Value::Dictionary(inner));
        }
        "ke" => {
            f.kerning.insert(norad::Name::new("a").unwrap(), Default::default());
        }
        "le" => {
            f.lib.insert("com.test.emptydict".into(), plist::Value::Dictionary(Default::default()));
            f.lib.insert("com.test.emptyarr".into(), plist::Value::Array(vec![]));
        }
        "lc" => {
            if let Ok(l) = f.layers.get_or_create_layer(&unhexs(p[1])) {
                l.color = Some(norad::Color::new(1.0, 0.0, 0.0, 1.0).unwrap());
            }
        }
        "ll" => {
            if let Ok(l) = f.layers.get_or_create_layer(&unhexs(p[1])) {
                l.lib.insert("k".into(), plist::Value::Boolean(true));
            }
        }
        "cl" => {
            if let Some(l) = f.layers.get_mut(&unhexs(p[1])) {
                l.clear();
            }
        }
        "nl" => {
            let _ = f.layers.new_layer(&unhexs(p[1]));
        }
        "di" => {
            ins(f, tr, 'd', &unhexs(p[1]), content(p[2]));
        }
        "ii" => {
            ins(f, tr, 'i', &unhexs(p[1]), content(p[2]));
        }
        "dr" => del(f, tr, 'd', &unhexs(p[1])),
        "ir" => del(f, tr, 'i', &unhexs(p[1])),
        "dg" => {
            let _ = f.data.get(Path::new(&unhexs(p[1])));
        }
        _ => {}
    });
}

pub fn observe(toks: &[&str], scratch: &Path) -> String {
    observe_ext(toks, scratch, false)
}

/// crafted relative paths (C09): 1-4 store keys through the API, 5-7 a source tree edited by hand before the load,
/// 8 image key `..`
fn craft_tree(src: &Path, craft: u32) {
    let edit = |file: &Path, from: &str, to: &str| {
        let s = std::fs::read_to_string(file).unwrap();
        std::fs::write(file, s.replace(from, to)).unwrap();
    };
    match craft {
        5 => {
            // contents.plist value pointing two levels up; the glif is moved there so that the load succeeds
            edit(&src.join("glyphs/contents.plist"), "<string>a.glif</string>", "<string>../../esc.glif</string>");
            std::fs::rename(src.join("glyphs/a.glif"), src.parent().unwrap().join("esc.glif")).unwrap();
        }
        6 => {
            std::fs::create_dir(src.join("glyphs/sub")).unwrap();
            edit(&src.join("glyphs/contents.plist"), "<string>a.glif</string>", "<string>sub/../a.glif</string>");
        }
        7 => {
            // a layer directory given with a nested path: Layer.path keeps the last component only
            std::fs::create_dir_all(src.join("nest")).unwrap();
            std::fs::create_dir_all(src.join("nest/glyphs.n")).unwrap();
            std::fs::write(
                src.join("nest/glyphs.n/contents.plist"),
                "<?xml version=\"1.0\" encoding=\"UTF-8\"?>\n<plist version=\"1.0\"><dict></dict></plist>\n",
            )
            .unwrap();
            edit(
                &src.join("layercontents.plist"),
                "</array>\n</plist>",
                "<array><string>nested</string><string>nest/glyphs.n</string></array></array>\n</plist>",
            );
        }
        11 => {
            // a layer directory given as an ABSOLUTE path (inside the sandbox): Layer.path keeps the last component
            let abs = src.parent().unwrap().join("abs.glyphs");
            std::fs::create_dir_all(&abs).unwrap();
            std::fs::write(
                abs.join("contents.plist"),
                "<?xml version=\"1.0\" encoding=\"UTF-8\"?>\n<plist version=\"1.0\"><dict></dict></plist>\n",
            )
            .unwrap();
            edit(
                &src.join("layercontents.plist"),
                "</array>\n</plist>",
                &format!("<array><string>absolute</string><string>{}</string></array></array>\n</plist>", abs.display()),
            );
        }
        14 => {
            // store files whose names are legal but not valid UTF-8 (and two that a lossy conversion would merge)
            use std::os::unix::ffi::OsStrExt;
            let put = |dir: &str, name: &[u8], bytes: &[u8]| {
                let p = src.join(dir).join(std::ffi::OsStr::from_bytes(name));
                std::fs::create_dir_all(p.parent().unwrap()).unwrap();
                std::fs::write(p, bytes).unwrap();
            };
            put("data", b"caf\xE9.txt", b"latin1");
            put("data", b"\xFF.dat", b"ff");
            put("data", b"\xFE.dat", b"fe");
            put("data", b"d\xE9r/x.bin", b"nested");
            put("images", b"im\xE9.png", &png("latin1"));
        }
        12 => {
            // the default layer spelled with a trailing separator, another one with a `./` prefix
            edit(&src.join("layercontents.plist"), "<string>glyphs</string>", "<string>glyphs/</string>");
        }
        10 => {
            // a layer directory one level up, really present beside the source: the load succeeds and
            // Layer.path must keep the last component only (a save elsewhere must stay inside its target)
            let sib = src.parent().unwrap().join("sib.glyphs");
            std::fs::create_dir_all(&sib).unwrap();
            std::fs::write(
                sib.join("contents.plist"),
                "<?xml version=\"1.0\" encoding=\"UTF-8\"?>\n<plist version=\"1.0\"><dict></dict></plist>\n",
            )
            .unwrap();
            edit(
                &src.join("layercontents.plist"),
                "</array>\n</plist>",
                "<array><string>sibling</string><string>../sib.glyphs</string></array></array>\n</plist>",
            );
        }
        _ => {}
    }
}

fn craft_font(font: &mut Font, tr: &mut Track, craft: u32) {
    match craft {
        1 => {
            ins(font, tr, 'd', "../x.txt", b"x".to_vec());
        }
        2 => {
            ins(font, tr, 'd', "../../esc.txt", b"esc".to_vec());
        }
        3 => {
            ins(font, tr, 'd', "./dot.txt", b"dot".to_vec());
        }
        4 => {
            ins(font, tr, 'd', "q/../b.txt", b"b".to_vec());
        }
        8 => {
            ins(font, tr, 'i', "..", png("dd"));
        }
        15 => {
            ins_b(font, tr, 'd', b"caf\xE9.txt", b"latin1".to_vec());
            ins_b(font, tr, 'd', b"\xFF.dat", b"ff".to_vec());
            ins_b(font, tr, 'd', b"\xFE.dat", b"fe".to_vec());
            ins_b(font, tr, 'd', b"d\xE9r/x.bin", b"nested".to_vec());
            ins_b(font, tr, 'i', b"im\xE9.png", png("latin1"));
        }
        9 => {
            ins(font, tr, 'd', "../../../esc3.txt", b"esc3".to_vec());
        }
        _ => {}
    }
}

/// saves of OTHER fonts that fail in different places: 1 `Uid` in a glyph lib (encode error in the middle of a glyph),
/// 2 `Uid` in the font lib, 3 `Uid` in a layer lib, 4 a good glyph followed by a `Uid` glyph, 5 refused (format version),
/// 6 refused (groups), 7 a store entry that is not a PNG (lazy), 8 `public.objectLibs` in a glyph lib
fn prior_failed_save(n: u32, at: &Path) {
    if n == 0 {
        return;
    }
    rm_rf(at);
    let mut tr = Track::default();
    let mut f = api_font(3, &mut tr);
    let uid = || plist::Value::Uid(plist::Uid::new(7));
    let mut rich_glyph = |name: &str| {
        let mut g = Glyph::new(name);
        g.width = 123.0;
        g.lib.insert("com.test.uid".into(), uid());
        g
    };
    match n {
        1 => f.default_layer_mut().insert_glyph(rich_glyph("unwritable")),
        2 => {
            f.lib.insert("com.test.uid".into(), uid());
        }
        3 => {
            f.default_layer_mut().lib.insert("com.test.uid".into(), uid());
        }
        4 => {
            f.default_layer_mut().insert_glyph(Glyph::new("0first"));
            f.default_layer_mut().insert_glyph(rich_glyph("zz.unwritable"));
        }
        5 => f.meta.format_version = norad::FormatVersion::V2,
        6 => {
            let mut t2 = Track::default();
            groups_variant(&mut f, &mut t2, 1);
        }
        8 => {
            let mut g = Glyph::new("objlibs");
            g.lib.insert("public.objectLibs".into(), plist::Value::Dictionary(Default::default()));
            f.default_layer_mut().insert_glyph(g);
        }
        _ => {
            // 7: a second layer whose only glyph cannot be encoded
            if let Ok(l) = f.layers.get_or_create_layer("broken") {
                l.insert_glyph(rich_glyph("only"));
            }
        }
    }
    let _ = guarded(|| f.save(at));
    rm_rf(at);
}

pub fn observe_ext(toks: &[&str], scratch: &Path, fresh: bool) -> String {
    let sb = scratch.join("sb");
    rm_rf(&sb);
    std::fs::create_dir_all(sb.join("o/m")).unwrap();
    std::fs::write(sb.join("top.txt"), b"top").unwrap();
    std::fs::write(sb.join("o/above.txt"), b"above").unwrap();
    std::fs::write(sb.join("o/m/beside.txt"), b"beside").unwrap();
    let rich = num(toks, "rich");
    let load = num(toks, "load") == 1;
    let stores = num(toks, "stores");
    let sabot = num(toks, "sabot");
    let kinds = num(toks, "kinds");
    let pre = num(toks, "pre");
    let src = sb.join("o/m/src.ufo");
    let mut tr = Track::default();
    let mut disk_keys: Vec<(char, String)> = Vec::new();
    let mut font = if load {
        let (d, mut i) = store_set(stores);
        if sabot == 1 || sabot == 5 {
            i.push(("bad.png", b"GIF89a".to_vec()));
        }
        let legacy = num(toks, "legacy");
        // a format 1/2 tree has no guidelines in fontinfo.plist (v3 only)
        write_source_tree(&src, if legacy != 0 { rich & !16 } else { rich }, &d, &i);
        craft_tree(&src, num(toks, "craft"));
        if legacy == 1 || legacy == 2 {
            // a format 1 / 2 UFO that carries data/ and images/ (hand-made or third-party): norad never writes one
            let mi = src.join("metainfo.plist");
            let text = std::fs::read_to_string(&mi).unwrap();
            std::fs::write(&mi, text.replace("<integer>3</integer>", &format!("<integer>{}</integer>", legacy))).unwrap();
            if legacy == 1 {
                let _ = std::fs::remove_file(src.join("layercontents.plist"));
            }
        }
        let meta = num(toks, "meta");
        if meta % 3 != 0 {
            // a third-party tree: foreign creator / no creator at all
            let mi = src.join("metainfo.plist");
            let text = std::fs::read_to_string(&mi).unwrap();
            let text = if meta % 3 == 1 {
                text.replace("org.linebender.norad", "com.example.othertool")
            } else {
                text.replace("<key>creator</key>", "").replace("<string>org.linebender.norad</string>", "")
            };
            std::fs::write(&mi, text).unwrap();
        }
        if num(toks, "craft") == 13 {
            // hand-written kerning.plist whose only first glyph has no seconds
            std::fs::write(
                src.join("kerning.plist"),
                "<?xml version=\"1.0\" encoding=\"UTF-8\"?>\n<plist version=\"1.0\"><dict><key>A</key><dict/></dict></plist>\n",
            )
            .unwrap();
        }
        // what is on disk below data/ and images/ when the font is loaded (independent of norad's own listing)
        for (rel, kind, _) in snapshot_b(&src) {
            if kind == 'f' {
                if let Some(k) = rel.strip_prefix("data/") {
                    disk_keys.push(('d', k.to_string()));
                } else if let Some(k) = rel.strip_prefix("images/") {
                    disk_keys.push(('i', k.to_string()));
                }
            }
        }
        tr.root = Some("o/m/src.ufo".into());
        let part = num(toks, "part");
        let loaded = guarded(|| match part {
            // fonts that come from a partial load (C17) are saved like any other
            1 => Font::load_requested_data(&src, norad::DataRequest::none().lib(true).default_layer(true).data(true)),
            2 => Font::load_requested_data(&src, norad::DataRequest::all().data(false).groups(false).filter_layers(|n, _| n != "background")),
            _ => Font::load(&src),
        });
        match part {
            1 => disk_keys.retain(|k| k.0 == 'd'),
            2 => disk_keys.retain(|k| k.0 == 'i'),
            _ => {}
        }
        match loaded {
            Ok(Ok(f)) => f,
            _ => return "load-failed".into(),
        }
    } else {
        api_font(rich, &mut tr)
    };
    if load {
        let (d, i) = store_set(stores);
        match sabot {
            2 if !d.is_empty() => std::fs::remove_file(src.join("data").join(d[0].0)).unwrap(),
            3 if !d.is_empty() => {
                let p = src.join("data").join(d[0].0);
                std::fs::remove_file(&p).unwrap();
                std::fs::create_dir(&p).unwrap();
            }
            4 if !i.is_empty() => std::fs::write(src.join("images").join(i[0].0), b"").unwrap(),
            5 => {
                let _ = font.images.get(Path::new("bad.png"));
            }
            _ => {}
        }
    }
    if load {
        // `sab=<d|i><index><x|r|t>.<..>`: store files deleted (x) / replaced by a directory (r) / truncated (t) on disk
        // AFTER the load and BEFORE any access, any number of them
        let (d, i) = store_set(stores);
        for item in field(toks, "sab").split('.').filter(|x| x.len() >= 3) {
            let kind = &item[..1];
            let op = &item[item.len() - 1..];
            let idx: usize = item[1..item.len() - 1].parse().unwrap_or(0);
            let (dir, set) = if kind == "d" { ("data", &d) } else { ("images", &i) };
            if let Some((key, _)) = set.get(idx) {
                let p = src.join(dir).join(key);
                match op {
                    "x" => {
                        let _ = std::fs::remove_file(&p);
                    }
                    "r" => {
                        let _ = std::fs::remove_file(&p);
                        let _ = std::fs::create_dir(&p);
                    }
                    _ => {
                        let _ = std::fs::write(&p, b"");
                    }
                }
            }
        }
    }
    if load && num(toks, "craft") == 5 {
        // the glyph is in memory now; remove the file so that re-creating it outside the target is visible
        let _ = std::fs::remove_file(src.parent().unwrap().join("esc.glif"));
    }
    // meta shapes: creator norad / foreign / none, with and without a minor version (the refusals must not depend on it)
    let meta = num(toks, "meta");
    match meta % 3 {
        1 => font.meta.creator = Some("com.example.othertool".into()),
        2 => font.meta.creator = None,
        _ => {}
    }
    if meta >= 3 {
        font.meta.format_version_minor = 1;
    }
    make_invalid(&mut font, &mut tr, kinds);
    fontinfo_variant(&mut font, num(toks, "fi"));
    groups_variant(&mut font, &mut tr, num(toks, "gr"));
    craft_font(&mut font, &mut tr, num(toks, "craft"));
    let edits = field(toks, "e");
    if !edits.is_empty() {
        for op in edits.split(',') {
            apply_edit(&mut font, &mut tr, op);
            let q: Vec<&str> = op.split('.').collect();
            if q[0] == "dr" || q[0] == "ir" {
                let kind = if q[0] == "dr" { 'd' } else { 'i' };
                let key = unhexs(q[1]);
                disk_keys.retain(|k| !(k.0 == kind && k.1 == esc(key.as_bytes())));
            }
        }
    }
    // `anc`: 1 or 2 directories ABOVE the target do not exist (the unchanged code refuses with CreateUfoDir)
    let anc = num(toks, "anc");
    let target: PathBuf = if pre == 5 && load {
        src.clone()
    } else if anc == 1 {
        sb.join("o/m/exports/t.ufo")
    } else if anc >= 2 {
        sb.join("o/m/exports/masters/t.ufo")
    } else {
        sb.join("o/m/t.ufo")
    };
    if !(pre == 5 && load) && anc == 0 {
        prepare_target(&target, if pre == 5 { 2 } else { pre });
    }
    let trel = target.strip_prefix(&sb).unwrap().to_string_lossy().to_string();
    let desc = describe(&font, &tr);
    let pre_tok = tree_token(&sb);
    // the same target under another spelling: trailing separator, a `..` detour
    let spelled: PathBuf = match num(toks, "tsp") {
        1 => PathBuf::from(format!("{}/", target.display())),
        2 => target.parent().unwrap().join("..").join("m").join(target.file_name().unwrap()),
        // round 6: through a symbolic link to the PARENT (the link lives outside the sandbox); relative to the parent
        3 => {
            let lnk = scratch.join("lnk");
            rm_rf(&lnk);
            std::os::unix::fs::symlink(target.parent().unwrap(), &lnk).unwrap();
            lnk.join(target.file_name().unwrap())
        }
        4 => PathBuf::from(target.file_name().unwrap()),
        _ => target.clone(),
    };
    let old_cwd = std::env::current_dir().ok();
    if num(toks, "tsp") == 4 {
        let _ = std::env::set_current_dir(target.parent().unwrap());
    }
    // `retry=<n>`: the caller tried the very same save n times before (whatever those did counts: PRE is older)
    for _ in 0..num(toks, "retry") {
        let _ = save_result_opt(&font, &spelled, num(toks, "wo"));
    }
    // process history: an unrelated save that FAILS on this thread right before the observed one
    prior_failed_save(num(toks, "prior"), &scratch.join("prior.ufo"));
    let r = save_result_opt(&font, &spelled, num(toks, "wo"));
    if num(toks, "tsp") == 4 {
        if let Some(c) = &old_cwd {
            let _ = std::env::set_current_dir(c);
        }
    }
    if num(toks, "tsp") == 3 {
        rm_rf(&scratch.join("lnk"));
    }
    let post_tok = tree_token(&sb);
    let mut extra = String::new();
    if fresh {
        // the same font once more into a fresh path of another sandbox: byte-for-byte comparison of the two trees
        let fsb = scratch.join("fresh/o/m");
        rm_rf(&scratch.join("fresh"));
        std::fs::create_dir_all(&fsb).unwrap();
        // ... and on a FRESH THREAD (no per-thread state of earlier saves of this process can reach it)
        let r2 = {
            let f2 = font.clone();
            let dst = fsb.join("f.ufo");
            let wo = num(toks, "wo");
            std::thread::spawn(move || save_result_opt(&f2, &dst, wo)).join().unwrap_or_else(|_| "panic".to_string())
        };
        let same = r == "ok" && r2 == "ok" && snapshot_b(&target) == snapshot_b(&fsb.join("f.ufo"));
        extra = format!(" FRESH={}:{}", r2, if same { "same" } else { "diff" });
        rm_rf(&scratch.join("fresh"));
        if r == "ok" && target.is_dir() {
            // optional files that are present but hold an EMPTY top-level container (read with the plist crate, not norad)
            let mut empties: Vec<String> = Vec::new();
            for (rel, kind, bytes) in snapshot_b(&target) {
                if kind != 'f' {
                    continue;
                }
                let name = rel.rsplit('/').next().unwrap_or("");
                let optional = ["fontinfo.plist", "lib.plist", "groups.plist", "kerning.plist", "layerinfo.plist"].contains(&name);
                if optional {
                    if let Ok(v) = plist::Value::from_reader_xml(&bytes[..]) {
                        if v.as_dictionary().map(|d| d.is_empty()).unwrap_or(false) {
                            empties.push(rel.clone());
                        }
                    }
                } else if name == "features.fea" && bytes.is_empty() {
                    empties.push(rel.clone());
                }
            }
            extra.push_str(&format!(" EMPTYFILES={}", if empties.is_empty() { "-".to_string() } else { empties.join(",") }));
            // the written tree reproduces itself: load it, save that into a fresh path, compare byte for byte
            let rs = scratch.join("resave");
            rm_rf(&rs);
            std::fs::create_dir_all(&rs).unwrap();
            let res = match guarded(|| Font::load(&target)) {
                Ok(Ok(f2)) => {
                    let r3 = save_result_opt(&f2, &rs.join("r.ufo"), num(toks, "wo"));
                    if r3 != "ok" {
                        format!("save-{}", r3.replace(':', "-"))
                    } else if snapshot_b(&target) == snapshot_b(&rs.join("r.ufo")) {
                        "same".to_string()
                    } else {
                        let a = snapshot_b(&target);
                        let b = snapshot_b(&rs.join("r.ufo"));
                        let an: Vec<&String> = a.iter().map(|e| &e.0).collect();
                        let bn: Vec<&String> = b.iter().map(|e| &e.0).collect();
                        if an != bn { "diff-paths".to_string() } else { "diff-bytes".to_string() }
                    }
                }
                _ => "load-failed".to_string(),
            };
            extra.push_str(&format!(" RESAVE={}", res));
            rm_rf(&rs);
        }
    }
    if fresh {
        // C09 only: glyphs the containers report (`iter()`) that have no file name - a successful save cannot write them
        let nofile: usize = font.layers.iter().map(|l| l.iter().filter(|g| l.get_path(g.name()).is_none()).count()).sum();
        extra.push_str(&format!(" NOFILE={}", nofile));
    }
    rm_rf(&sb);
    if load {
        extra.push_str(" SRC=o/m/src.ufo");
        let keep: Vec<String> = disk_keys.iter().map(|(k, key)| format!("{}:{}", k, hexs(key))).collect();
        extra.push_str(&format!(" KEEP={}", if keep.is_empty() { "-".to_string() } else { keep.join(",") }));
    }
    format!("{} T={} PRE={} R={} POST={}{}", desc, trel, pre_tok, r, post_tok, extra)
}

fn emit(out: &mut dyn Write, scratch: &Path, recipe: &str) {
    let toks: Vec<&str> = recipe.split(' ').collect();
    let obs = observe(&toks, scratch);
    writeln!(out, "C08 {} => {}", recipe, obs).unwrap();
}

fn gen_edits(rng: &mut Rng, stores: u32) -> String {
    let (d, i) = store_set(stores);
    let mut dkeys: Vec<String> = d.iter().map(|e| e.0.to_string()).collect();
    dkeys.extend(["new.txt", "n/e/w.txt", "a.txt"].iter().map(|s| s.to_string()));
    let mut ikeys: Vec<String> = i.iter().map(|e| e.0.to_string()).collect();
    ikeys.extend(["new.png", "i1.png"].iter().map(|s| s.to_string()));
    let n = rng.below(6);
    let mut ops = Vec::new();
    for _ in 0..n {
        let op = match rng.below(14) {
            10 => format!("ii.{}.x", hexs(rng.pick(&ikeys[..]).as_str())), // rejected: not a PNG
            11 => format!("fe.{}", rng.below(6)),
            12 => (*rng.pick(&["ge", "ke", "le"])).to_string(),
            13 => format!("{}.{}", *rng.pick(&["lc", "ll", "cl"]), hexs(*rng.pick(&["public.default", "background", "fresh"]))),
            0 => format!("gi.{}", hexs(*rng.pick(&["a", "zz", "A_b", "q.alt"]))),
            1 => format!("gr.{}", hexs(*rng.pick(&["a", "A", "zz"]))),
            2 => "lk".to_string(),
            3 => format!("nl.{}", hexs(*rng.pick(&["extra", "background", "Q"]))),
            4 | 5 => format!("di.{}.{}", hexs(rng.pick(&dkeys[..]).as_str()), *rng.pick(&["w1", "w2", "e", "p"])),
            6 => format!("dr.{}", hexs(rng.pick(&dkeys[..]).as_str())),
            7 => format!("ii.{}.{}", hexs(rng.pick(&ikeys[..]).as_str()), *rng.pick(&["p", "q"])),
            8 => format!("ir.{}", hexs(rng.pick(&ikeys[..]).as_str())),
            _ => format!("dg.{}", hexs(rng.pick(&dkeys[..]).as_str())),
        };
        ops.push(op);
    }
    ops.join(",")
}

pub fn gen(tier: &str, seed: u64, out: &mut dyn Write) {
    let scratch: PathBuf = scratch_root().join("c08");
    std::fs::create_dir_all(&scratch).unwrap();
    let mut rng = Rng::new(seed);
    let reps = if tier == "thorough" { 40 } else { 1 };
    // refused saves: every kind and every pair of kinds x the six pre-states x API-built / loaded fonts
    let single = [1u32, 1 | 64, 2, 4, 8, 32, 128, 256];
    let mut kindsets: Vec<u32> = single.to_vec();
    for a in 0..single.len() {
        for b in a + 1..single.len() {
            if single[a] & 1 != 0 && single[b] & 1 != 0 {
                continue;
            }
            kindsets.push(single[a] | single[b]);
        }
    }
    for rep in 0..reps {
        for &k in &kindsets {
            for pre in 0..6 {
                for load in 0..2 {
                    let rich = if rep == 0 { [3u32, 31][load as usize] } else { rng.below(32) as u32 };
                    let stores = if load == 1 { 1 + rng.below(2) as u32 } else { 0 };
                    emit(out, &scratch, &format!("rich={} load={} stores={} sabot=0 kinds={} pre={} e=", rich, load, stores, k, pre));
                }
            }
        }
        // store entries in error state (alone and together with another kind)
        for sabot in 1..=5 {
            for pre in 0..6 {
                for &k in &[0u32, 4, 32] {
                    let rich = rng.below(32) as u32;
                    let stores = 1 + rng.below(2) as u32;
                    emit(out, &scratch, &format!("rich={} load=1 stores={} sabot={} kinds={} pre={} e=", rich, stores, sabot, k, pre));
                }
            }
        }
        // valid fonts over every pre-state (the wipe, the plain-file refusal of remove_dir_all, a symlinked target)
        for pre in 0..7 {
            for load in 0..2 {
                for _ in 0..3 {
                    let rich = rng.below(32) as u32;
                    let stores = rng.below(3) as u32;
                    emit(out, &scratch, &format!("rich={} load={} stores={} sabot=0 kinds=0 pre={} e=", rich, load, stores, pre));
                }
            }
        }
    }
    // boundary values of other font-info and groups rules, other entry points, other spellings of the target,
    // fonts from partial loads (phase 3 review of blind spots)
    for fi in 1..=12 {
        for &pre in &[0u32, 2, 5] {
            for load in 0..2 {
                emit(out, &scratch, &format!("rich={} load={} stores=1 sabot=0 kinds=0 pre={} fi={} e=", rng.below(32), load, pre, fi));
            }
        }
    }
    for gr in 1..=5 {
        for &pre in &[0u32, 2, 5] {
            emit(out, &scratch, &format!("rich={} load={} stores=1 sabot=0 kinds=0 pre={} gr={} e=", rng.below(32), pre % 2, pre, gr));
        }
    }
    for wo in 1..=2 {
        for &k in &[0u32, 1, 2, 4, 8, 32, 128] {
            for &pre in &[0u32, 1, 2, 4, 5] {
                emit(out, &scratch, &format!("rich={} load=1 stores=2 sabot=0 kinds={} pre={} wo={} e=", rng.below(32), k, pre, wo));
            }
        }
        for &pre in &[0u32, 2] {
            emit(out, &scratch, &format!("rich=31 load=1 stores=1 sabot=1 kinds=0 pre={} wo={} e=", pre, wo));
        }
    }
    for tsp in 1..=2 {
        for &k in &[0u32, 4, 8] {
            for &pre in &[0u32, 1, 2, 4, 5] {
                emit(out, &scratch, &format!("rich={} load=1 stores=1 sabot=0 kinds={} pre={} tsp={} e=", rng.below(32), k, pre, tsp));
            }
        }
        emit(out, &scratch, &format!("rich=7 load=1 stores=2 sabot=2 kinds=0 pre=5 tsp={} e=", tsp));
    }
    for part in 1..=2 {
        for &k in &[0u32, 4] {
            for &pre in &[2u32, 5] {
                emit(out, &scratch, &format!("rich=31 load=1 stores=2 sabot=0 kinds={} pre={} part={} e=", k, pre, part));
            }
        }
    }
    // refused saves onto a target that is a symbolic link to a populated directory elsewhere
    for &k in &[1u32, 2, 4, 8, 32] {
        for load in 0..2 {
            emit(out, &scratch, &format!("rich={} load={} stores=1 sabot=0 kinds={} pre=6 e=", rng.below(32), load, k));
        }
    }
    // rejected replacement of a never-read image, then save in place (the entry must stay tracked)
    for stores in 1..=2 {
        let (_, i) = store_set(stores);
        for (key, _) in &i {
            emit(out, &scratch, &format!("rich={} load=1 stores={} sabot=0 kinds=0 pre=5 e=ii.{}.x", rng.below(32), stores, hexs(key)));
            emit(out, &scratch, &format!("rich={} load=1 stores={} sabot=0 kinds=0 pre=5 e=", rng.below(32), stores));
        }
    }
    // round 3: format 1 / 2 sources that carry data/ and images/ (in place and elsewhere); an out-of-range guideline
    // angle combined with every other guideline attribute and position; missing directories above the target
    for legacy in 1..=2 {
        for stores in 1..=2 {
            for &pre in &[5u32, 0, 2] {
                for &rich in &[0u32, 13] {
                    emit(out, &scratch, &format!("rich={} load=1 stores={} sabot=0 kinds=0 pre={} legacy={} e=", rich, stores, pre, legacy));
                }
            }
        }
    }
    for fi in 20..52 {
        for &(pre, load) in &[(2u32, 0u32), (5, 1), (0, 1)] {
            emit(out, &scratch, &format!("rich={} load={} stores=1 sabot=0 kinds=0 pre={} fi={} e=", rng.below(16), load, pre, fi));
        }
    }
    for anc in 1..=2 {
        for &k in &[0u32, 4, 8] {
            for load in 0..2 {
                emit(out, &scratch, &format!("rich={} load={} stores=1 sabot=0 kinds={} pre=0 anc={} e=", rng.below(32), load, k, anc));
            }
        }
    }
    // round 4: dot-named files and directories at every depth of data/ and images/ (in place, elsewhere, after partial
    // loads, with edits); every refusal kind x every meta shape; store names that are not valid UTF-8
    for &pre in &[5u32, 5, 0, 2, 3] {
        for &rich in &[0u32, 31] {
            emit(out, &scratch, &format!("rich={} load=1 stores=3 sabot=0 kinds=0 pre={} e=", rich, pre));
        }
    }
    emit(out, &scratch, &format!("rich=7 load=1 stores=3 sabot=0 kinds=0 pre=5 e=di.{}.w1,dr.{}", hexs(".new/.x"), hexs(".gitkeep")));
    emit(out, &scratch, "rich=7 load=1 stores=3 sabot=0 kinds=0 pre=5 part=1 e=");
    emit(out, &scratch, "rich=7 load=1 stores=3 sabot=0 kinds=0 pre=5 legacy=2 e=");
    for meta in 1..=5 {
        for &k in &[1u32, 1 | 64, 2, 4, 8, 32] {
            for &(pre, load) in &[(2u32, 0u32), (5, 1), (0, 1), (1, 0)] {
                emit(out, &scratch, &format!("rich={} load={} stores=1 sabot=0 kinds={} pre={} meta={} e=", rng.below(16), load, k, pre, meta));
            }
        }
        emit(out, &scratch, &format!("rich=31 load=1 stores=1 sabot=1 kinds=0 pre=2 meta={} e=", meta));
        emit(out, &scratch, &format!("rich=31 load=1 stores=2 sabot=0 kinds=0 pre=5 meta={} e=", meta));
    }
    for craft in 14..=15 {
        for &pre in &[5u32, 0, 2] {
            emit(out, &scratch, &format!("rich=3 load=1 stores=1 sabot=0 kinds=0 pre={} craft={} e=", pre, craft));
        }
    }
    // round 6: (1) k store files vanish / turn into directories / are truncated on disk after the load and before any
    // access, saved elsewhere and in place (an error-state entry refuses the save before the wipe; a truncated data
    // file is a valid empty one); (2) the same save retried after a refusal, error already cached; (3) in-place saves
    // whose target is an ALIAS spelling of the load path; (4) size classes of lazily read files
    for stores in 1..=2u32 {
        let (d, i) = store_set(stores);
        let (nd, ni) = (d.len(), i.len());
        for op in ["x", "r", "t"] {
            let all_d: Vec<String> = (0..nd).map(|k| format!("d{}{}", k, op)).collect();
            let all_i: Vec<String> = (0..ni).map(|k| format!("i{}{}", k, op)).collect();
            let sets = [
                format!("d{}{}", nd - 1, op),
                format!("i{}{}", ni - 1, op),
                format!("d0{}.d{}{}", op, nd / 2, op),
                format!("d1{}.i0{}", op, op),
                all_d.join("."),
                all_i.join("."),
            ];
            for &pre in &[0u32, 2, 5] {
                for sab in &sets {
                    emit(out, &scratch, &format!("rich={} load=1 stores={} sabot=0 kinds=0 pre={} sab={} e=", rng.below(32), stores, pre, sab));
                }
            }
        }
    }
    for &pre in &[2u32, 5, 0] {
        for retry in 1..=2 {
            emit(out, &scratch, &format!("rich={} load=1 stores=1 sabot=0 kinds=0 pre={} sab=d0x retry={} e=", rng.below(32), pre, retry));
            emit(out, &scratch, &format!("rich={} load=1 stores=2 sabot=0 kinds=0 pre={} sab=i1t retry={} e=", rng.below(32), pre, retry));
            emit(out, &scratch, &format!("rich={} load=1 stores=1 sabot=1 kinds=0 pre={} retry={} e=", rng.below(32), pre, retry));
            emit(out, &scratch, &format!("rich={} load=1 stores=1 sabot=5 kinds=0 pre={} retry={} e=", rng.below(32), pre, retry));
            emit(out, &scratch, &format!("rich={} load=1 stores=2 sabot=0 kinds=0 pre={} retry={} e=", rng.below(32), pre, retry));
        }
    }
    for tsp in 1..=4 {
        for stores in 1..=3u32 {
            emit(out, &scratch, &format!("rich={} load=1 stores={} sabot=0 kinds=0 pre=5 tsp={} e=", rng.below(32), stores, tsp));
        }
        let (d, _) = store_set(1);
        emit(out, &scratch, &format!("rich={} load=1 stores=1 sabot=0 kinds=0 pre=5 tsp={} e=dg.{}", rng.below(32), tsp, hexs(d[0].0)));
        emit(out, &scratch, &format!("rich={} load=1 stores=2 sabot=0 kinds=0 pre=5 tsp={} sab=d1x e=", rng.below(32), tsp));
        emit(out, &scratch, &format!("rich={} load=1 stores=2 sabot=0 kinds=4 pre=5 tsp={} e=", rng.below(32), tsp));
        emit(out, &scratch, &format!("rich={} load=1 stores=1 sabot=0 kinds=0 pre=2 tsp={} e=", rng.below(32), tsp));
    }
    {
        let big = hexs("s1m1.bin");
        emit(out, &scratch, "rich=3 load=1 stores=5 sabot=0 kinds=0 pre=5 e=");
        emit(out, &scratch, &format!("rich=3 load=1 stores=5 sabot=0 kinds=0 pre=5 e=dg.{}", big));
        emit(out, &scratch, "rich=3 load=1 stores=5 sabot=0 kinds=0 pre=0 e=");
        emit(out, &scratch, "rich=3 load=1 stores=5 sabot=0 kinds=4 pre=5 e=");
        emit(out, &scratch, "rich=0 load=1 stores=4 sabot=0 kinds=0 pre=5 e=");
        if tier == "thorough" {
            emit(out, &scratch, "rich=31 load=1 stores=4 sabot=0 kinds=0 pre=2 e=");
            emit(out, &scratch, "rich=31 load=1 stores=4 sabot=0 kinds=0 pre=5 tsp=2 e=");
            emit(out, &scratch, "rich=31 load=1 stores=4 sabot=0 kinds=0 pre=5 sab=d2x e=");
            emit(out, &scratch, "rich=7 load=1 stores=5 sabot=0 kinds=0 pre=5 retry=1 e=");
            emit(out, &scratch, &format!("rich=7 load=1 stores=4 sabot=0 kinds=0 pre=5 e=dg.{},dr.{}", hexs("s3m.bin"), hexs("s0.bin")));
        }
    }
    // in-place histories: tree -> load -> edits -> save onto the source
    let n = if tier == "thorough" { 10_000 } else { 220 };
    for _ in 0..n {
        let rich = rng.below(32) as u32;
        let stores = 1 + rng.below(2) as u32;
        let edits = gen_edits(&mut rng, stores);
        let sabot = if rng.chance(1, 10) { 1 + rng.below(5) as u32 } else { 0 };
        emit(out, &scratch, &format!("rich={} load=1 stores={} sabot={} kinds=0 pre=5 e={}", rich, stores, sabot, edits));
    }
    rm_rf(&scratch);
}
