//! C07: `norad::user_name_to_file_name` (function level).
//!
//! line: `C07 <pre> <suf> <name> <upper> <lowmap> <mode> => ok <result> <n>:<call>,<call>.. | panic <n>:<calls> | panic-other <n>:<calls>`
//!   pre/suf/name/result/call  hex UTF-8 (`-` = empty)
//!   upper   hex of the distinct characters of the name with `char::is_uppercase` (`-` = none)
//!   lowmap  `-` or `c=l,c=l..`: every distinct character of the name whose `char::to_lowercase` differs
//!   mode    `k<n>`  stateful closure: rejects calls 0..n-1, accepts call n
//!           `s:<hex>,<hex>..`  closure `|p| !taken.contains(p)`, taken = the listed lower-cased strings
//!   calls   the strings `accept_path` was called with, in order (already lower-cased by norad)
use crate::common::*;
use crate::rng::Rng;
use std::collections::{BTreeSet, HashSet};
use std::io::Write;

pub const AFFIXES: [(&str, &str); 2] = [("", ".glif"), ("glyphs.", "")];

#[derive(Clone, Debug)]
pub enum Mode {
    Kth(usize),
    Taken(Vec<String>),
}

impl Mode {
    pub fn token(&self) -> String {
        match self {
            Mode::Kth(n) => format!("k{}", n),
            Mode::Taken(v) => {
                format!("s:{}", v.iter().map(|s| hexs(s)).collect::<Vec<_>>().join(","))
            }
        }
    }
    pub fn parse(tok: &str) -> Mode {
        if let Some(n) = tok.strip_prefix('k') {
            Mode::Kth(n.parse().unwrap())
        } else {
            let body = &tok[2..];
            if body.is_empty() {
                Mode::Taken(vec![])
            } else {
                Mode::Taken(
                    body.split(',').map(|h| String::from_utf8(unhex(h)).unwrap()).collect(),
                )
            }
        }
    }
}

/// per-character lowering, as sent on the line
fn lower_chars(s: &str) -> String {
    s.chars().flat_map(|c| c.to_lowercase()).collect()
}

/// Runs the real function.  Returns (outcome token, result, calls).
pub fn run(name: &str, pre: &str, suf: &str, mode: &Mode) -> (String, Option<String>, Vec<String>) {
    let mut calls: Vec<String> = Vec::new();
    let res = {
        let calls = &mut calls;
        guarded(move || match mode {
            Mode::Kth(n) => {
                let mut i = 0usize;
                norad::user_name_to_file_name(name, pre, suf, |p| {
                    calls.push(p.to_string());
                    let ok = i == *n;
                    i += 1;
                    ok
                })
            }
            Mode::Taken(v) => {
                let set: HashSet<&str> = v.iter().map(|s| s.as_str()).collect();
                norad::user_name_to_file_name(name, pre, suf, |p| {
                    calls.push(p.to_string());
                    !set.contains(p)
                })
            }
        })
    };
    match res {
        Ok(p) => {
            let s = p.to_str().expect("utf-8 path").to_string();
            ("ok".to_string(), Some(s), calls)
        }
        Err(msg) => {
            let cls = if msg.contains("Could not find a unique file name") {
                "panic"
            } else {
                "panic-other"
            };
            (cls.to_string(), None, calls)
        }
    }
}

fn calls_token(calls: &[String]) -> String {
    format!("{}:{}", calls.len(), calls.iter().map(|s| hexs(s)).collect::<Vec<_>>().join(","))
}

pub fn observe(name: &str, pre: &str, suf: &str, mode: &Mode) -> String {
    let (cls, res, calls) = run(name, pre, suf, mode);
    let mut s = match res {
        Some(r) => format!("{} {} {}", cls, hexs(&r), calls_token(&calls)),
        None => format!("{} {}", cls, calls_token(&calls)),
    };
    if name.contains('Σ') {
        // capital sigma: `str::to_lowercase` is context sensitive (final sigma), so the driver cannot lower-case
        // with a per-character table.  `T:` = the TRUE whole-string lower-casing of every candidate that was
        // offered, computed here and independently of what the function passed to the closure: candidate j is
        // what the function returns when exactly call j is accepted.
        let mut t = Vec::new();
        for j in 0..calls.len().min(100) {
            if let (_, Some(c), _) = run(name, pre, suf, &Mode::Kth(j)) {
                t.push(hexs(&c.to_lowercase()));
            }
        }
        s.push_str(&format!(" T:{}", t.join(",")));
    }
    s
}

fn input_tokens(name: &str, pre: &str, suf: &str, mode: &Mode) -> String {
    let distinct: BTreeSet<char> = name.chars().chain(pre.chars()).chain(suf.chars()).collect();
    let upper: String = distinct.iter().filter(|c| c.is_uppercase()).collect();
    let lowmap: Vec<String> = distinct
        .iter()
        .filter_map(|c| {
            let l: String = c.to_lowercase().collect();
            if l == c.to_string() {
                None
            } else {
                Some(format!("{}={}", hexs(&c.to_string()), hexs(&l)))
            }
        })
        .collect();
    let lowmap = if lowmap.is_empty() { "-".to_string() } else { lowmap.join(",") };
    format!("C07 {} {} {} {} {} {}", hexs(pre), hexs(suf), hexs(name), hexs(&upper), lowmap, mode.token())
}

/// str::to_lowercase is context sensitive only for capital sigma (handled through the echoed call list);
/// any other name on which the per-character table would not describe `to_lowercase` is skipped.
fn lowering_is_per_char(name: &str) -> bool {
    name.to_lowercase() == lower_chars(name)
}

fn emit(out: &mut dyn Write, name: &str, pre: &str, suf: &str, mode: &Mode) {
    // capital sigma is the one character on which str::to_lowercase is context sensitive; for such
    // names the driver takes `lower` from the whole-string lower-casings echoed in the call list
    if name.is_empty() || (!lowering_is_per_char(name) && !name.contains('Σ')) {
        return;
    }
    let obs = observe(name, pre, suf, mode);
    writeln!(out, "{} => {}", input_tokens(name, pre, suf, mode), obs).unwrap();
}

pub fn replay(toks: &[&str]) -> String {
    let s = |h: &str| String::from_utf8(unhex(h)).unwrap();
    let pre = s(toks[1]);
    let suf = s(toks[2]);
    let name = s(toks[3]);
    let mode = Mode::parse(toks[6]);
    observe(&name, &pre, &suf, &mode)
}

// ------------------------------------------------------------------ generators

const EXH: [char; 12] = ['c', 'o', 'n', 'm', '1', '.', ' ', 'N', '_', '/', 'É', '💖'];

const ILLEGAL: [char; 14] = [':', '?', '"', '(', ')', '[', ']', '*', '/', '\\', '+', '<', '>', '|'];
const RESERVED: [&str; 22] = [
    "con", "prn", "aux", "nul", "com1", "com2", "com3", "com4", "com5", "com6", "com7", "com8", "com9",
    "lpt1", "lpt2", "lpt3", "lpt4", "lpt5", "lpt6", "lpt7", "lpt8", "lpt9",
];
/// multi-byte material: 2/3/4-byte characters, non-ASCII upper case (incl. Other_Uppercase and
/// characters whose lower case has another byte length), title case, combining marks.  No capital sigma.
const WIDE: [char; 46] = [
    'é', 'É', 'Ω', 'ω', 'Ǆ', 'ǅ', 'ǆ', 'А', 'б', 'ß', 'ẞ', 'İ', 'ı', 'K', 'Å', 'Ⅷ', 'Ⓐ', '語', '한', '💖',
    '𝐀', '𐐀', '\u{0301}', '\u{0308}', '\u{200d}', '\u{fe0f}',
    // titlecase (Lt): not is_uppercase, yet to_lowercase folds them onto their partner; with the partners
    'ǈ', 'ǉ', 'Ǉ', 'ǋ', 'ǌ', 'ǲ', 'ǳ', 'ᾈ', 'ᾀ', 'ᾼ', 'ᾳ', 'ῼ',
    // long s (lower case, upper case S); lower case of another byte length: Ohm, theta symbol, Ⱥ (2→3), Ɫ (3→2), ɫ
    'ſ', 'Ω', 'ϴ', 'Ⱥ', 'ⱥ', 'Ɫ', 'ɫ', 'ℳ',
];

fn esc_len(c: char) -> usize {
    c.len_utf8() + if c.is_uppercase() { 1 } else { 0 }
}

fn pick_char(rng: &mut Rng, alpha: usize) -> char {
    match alpha {
        0 => char::from_u32(32 + rng.below(95) as u32).unwrap(), // printable ASCII, all 14 illegal included
        1 => *rng.pick(&['a', 'A', 'b', 'B', '_', '.', ' ', 'a', 'b']),
        2 => *rng.pick(&WIDE),
        3 => {
            if rng.chance(1, 2) {
                *rng.pick(&WIDE)
            } else {
                char::from_u32(32 + rng.below(95) as u32).unwrap()
            }
        }
        4 => *rng.pick(&ILLEGAL),
        5 => *rng.pick(&['.', ' ', '.', ' ', 'a', '_']),
        7 => *rng.pick(&['Σ', 'σ', 'ς', 'a', 'A', 'Σ', '.', ' ', '_', '\u{0301}', 'Ω', 'b']),
        _ => *rng.pick(&['a', 'b', 'c', 'x', 'y', 'z', '0', '1', '_', '.', 'é', '語']),
    }
}

fn reserved_variant(rng: &mut Rng) -> String {
    let w = *rng.pick(&RESERVED);
    let mut s = String::new();
    if rng.chance(1, 10) {
        s.push(*rng.pick(&['a', '_', '.', ' ', 'C']));
    }
    for ch in w.chars() {
        if rng.chance(1, 6) {
            s.push(ch.to_ascii_uppercase());
        } else {
            s.push(ch);
        }
    }
    match rng.below(10) {
        0 => s.push('.'),
        1 => s.push_str(".alt"),
        2 => s.push(' '),
        3 => s.push('0'),
        4 => s.push_str(".."),
        5 => s.push_str("._"),
        6 => s.push_str(". "),
        _ => {}
    }
    s
}

/// escaped-byte target: peak around the clipping points (250/255 with affixes, 253/248 for counters)
fn target_len(rng: &mut Rng) -> usize {
    match rng.below(20) {
        0..=7 => 238 + rng.below(24),   // 238..261: around every cut
        8..=12 => 1 + rng.below(12),
        13..=16 => 13 + rng.below(225),
        _ => 262 + rng.below(80),
    }
}

fn random_name(rng: &mut Rng) -> String {
    if rng.chance(1, 12) {
        return reserved_variant(rng);
    }
    let alpha = rng.below(9);
    let target = target_len(rng);
    let mut s = String::new();
    let mut bytes = 0usize;
    // optional reserved word or dots in front
    if rng.chance(1, 15) {
        let w = reserved_variant(rng);
        bytes += w.chars().map(esc_len).sum::<usize>();
        s.push_str(&w);
    }
    while bytes < target {
        // a second alphabet near the cut so that multi-byte characters and dots straddle it
        let near_cut = bytes + 8 >= target;
        let c = if near_cut && rng.chance(1, 2) {
            let a = *rng.pick(&[2usize, 5, 2, 1]);
            pick_char(rng, a)
        } else {
            pick_char(rng, alpha)
        };
        bytes += esc_len(c);
        s.push(c);
    }
    if rng.chance(1, 8) {
        for _ in 0..1 + rng.below(4) {
            s.push(*rng.pick(&['.', ' ']));
        }
    }
    s
}

/// a different user name whose file name collides with that of `name` when case is ignored
fn colliding_variant(rng: &mut Rng, name: &str) -> String {
    let mut s = String::new();
    for c in name.chars() {
        if c.is_ascii_uppercase() && rng.chance(1, 2) {
            s.push(c.to_ascii_lowercase());
            s.push('_');
        } else if ILLEGAL.contains(&c) && rng.chance(1, 2) {
            s.push('_');
        } else if c == '_' && rng.chance(1, 4) {
            s.push(*rng.pick(&ILLEGAL));
        } else if !c.is_ascii() && !c.is_uppercase() && rng.chance(1, 2) {
            // titlecase and other cased letters that are not `is_uppercase`: the lower-case partner gives a
            // different user name with the same lower-cased file name
            let l: Vec<char> = c.to_lowercase().collect();
            if l.len() == 1 {
                s.push(l[0]);
            } else {
                s.push(c);
            }
        } else if !c.is_ascii() && c.is_uppercase() && rng.chance(1, 2) {
            // non-ASCII capital: partner + the underscore marker
            s.extend(c.to_lowercase());
            s.push('_');
        } else {
            s.push(c);
        }
    }
    s
}

fn random_mode(rng: &mut Rng, long_name: bool) -> Mode {
    // many-clash cases echo ~100 candidates per line: rarer for long names (line size)
    let many = if long_name { 400 } else { 40 };
    if rng.chance(1, many) {
        return match rng.below(6) {
            0 => Mode::Kth(3 + rng.below(95)),
            1 => Mode::Kth(98),
            2 => Mode::Kth(99),
            3 => Mode::Kth(100),
            4 => Mode::Kth(101 + rng.below(3)),
            _ => Mode::Kth(97),
        };
    }
    match rng.below(20) {
        0..=9 => Mode::Kth(0),
        10..=13 => Mode::Kth(1),
        14..=15 => Mode::Kth(2),
        16 => Mode::Kth(3 + rng.below(4)),
        _ => Mode::Taken(vec![]),
    }
}

/// taken-sets built from earlier results: step i has exactly i clashes
fn history(out: &mut dyn Write, rng: &mut Rng, name: &str, pre: &str, suf: &str, steps: usize, emit_all: bool) {
    let mut taken: Vec<String> = Vec::new();
    // unrelated entries that must not matter
    if rng.chance(1, 2) {
        taken.push("zzz.glif".to_string());
        taken.push("glyphs.zzz".to_string());
    }
    for i in 0..=steps {
        let mode = Mode::Taken(taken.clone());
        let (_, res, _) = run(name, pre, suf, &mode);
        if emit_all || matches!(i, 0 | 1 | 2 | 9 | 10 | 98 | 99 | 100) || i == steps {
            emit(out, name, pre, suf, &mode);
        }
        match res {
            Some(r) => taken.push(r.to_lowercase()),
            None => break,
        }
    }
}

fn enumerate(len: usize, f: &mut dyn FnMut(&str)) {
    let mut idx = vec![0usize; len];
    loop {
        let s: String = idx.iter().map(|i| EXH[*i]).collect();
        f(&s);
        let mut k = len;
        loop {
            if k == 0 {
                return;
            }
            k -= 1;
            idx[k] += 1;
            if idx[k] < EXH.len() {
                break;
            }
            idx[k] = 0;
        }
    }
}

pub fn gen(tier: &str, seed: u64, out: &mut dyn Write) {
    let thorough = tier == "thorough";
    // 1. exhaustive: every name of length <= 4 over the 12-symbol alphabet, both affix pairs,
    //    accepted at once and after one clash
    for len in 1..=4 {
        enumerate(len, &mut |s| {
            for (pre, suf) in AFFIXES {
                emit(out, s, pre, suf, &Mode::Kth(0));
                emit(out, s, pre, suf, &Mode::Kth(1));
            }
        });
    }
    if thorough {
        // length 5 as well, glif pair, accepted at once (248 832 names)
        enumerate(5, &mut |s| emit(out, s, "", ".glif", &Mode::Kth(0)));
    }
    let mut rng = Rng::new(seed);
    // 2. random names, boundary-directed lengths, call-number closures and empty taken-sets
    let n = if thorough { 150_000 } else { 24_000 };
    for _ in 0..n {
        let name = random_name(&mut rng);
        let (pre, suf) = if rng.chance(1, 40) {
            // other affix pairs the public function admits (no illegal characters, suffix starts with '.')
            *rng.pick(&[("", ""), ("con.", ".con"), ("hello.", ".glif"), ("", ".plist"), ("x", "")])
        } else {
            AFFIXES[rng.below(2)]
        };
        let mode = random_mode(&mut rng, name.len() > 60);
        emit(out, &name, pre, suf, &mode);
    }
    // 3. case-insensitive collisions between two different user names
    let n = if thorough { 30_000 } else { 4_000 };
    for _ in 0..n {
        let name = random_name(&mut rng);
        let (pre, suf) = AFFIXES[rng.below(2)];
        let (_, res, _) = run(&name, pre, suf, &Mode::Kth(0));
        let other = colliding_variant(&mut rng, &name);
        if let Some(r) = res {
            let mut taken = vec![r.to_lowercase()];
            if rng.chance(1, 3) {
                // and the first counter as well
                let (_, r2, _) = run(&other, pre, suf, &Mode::Taken(taken.clone()));
                if let Some(r2) = r2 {
                    taken.push(r2.to_lowercase());
                }
            }
            emit(out, &other, pre, suf, &Mode::Taken(taken));
        }
    }
    // 3b. a run of periods/spaces up to the cut followed by one character of 1..4 bytes (the exact
    //     guard of the layer prefix is in bytes: `fileName_affixes_layer_iff`)
    for len in 236..=252usize {
        for ch in ['a', 'A', '/', 'é', '語', '💖', '.'] {
            for fill in ['.', ' '] {
                let mut name: String = std::iter::repeat(fill).take(len).collect();
                name.push(ch);
                for (pre, suf) in AFFIXES {
                    emit(out, &name, pre, suf, &Mode::Kth(0));
                    emit(out, &name, pre, suf, &Mode::Kth(1));
                }
            }
        }
    }
    // 3c. capital sigma: every name of length <= 4 over {a A S-igma s-igma .}, both pairs, accepted at once,
    //     after one clash, and with the taken-set {lower-cased first result} (so the clash is decided on the
    //     real whole-string lower-casing, final sigma included)
    const SIG: [char; 5] = ['a', 'A', 'Σ', 'σ', '.'];
    for len in 1..=4usize {
        let mut idx = vec![0usize; len];
        'outer: loop {
            let name: String = idx.iter().map(|i| SIG[*i]).collect();
            if name.contains('Σ') {
                for (pre, suf) in AFFIXES {
                    emit(out, &name, pre, suf, &Mode::Kth(0));
                    emit(out, &name, pre, suf, &Mode::Kth(1));
                    let (_, res, _) = run(&name, pre, suf, &Mode::Kth(0));
                    if let Some(r) = res {
                        emit(out, &name, pre, suf, &Mode::Taken(vec![r.to_lowercase()]));
                        // the other lower-case sigma in the taken-set must NOT clash
                        let other: String = r
                            .to_lowercase()
                            .chars()
                            .map(|c| if c == 'ς' { 'σ' } else if c == 'σ' { 'ς' } else { c })
                            .collect();
                        emit(out, &name, pre, suf, &Mode::Taken(vec![other]));
                    }
                }
            }
            let mut k = len;
            loop {
                if k == 0 {
                    break 'outer;
                }
                k -= 1;
                idx[k] += 1;
                if idx[k] < SIG.len() {
                    break;
                }
                idx[k] = 0;
            }
        }
    }
    // 4. histories: 0, 1, 2, .., 98, 99, 100 clashes from taken-sets built out of earlier results
    let n = if thorough { 120 } else { 24 };
    for i in 0..n {
        let name = random_name(&mut rng);
        let (pre, suf) = AFFIXES[i % 2];
        let steps = if i % 3 == 0 { 100 } else { 3 + rng.below(12) };
        // short names: every step is a case; long names: only the interesting steps (line size)
        let emit_all = name.len() < 40;
        history(out, &mut rng, &name, pre, suf, steps, emit_all);
    }
}
