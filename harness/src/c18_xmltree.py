# Independent minimal XML tree reader for the C18 correspondence (python3 stdlib only).
# stdin: one file path per line.  stdout: one line of canonical tree tokens per file, or `notxml`.
#
#   tree  := ( e <hex name> ( <hex attr name> <hex attr value> ... ) child* )  |  ( t <hex text> )
#
# attributes in document order; an element with child elements drops white-space-only text between
# them (indentation), any other text is kept as a `t` child at its position; a leaf element keeps its
# text exactly (no trimming).  xml.etree (expat) is a conforming XML 1.0 processor: it rejects
# characters that XML forbids, normalises tab / line break in attribute values to a blank and CR / CRLF
# in text to LF.  That is what "an independent reader" sees of the file.
import sys
import xml.etree.ElementTree as ET


def hx(s):
    return s.encode("utf-8").hex() if s else "-"


def blank(s):
    return s is None or s.strip(" \t\r\n") == ""


def dump(el, out):
    out.append("(")
    out.append("e")
    out.append(hx(el.tag))
    out.append("(")
    for k, v in el.attrib.items():
        out.append(hx(k))
        out.append(hx(v))
    out.append(")")
    kids = list(el)
    if not kids:
        if el.text:
            out += ["(", "t", hx(el.text), ")"]
    else:
        if not blank(el.text):
            out += ["(", "t", hx(el.text), ")"]
        for k in kids:
            dump(k, out)
            if not blank(k.tail):
                out += ["(", "t", hx(k.tail), ")"]
    out.append(")")


for line in sys.stdin:
    path = line.rstrip("\n")
    if not path:
        continue
    try:
        root = ET.parse(path).getroot()
        out = []
        dump(root, out)
        print(" ".join(out))
    except Exception:
        print("notxml")
    sys.stdout.flush()
