//! C16, second stream: what a store loaded through `Font::load_requested_data` contains, for request call
//! SEQUENCES in which the data and images switches differ and layer-selection calls come before/after.
//!
//! line: `C16req <g|b> <call>.<call>... => L<ok|err> D<len>:<key=o<bytes>|e,..> I<len>:<..> E<k|e|p>:<data files>:<images files> P<..>`
//!   source UFO: data/a, data/b/c, images/p.png, images/q.png (variant `b`: plus images/bad, not a PNG)
//!   calls as in harness/src/c17.rs: `A` all() `N` none() `Df` default(); `L1/L0` layers(b); `D1/D0` default_layer(b);
//!   `Ft/Ff/Fx` filter_layers; `l g k f a i` + `1/0` = lib groups kerning features data images
//!   `E` = save into an absent target, `P` = a fresh load of a second copy saved IN PLACE; files of data/ (recursive) and
//!   images/ afterwards as `name=hexbytes` joined by `+`, `~` when the directory does not exist.
use crate::common::*;
use crate::rng::Rng;
use norad::datastore::{DataType, Store};
use norad::{DataRequest, Font};
use std::io::Write;
use std::path::Path;

const PNG: [u8; 8] = [137u8, 80, 78, 71, 13, 10, 26, 10];

fn build(calls: &[&str]) -> DataRequest<'static> {
    let mut r = DataRequest::none();
    for c in calls {
        let b = c.ends_with('1');
        r = match *c {
            "A" => DataRequest::all(),
            "N" => DataRequest::none(),
            "Df" => DataRequest::default(),
            "L1" | "L0" => r.layers(b),
            "D1" | "D0" => r.default_layer(b),
            "Ft" => r.filter_layers(|_, _| true),
            "Ff" => r.filter_layers(|_, _| false),
            "Fx" => r.filter_layers(|_, p| p != Path::new("glyphs")),
            "l1" | "l0" => r.lib(b),
            "g1" | "g0" => r.groups(b),
            "k1" | "k0" => r.kerning(b),
            "f1" | "f0" => r.features(b),
            "a1" | "a0" => r.data(b),
            "i1" | "i0" => r.images(b),
            _ => r,
        };
    }
    r
}

fn make_src(dir: &Path, variant: &str) {
    Font::new().save(dir).unwrap();
    std::fs::create_dir_all(dir.join("data").join("b")).unwrap();
    std::fs::write(dir.join("data").join("a"), b"d1").unwrap();
    std::fs::write(dir.join("data").join("b").join("c"), b"d2").unwrap();
    std::fs::create_dir(dir.join("images")).unwrap();
    let mut p = PNG.to_vec();
    p.push(1);
    std::fs::write(dir.join("images").join("p.png"), &p).unwrap();
    p[8] = 2;
    std::fs::write(dir.join("images").join("q.png"), &p).unwrap();
    if variant == "b" {
        std::fs::write(dir.join("images").join("bad"), b"notpng").unwrap();
    }
}

fn store_dump<T: DataType>(st: &Store<T>) -> String {
    let mut v: Vec<(String, String)> = st
        .keys()
        .map(|k| {
            (k.to_string_lossy().to_string(), match st.get(k) {
                Some(Ok(b)) => format!("o{}", hex(&b)),
                Some(Err(_)) => "e".to_string(),
                None => "missing".to_string(),
            })
        })
        .collect();
    v.sort();
    format!("{}:{}", st.len(), v.iter().map(|(k, r)| format!("{}={}", hexs(k), r)).collect::<Vec<_>>().join(","))
}

fn files(dir: &Path) -> String {
    if !dir.is_dir() {
        return "~".to_string();
    }
    let v: Vec<String> = snapshot(dir)
        .into_iter()
        .filter(|(_, k, _)| *k != 'd')
        .map(|(rel, _, bytes)| format!("{}={}", hexs(&rel), hex(&bytes)))
        .collect();
    v.join("+")
}

fn save_obs(f: &Font, target: &Path) -> String {
    let r = match guarded(|| f.save(target)) {
        Ok(Ok(())) => "k",
        Ok(Err(_)) => "e",
        Err(_) => "p",
    };
    format!("{}:{}:{}", r, files(&target.join("data")), files(&target.join("images")))
}

pub fn observe(toks: &[&str]) -> String {
    let variant = toks[1];
    let calls: Vec<&str> = toks[2].split('.').filter(|s| !s.is_empty()).collect();
    let n = NEXT.fetch_add(1, std::sync::atomic::Ordering::SeqCst);
    let base = crate::c16::case_root();
    let dir = base.join(format!("c16req-{}", n));
    rm_rf(&dir);
    std::fs::create_dir_all(&dir).unwrap();
    let (src1, src2) = (dir.join("one.ufo"), dir.join("two.ufo"));
    make_src(&src1, variant);
    make_src(&src2, variant);
    let out = match guarded(|| Font::load_requested_data(&src1, build(&calls))) {
        Ok(Ok(f)) => {
            let d = store_dump(&f.data);
            let i = store_dump(&f.images);
            std::fs::create_dir_all(dir.join("fresh")).unwrap();
            let e = save_obs(&f, &dir.join("fresh").join("target.ufo"));
            let p = match guarded(|| Font::load_requested_data(&src2, build(&calls))) {
                Ok(Ok(g)) => save_obs(&g, &src2),
                _ => "x:~:~".to_string(),
            };
            format!("Lok D{} I{} E{} P{}", d, i, e, p)
        }
        Ok(Err(_)) => "Lerr".to_string(),
        Err(_) => "Lpanic".to_string(),
    };
    rm_rf(&dir);
    let _ = std::fs::remove_dir(&base);
    out
}

static NEXT: std::sync::atomic::AtomicUsize = std::sync::atomic::AtomicUsize::new(0);

const SHORT: [&str; 10] = ["A", "N", "a0", "a1", "i0", "i1", "D1", "D0", "Ft", "L1"];
const LONG: [&str; 20] =
    ["A", "N", "Df", "a0", "a1", "i0", "i1", "D1", "D0", "Ft", "Ff", "Fx", "L1", "L0", "l1", "l0", "g0", "k1", "f0", "a1"];

fn emit(out: &mut dyn Write, variant: &str, calls: &[&str]) {
    let seq = calls.join(".");
    let seq = if seq.is_empty() { ".".to_string() } else { seq };
    let toks = ["C16req", variant, seq.as_str()];
    writeln!(out, "C16req {} {} => {}", variant, seq, observe(&toks)).unwrap();
}

pub fn gen(tier: &str, seed: u64, out: &mut dyn Write) {
    // exhaustive: every call sequence of length <= 3 over the ten calls that matter for the stores
    for variant in ["g", "b"] {
        emit(out, variant, &[]);
        for a in SHORT {
            emit(out, variant, &[a]);
            for b in SHORT {
                emit(out, variant, &[a, b]);
                for c in SHORT {
                    emit(out, variant, &[a, b, c]);
                }
            }
        }
    }
    let mut rng = Rng::new(seed ^ 0xC16);
    let n = if tier == "thorough" { 20_000 } else { 1_500 };
    for _ in 0..n {
        let len = 4 + rng.below(5);
        let calls: Vec<&str> = (0..len).map(|_| LONG[rng.below(LONG.len())]).collect();
        emit(out, if rng.chance(1, 2) { "g" } else { "b" }, &calls);
    }
}
