//! C19 — parallel loading and saving give exactly the sequential results.
//!
//! This file is compiled twice: the main harness (no cargo feature: norad without `rayon`) and the
//! `par` configuration (`--features par` = `norad/rayon`), whose binary path `check` exports as
//! `$HARNESS_PAR`.  The main process generates UFO trees, loads / dumps / saves them itself (the
//! sequential result), then runs `$HARNESS_PAR c19w <tree> <out> <reps> ...` with
//! `RAYON_NUM_THREADS` in {1, 2, 4, 16}; the worker repeats load + dump + save and reports for every
//! repetition whether dump, saved-file listing and saved-tree hash equal the sequential ones, and the full
//! dump of the first repetition that differs.
//!
//! Line format (input fully determines the tree, so a line can be replayed):
//!
//! ```text
//! C19 s<schedule seed> r<reps> L:<name>:<dir>:<file>;<file>... (one token per layer, layercontents order)
//!      [V2]  the tree is a UFO 2 (one layer, no layercontents.plist)   [G:<group>=<member>+..;..]  groups.plist
//!      [K:<first>.<second>=<int>;..]  kerning.plist      [A:<name>:<dir>:<file>;..]  layers of ANOTHER font (UFO 3) that
//!      both builds load in the same process immediately before every load of the tree (process-wide state)
//!      [O:<op>;<op>...]   history applied to the loaded font through the public API before the save, in both builds
//!      file = <key>,<file name>,<name attribute>,<body seed>,<bad>,<base>+<base>...
//!      op   = ig.<layer>.<name>.<seed> (insert_glyph) | rg.<layer>.<name> (remove_glyph)
//!           | mg.<layer>.<old>.<new> (rename_glyph, no overwrite) | eo.<layer>.<name>.<seed> (entry(..).or_insert)
//!           | sw.<layer>.<a>.<b> (exchange the glyphs stored under a and b through get_glyph_mut) | cp.<layer>.<a>.<b> (b's slot = a's glyph)
//!  => Qok|Qerr  D:<name>:<dir>:<len>:<glyph>;... [DG:<group>=<members>;..] [DK:<first>.<second>=<value bits>;..]
//!     [E:... the layers after the history]
//!     S:<dir>:<file name>=<name in file>;...  H<tree hash>
//!     P<threads>:<reps>:<dumps equal>:<saves>:<listings equal>:<hashes equal> (x4)
//!     [ X<threads> Xok|Xerr XD:... XS:... XH<hash> ]      first repetition that differs, if any
//!      glyph = <name>,<body>,<key finds it>,<base>+<base>...
//! ```
//! every name hex-encoded.  `body` is the body seed when everything in the glyph other than names is what
//! the seed generates (recovered from the advance width), otherwise `x<hash>`.
use crate::common::*;
use crate::rng::Rng;
use norad::{Font, Glyph};
use std::io::Write;
use std::path::{Path, PathBuf};
use std::process::Command;

pub const POOLS: [usize; 4] = [1, 2, 4, 16];

#[derive(Clone, Debug)]
pub struct FileSpec {
    pub key: String,
    pub fname: String,
    pub attr: String,
    pub seed: u64,
    pub bad: u8,
    pub comps: Vec<String>,
}

#[derive(Clone, Debug)]
pub struct LayerSpec {
    pub name: String,
    pub dir: String,
    pub files: Vec<FileSpec>,
}

// ------------------------------------------------------------------ glyph bodies from a seed

#[derive(PartialEq, Debug)]
struct Body {
    code: Option<u32>,
    contours: Vec<Vec<(i64, i64)>>,
    offsets: Vec<(i64, i64)>,
}

fn body_of(seed: u64, ncomps: usize) -> Body {
    let mut r = Rng::new(seed.wrapping_mul(0x9E37_79B9) ^ 0xC19);
    let code = if r.chance(1, 2) { Some(0x41 + (r.below(0x500) as u32)) } else { None };
    // seeds from 999_000 on make a BIG glyph (about 300 kB of glif): a size skew between two glyphs lets a race on one file show
    let nc = if seed >= 999_000 { 1500 } else { r.below(3) };
    let mut contours = Vec::new();
    for _ in 0..nc {
        let np = 2 + r.below(4);
        contours.push((0..np).map(|_| (r.range(-500, 1500), r.range(-500, 1500))).collect());
    }
    let offsets = (0..ncomps).map(|_| (r.range(-300, 300), r.range(-300, 300))).collect();
    Body { code, contours, offsets }
}

fn glif_text(f: &FileSpec) -> String {
    if f.bad == 2 {
        return "this is not a glif\n".to_string();
    }
    let b = body_of(f.seed, f.comps.len());
    let mut s = String::from("<?xml version=\"1.0\" encoding=\"UTF-8\"?>\n");
    s.push_str(&format!("<glyph name=\"{}\" format=\"2\">\n  <advance width=\"{}\"/>\n", f.attr, f.seed));
    if let Some(c) = b.code {
        s.push_str(&format!("  <unicode hex=\"{:04X}\"/>\n", c));
    }
    s.push_str("  <outline>\n");
    for c in &b.contours {
        s.push_str("    <contour>\n");
        for (x, y) in c {
            s.push_str(&format!("      <point x=\"{}\" y=\"{}\" type=\"line\"/>\n", x, y));
        }
        s.push_str("    </contour>\n");
    }
    for (base, (x, y)) in f.comps.iter().zip(b.offsets.iter()) {
        s.push_str(&format!("    <component base=\"{}\" xOffset=\"{}\" yOffset=\"{}\"/>\n", base, x, y));
    }
    if f.bad == 1 {
        s.push_str("    <component base=\"\"/>\n");
    }
    s.push_str("  </outline>\n</glyph>\n");
    s
}

/// body token of a loaded glyph: the seed if everything besides names is what the seed generates
fn body_token(g: &Glyph) -> String {
    let seed = g.width as u64;
    let want = body_of(seed, g.components.len());
    let got = Body {
        code: g.codepoints.iter().next().map(|c| c as u32),
        contours: g
            .contours
            .iter()
            .map(|c| c.points.iter().map(|p| (p.x as i64, p.y as i64)).collect())
            .collect(),
        offsets: g.components.iter().map(|c| (c.transform.x_offset as i64, c.transform.y_offset as i64)).collect(),
    };
    let plain = g.width == seed as f64
        && g.height == 0.0
        && g.codepoints.len() <= 1
        && g.anchors.is_empty()
        && g.guidelines.is_empty()
        && g.note.is_none()
        && g.image.is_none()
        && g.lib.is_empty()
        && g.contours.iter().all(|c| {
            c.points.iter().all(|p| {
                p.typ == norad::PointType::Line && !p.smooth && p.x.fract() == 0.0 && p.y.fract() == 0.0
            })
        })
        && g.components.iter().all(|c| {
            let t = &c.transform;
            t.x_scale == 1.0 && t.y_scale == 1.0 && t.xy_scale == 0.0 && t.yx_scale == 0.0
        });
    if plain && got == want {
        format!("{}", seed)
    } else {
        format!("x{:x}", fnv(format!("{:?}{:?}", got, g.width).as_bytes()))
    }
}

// ------------------------------------------------------------------ trees

const PLIST_HEAD: &str = "<?xml version=\"1.0\" encoding=\"UTF-8\"?>\n<!DOCTYPE plist PUBLIC \"-//Apple//DTD PLIST 1.0//EN\" \"http://www.apple.com/DTDs/PropertyList-1.0.dtd\">\n<plist version=\"1.0\">\n";

pub fn write_tree(dir: &Path, layers: &[LayerSpec]) {
    write_tree_v(dir, layers, 3, "", "")
}

/// `groups` / `kerning`: the `G:` / `K:` tokens (empty = no file)
pub fn write_tree_v(dir: &Path, layers: &[LayerSpec], version: u32, groups: &str, kerning: &str) {
    rm_rf(dir);
    std::fs::create_dir_all(dir).unwrap();
    std::fs::write(
        dir.join("metainfo.plist"),
        format!("{}<dict><key>creator</key><string>verif</string><key>formatVersion</key><integer>{}</integer></dict></plist>\n", PLIST_HEAD, version),
    )
    .unwrap();
    if let Some(g) = groups.strip_prefix("G:") {
        let mut t = format!("{}<dict>\n", PLIST_HEAD);
        for e in g.split(';').filter(|e| !e.is_empty()) {
            let (k, ms) = e.split_once('=').unwrap();
            t.push_str(&format!("<key>{}</key><array>", unhexs(k)));
            for m in ms.split('+').filter(|m| !m.is_empty()) {
                t.push_str(&format!("<string>{}</string>", unhexs(m)));
            }
            t.push_str("</array>\n");
        }
        t.push_str("</dict></plist>\n");
        std::fs::write(dir.join("groups.plist"), t).unwrap();
    }
    if let Some(k) = kerning.strip_prefix("K:") {
        // first -> [(second, value)]
        let mut firsts: Vec<(String, Vec<(String, String)>)> = Vec::new();
        for e in k.split(';').filter(|e| !e.is_empty()) {
            let (pair, v) = e.split_once('=').unwrap();
            let (a, b) = pair.split_once('.').unwrap();
            let (a, b) = (unhexs(a), unhexs(b));
            match firsts.iter_mut().find(|f| f.0 == a) {
                Some(f) => f.1.push((b, v.to_string())),
                None => firsts.push((a, vec![(b, v.to_string())])),
            }
        }
        let mut t = format!("{}<dict>\n", PLIST_HEAD);
        for (a, bs) in firsts {
            t.push_str(&format!("<key>{}</key><dict>", a));
            for (b, v) in bs {
                t.push_str(&format!("<key>{}</key><integer>{}</integer>", b, v));
            }
            t.push_str("</dict>\n");
        }
        t.push_str("</dict></plist>\n");
        std::fs::write(dir.join("kerning.plist"), t).unwrap();
    }
    if version < 3 {
        // UFO 1/2: one layer in `glyphs`, no layercontents.plist
        if let Some(l) = layers.first() {
            write_layer(dir, l);
        }
        return;
    }
    let mut lc = format!("{}<array>\n", PLIST_HEAD);
    for l in layers {
        lc.push_str(&format!("<array><string>{}</string><string>{}</string></array>\n", l.name, l.dir));
        write_layer(dir, l);
    }
    lc.push_str("</array></plist>\n");
    std::fs::write(dir.join("layercontents.plist"), lc).unwrap();
}

fn write_layer(dir: &Path, l: &LayerSpec) {
    let ldir = dir.join(&l.dir);
    std::fs::create_dir_all(&ldir).unwrap();
    let mut contents = format!("{}<dict>\n", PLIST_HEAD);
    for f in &l.files {
        contents.push_str(&format!("<key>{}</key><string>{}</string>\n", f.key, f.fname));
        if f.bad != 3 {
            let target = ldir.join(&f.fname);
            if f.fname.contains('/') {
                // `../<layer>/f` names the other layer's file (same content by construction), `sub/f` needs its directory
                if let Some(parent) = target.parent() {
                    let _ = std::fs::create_dir_all(parent);
                }
            }
            std::fs::write(target, glif_text(f)).unwrap();
        }
    }
    contents.push_str("</dict></plist>\n");
    std::fs::write(ldir.join("contents.plist"), contents).unwrap();
}

/// groups and kerning of a loaded font (after the upconversion of UFO 1/2 kerning, which asks the name table
/// whether a kerning key is a glyph name)
pub fn dump_gk(font: &Font) -> String {
    let mut toks = Vec::new();
    if !font.groups.is_empty() {
        let gs: Vec<String> = font
            .groups
            .iter()
            .map(|(k, ms)| format!("{}={}", hexs(k.as_str()), ms.iter().map(|m| hexs(m.as_str())).collect::<Vec<_>>().join("+")))
            .collect();
        toks.push(format!("DG:{}", gs.join(";")));
    }
    if !font.kerning.is_empty() {
        let mut ks = Vec::new();
        for (a, bs) in font.kerning.iter() {
            for (b, v) in bs.iter() {
                ks.push(format!("{}.{}={}", hexs(a.as_str()), hexs(b.as_str()), f64bits(*v)));
            }
        }
        toks.push(format!("DK:{}", ks.join(";")));
    }
    toks.join(" ")
}

// ------------------------------------------------------------------ observation (both builds)

/// canonical dump of a loaded font: every layer name and directory, every glyph name, every component
/// base, the body token; `k` = looking the glyph's own name up in the layer finds this very glyph
pub fn dump_font(font: &Font) -> String {
    let mut toks = Vec::new();
    for layer in font.layers.iter() {
        let mut gs = Vec::new();
        for g in layer.iter() {
            let found = layer.get_glyph(g.name().as_str()).map(|h| std::ptr::eq(h, g)).unwrap_or(false);
            let comps: Vec<String> = g.components.iter().map(|c| hexs(c.base.as_str())).collect();
            gs.push(format!(
                "{},{},{},{}",
                hexs(g.name().as_str()),
                body_token(g),
                if found { 1 } else { 0 },
                comps.join("+")
            ));
        }
        toks.push(format!(
            "D:{}:{}:{}:{}",
            hexs(layer.name().as_str()),
            hexs(&layer.path().to_string_lossy()),
            layer.len(),
            gs.join(";")
        ));
    }
    toks.join(" ")
}

/// which glyph every `.glif` of the saved tree holds
pub fn listing(font: &Font, out: &Path) -> String {
    let mut toks = Vec::new();
    for layer in font.layers.iter() {
        let ldir = out.join(layer.path());
        let mut names: Vec<PathBuf> = match std::fs::read_dir(&ldir) {
            Ok(rd) => rd.map(|e| e.unwrap().path()).filter(|p| p.extension().map(|e| e == "glif").unwrap_or(false)).collect(),
            Err(_) => Vec::new(),
        };
        names.sort();
        let fs: Vec<String> = names
            .iter()
            .map(|p| {
                let inside = match guarded(|| Glyph::load(p)) {
                    Ok(Ok(g)) => hexs(g.name().as_str()),
                    _ => "?".to_string(),
                };
                format!("{}={}", hexs(&p.file_name().unwrap().to_string_lossy()), inside)
            })
            .collect();
        toks.push(format!("S:{}:{}", hexs(&layer.path().to_string_lossy()), fs.join(";")));
    }
    toks.join(" ")
}

pub fn tree_hash(out: &Path) -> u64 {
    let mut h: u64 = 0xcbf29ce484222325;
    for (rel, kind, bytes) in snapshot(out) {
        h = h.wrapping_mul(31).wrapping_add(fnv(rel.as_bytes()));
        h = h.wrapping_mul(31).wrapping_add(kind as u64);
        h = h.wrapping_mul(31).wrapping_add(fnv(&bytes));
    }
    h
}

/// a glyph built through the API whose body is what `seed` generates (no components)
fn api_glyph(name: &str, seed: u64) -> Glyph {
    let mut g = Glyph::new(name);
    let b = body_of(seed, 0);
    g.width = seed as f64;
    if let Some(c) = b.code.and_then(char::from_u32) {
        g.codepoints = norad::Codepoints::new([c]);
    }
    for c in &b.contours {
        let pts = c
            .iter()
            .map(|(x, y)| norad::ContourPoint::new(*x as f64, *y as f64, norad::PointType::Line, false, None, None))
            .collect();
        g.contours.push(norad::Contour::new(pts, None));
    }
    g
}

/// the history of a line, applied through the public API; `layers` = layer names in input order
pub fn apply_ops(font: &mut Font, ops: &str, layers: &[String]) {
    let body = ops.strip_prefix("O:").unwrap_or(ops);
    for op in body.split(';').filter(|o| !o.is_empty()) {
        let f: Vec<&str> = op.split('.').collect();
        let li: usize = f[1].parse().unwrap();
        let layer = match layers.get(li).and_then(|n| font.layers.get_mut(n)) {
            Some(l) => l,
            None => continue,
        };
        let name = unhexs(f[2]);
        match f[0] {
            "ig" => layer.insert_glyph(api_glyph(&name, f[3].parse().unwrap())),
            "rg" => {
                layer.remove_glyph(&name);
            }
            "mg" => {
                let _ = layer.rename_glyph(&name, &unhexs(f[3]), false);
            }
            "eo" => {
                let g = api_glyph(&name, f[3].parse().unwrap());
                layer.entry(g.name().clone()).or_insert(g);
            }
            // whole glyphs exchanged / copied through `get_glyph_mut`: the slot's key and the glyph's own name now differ
            "sw" => {
                let other = unhexs(f[3]);
                if let (Some(x), Some(y)) = (layer.get_glyph(&name).cloned(), layer.get_glyph(&other).cloned()) {
                    *layer.get_glyph_mut(&name).unwrap() = y;
                    *layer.get_glyph_mut(&other).unwrap() = x;
                }
            }
            "cp" => {
                let other = unhexs(f[3]);
                if let Some(x) = layer.get_glyph(&name).cloned() {
                    if let Some(slot) = layer.get_glyph_mut(&other) {
                        *slot = x;
                    }
                }
            }
            _ => {}
        }
    }
}

/// one load (+ history) (+ save): (status+dumps, listing, hash).  Save is skipped when `save` is false.
pub fn load_dump_save(
    tree: &Path,
    out: &Path,
    save: bool,
    ops: &str,
    layers: &[String],
    pre: Option<&Path>,
) -> (String, String, String) {
    if let Some(p) = pre {
        // another font, loaded (and dropped) in the same process first
        let _ = guarded(|| Font::load(p).map(|f| f.layers.len()));
    }
    let loaded = guarded(|| Font::load(tree));
    match loaded {
        Ok(Ok(mut font)) => {
            let mut d = format!("Qok {}", dump_font(&font));
            let gk = dump_gk(&font);
            if !gk.is_empty() {
                d.push(' ');
                d.push_str(&gk);
            }
            if !ops.is_empty() {
                if guarded(|| apply_ops(&mut font, ops, layers)).is_err() {
                    d.push_str(" E-panic");
                }
                d.push(' ');
                d.push_str(&dump_font(&font).replace("D:", "E:"));
            }
            if !save {
                return (d, String::new(), String::new());
            }
            rm_rf(out);
            match guarded(|| font.save(out)) {
                Ok(Ok(())) => {
                    let s = listing(&font, out);
                    let h = format!("H{:016x}", tree_hash(out));
                    (d, s, h)
                }
                Ok(Err(e)) => {
                    // outcome class of a refused save: the io error kind, if any (must be the same for 1 and N threads)
                    let t = format!("{:?}", e);
                    let kind = ["NotFound", "AlreadyExists", "PermissionDenied", "IsADirectory", "NotADirectory"]
                        .iter()
                        .find(|k| t.contains(*k))
                        .copied()
                        .unwrap_or("other");
                    (d, format!("S-save-err:{}", kind), "H-".to_string())
                }
                Err(_) => (d, "S-save-panic".to_string(), "H-".to_string()),
            }
        }
        Ok(Err(_)) => ("Qerr".to_string(), "S-".to_string(), "H-".to_string()),
        Err(_) => ("Qpanic".to_string(), "S-".to_string(), "H-".to_string()),
    }
}

/// `harness c19w <tree> <out> <reps> <save_every> <hash of expected dump> <of listing> <tree hash token> [<O:ops> <layer names>]`
/// one line per repetition: three flags (dump, listing, hash equal; `-` = no save in this repetition), and the
/// full result after ` | ` for the first repetition that differs.
pub fn worker(args: &[String], out: &mut dyn Write) {
    let tree = PathBuf::from(&args[0]);
    let outdir = PathBuf::from(&args[1]);
    let reps: usize = args[2].parse().unwrap();
    let save_every: usize = args[3].parse().unwrap();
    let (ed, es, eh) = (&args[4], &args[5], &args[6]);
    let ops = args.get(7).cloned().unwrap_or_default();
    let layers: Vec<String> = args.get(8).map(|a| a.split(',').filter(|t| !t.is_empty()).map(unhexs).collect()).unwrap_or_default();
    let pre: Option<PathBuf> = args.get(9).filter(|a| a.as_str() != "-").map(PathBuf::from);
    let mut reported = false;
    for rep in 0..reps {
        let save = save_every > 0 && rep % save_every == 0;
        let (d, s, h) = load_dump_save(&tree, &outdir, save, &ops, &layers, pre.as_deref());
        let fd = format!("{:016x}", fnv(d.as_bytes())) == *ed;
        let fs_ = !save || format!("{:016x}", fnv(s.as_bytes())) == *es;
        let fh = !save || h == *eh;
        let flag = |b: bool| if b { '1' } else { '0' };
        let line = if save {
            format!("{}{}{}", flag(fd), flag(fs_), flag(fh))
        } else {
            format!("{}--", flag(fd))
        };
        if !(fd && fs_ && fh) && !reported {
            reported = true;
            writeln!(out, "{} | {} | {} | {}", line, d, s, h).unwrap();
        } else {
            writeln!(out, "{}", line).unwrap();
        }
    }
    rm_rf(&outdir);
}

/// scratch directory for the trees: tmpfs when there is one (file creation on the build disk dominates the
/// run time otherwise and says nothing about interning), else the scratch root of the check
pub fn scratch() -> PathBuf {
    let shm = Path::new("/dev/shm");
    if shm.is_dir() {
        let p = shm.join(format!("verif-c19-{}", std::process::id()));
        if std::fs::create_dir_all(&p).is_ok() {
            return p;
        }
    }
    let p = scratch_root().join("c19");
    std::fs::create_dir_all(&p).unwrap();
    p
}

fn par_binary() -> Option<PathBuf> {
    if let Ok(p) = std::env::var("HARNESS_PAR") {
        return Some(PathBuf::from(p));
    }
    // fallback for manual runs: the target directory `check` uses for the `par` configuration
    let exe = std::env::current_exe().ok()?;
    let tdir = exe.parent()?.parent()?;
    let p = PathBuf::from(format!("{}-par/release/harness", tdir.to_string_lossy()));
    if p.exists() {
        Some(p)
    } else {
        None
    }
}

// ------------------------------------------------------------------ protocol

fn file_tok(f: &FileSpec) -> String {
    let comps: Vec<String> = f.comps.iter().map(|c| hexs(c)).collect();
    format!("{},{},{},{},{},{}", hexs(&f.key), hexs(&f.fname), hexs(&f.attr), f.seed, f.bad, comps.join("+"))
}

fn layer_tok(l: &LayerSpec) -> String {
    let fs: Vec<String> = l.files.iter().map(file_tok).collect();
    format!("L:{}:{}:{}", hexs(&l.name), hexs(&l.dir), fs.join(";"))
}

fn unhexs(s: &str) -> String {
    String::from_utf8_lossy(&unhex(s)).to_string()
}

fn parse_layer(tok: &str) -> LayerSpec {
    let parts: Vec<&str> = tok.splitn(4, ':').collect();
    let files = if parts[3].is_empty() {
        Vec::new()
    } else {
        parts[3]
            .split(';')
            .map(|ft| {
                let p: Vec<&str> = ft.split(',').collect();
                FileSpec {
                    key: unhexs(p[0]),
                    fname: unhexs(p[1]),
                    attr: unhexs(p[2]),
                    seed: p[3].parse().unwrap(),
                    bad: p[4].parse().unwrap(),
                    comps: if p[5].is_empty() { Vec::new() } else { p[5].split('+').map(unhexs).collect() },
                }
            })
            .collect()
    };
    LayerSpec { name: unhexs(parts[1]), dir: unhexs(parts[2]), files }
}

/// run one case: input tokens after `C19` -> observation
/// `min_reps`: a replay repeats at least that often (what a failing line shows depends on the schedule)
pub fn observe(toks: &[&str], scratch: &Path, min_reps: usize) -> String {
    let reps: usize = toks.iter().find(|t| t.starts_with('r')).map(|t| t[1..].parse().unwrap()).unwrap_or(4);
    let reps = reps.max(min_reps);
    let layers: Vec<LayerSpec> = toks.iter().filter(|t| t.starts_with("L:")).map(|t| parse_layer(t)).collect();
    let tree = scratch.join("tree.ufo");
    let out = scratch.join("out.ufo");
    let version = if toks.contains(&"V2") { 2 } else { 3 };
    let groups = toks.iter().find(|t| t.starts_with("G:")).copied().unwrap_or("");
    let kerning = toks.iter().find(|t| t.starts_with("K:")).copied().unwrap_or("");
    write_tree_v(&tree, &layers, version, groups, kerning);
    let pre_layers: Vec<LayerSpec> =
        toks.iter().filter(|t| t.starts_with("A:")).map(|t| parse_layer(t)).collect();
    let pre: Option<PathBuf> = if pre_layers.is_empty() {
        None
    } else {
        let p = scratch.join("pre.ufo");
        write_tree(&p, &pre_layers);
        Some(p)
    };
    let nfiles: usize = layers.iter().map(|l| l.files.len()).sum();
    let ops: String = toks.iter().find(|t| t.starts_with("O:")).map(|t| t.to_string()).unwrap_or_default();
    let lnames: Vec<String> = layers.iter().map(|l| l.name.clone()).collect();
    let lnames_arg: String = lnames.iter().map(|n| hexs(n)).collect::<Vec<_>>().join(",");
    let (d, s, h) = load_dump_save(&tree, &out, true, &ops, &lnames, pre.as_deref());
    rm_rf(&out);
    let mut obs = vec![d.clone(), s.clone(), h.clone()];
    let (ed, es) = (format!("{:016x}", fnv(d.as_bytes())), format!("{:016x}", fnv(s.as_bytes())));
    // larger trees: save in every 4th repetition only (the load is where the interleavings are)
    let save_every = if nfiles <= 150 { 1 } else { 4 };
    let mut first_diff: Option<String> = None;
    match par_binary() {
        None => obs.push("P-missing".to_string()),
        Some(bin) => {
            for k in POOLS {
                let pout = scratch.join(format!("pout{}.ufo", k));
                let r = Command::new(&bin)
                    .arg("c19w")
                    .arg(&tree)
                    .arg(&pout)
                    .arg(reps.to_string())
                    .arg(save_every.to_string())
                    .arg(&ed)
                    .arg(&es)
                    .arg(&h)
                    .arg(&ops)
                    .arg(&lnames_arg)
                    .arg(pre.as_ref().map(|p| p.to_string_lossy().to_string()).unwrap_or_else(|| "-".to_string()))
                    .env("RAYON_NUM_THREADS", k.to_string())
                    .output();
                let text = match r {
                    Ok(o) => String::from_utf8_lossy(&o.stdout).to_string(),
                    Err(_) => String::new(),
                };
                let (mut n, mut nd, mut nsv, mut ns, mut nh) = (0, 0, 0, 0, 0);
                for line in text.lines() {
                    let (flags, rest) = match line.split_once(" | ") {
                        Some((a, b)) => (a, Some(b)),
                        None => (line, None),
                    };
                    let fl: Vec<char> = flags.chars().collect();
                    if fl.len() != 3 {
                        continue;
                    }
                    n += 1;
                    if fl[0] == '1' {
                        nd += 1;
                    }
                    if fl[1] != '-' {
                        nsv += 1;
                        if fl[1] == '1' {
                            ns += 1;
                        }
                        if fl[2] == '1' {
                            nh += 1;
                        }
                    }
                    if let (Some(rest), None) = (rest, &first_diff) {
                        let parts: Vec<&str> = rest.split(" | ").collect();
                        let xd = parts.first().copied().unwrap_or("");
                        let xs = parts.get(1).copied().unwrap_or("");
                        let xh = parts.get(2).copied().unwrap_or("");
                        // prefix every token with X
                        let pre = |s: &str| -> String {
                            s.split(' ').filter(|t| !t.is_empty()).map(|t| format!("X{}", t)).collect::<Vec<_>>().join(" ")
                        };
                        first_diff = Some(format!("X{} {} {} {}", k, pre(xd), pre(xs), pre(xh)));
                    }
                }
                // a worker that died or printed too little counts as differing
                obs.push(format!("P{}:{}:{}:{}:{}:{}", k, n, nd, nsv, ns, nh));
                rm_rf(&pout);
            }
        }
    }
    if let Some(x) = first_diff {
        obs.push(x);
    }
    rm_rf(&tree);
    if let Some(p) = &pre {
        rm_rf(p);
    }
    obs.iter().filter(|t| !t.is_empty()).cloned().collect::<Vec<_>>().join(" ")
}

// ------------------------------------------------------------------ generator

/// names built to collide: case variants, one trailing character more or less
fn name_pool(rng: &mut Rng, n: usize) -> Vec<String> {
    let hand = [
        "a", "A", "aa", "aA", "Aa", "AA", "a_", "A_", "a.", "a.alt", "A.alt", "a.Alt", "a.alt1", "b", "B", "ab", "aB",
        "acute", "Acute", "acutE", "acute.", "e", "é", "É", "éa", "ä", "Ä", "space", "Space", "space.", ".notdef",
        "a b", "a  b", "con", "CON", "f_f_i", "F_F_I", "f_f_i.", "zero", "zero.", "Zero", "x1", "x10", "x100",
    ];
    let mut v: Vec<String> = Vec::new();
    // small pools: a random selection of the hand-made clashing names; larger ones: all of them plus families
    let mut order: Vec<usize> = (0..hand.len()).collect();
    for k in (1..order.len()).rev() {
        order.swap(k, rng.below(k + 1));
    }
    for k in order {
        if v.len() < n {
            v.push(hand[k].to_string());
        }
    }
    let mut i = 0usize;
    while v.len() < n {
        let stem = format!("n{}", i);
        i += 1;
        for var in [stem.clone(), stem.to_uppercase(), format!("{}a", stem), format!("{}A", stem), format!("{}.", stem)] {
            if v.len() < n && rng.chance(3, 4) {
                v.push(var);
            }
        }
    }
    v
}

fn variant(rng: &mut Rng, s: &str) -> String {
    match rng.below(4) {
        0 => s.to_uppercase(),
        1 => s.to_lowercase(),
        2 => format!("{}x", s),
        _ => {
            let mut t: Vec<char> = s.chars().collect();
            if t.len() > 1 {
                t.pop();
            }
            t.into_iter().collect()
        }
    }
}

pub struct Shape {
    pub glyphs: usize,
    pub layers: usize,
    pub bad: bool,
    pub dup: bool,
    /// 0 = no; 1 = the colliding pair as glyph names and hot component bases in the default layer, one of the two /
    /// the other / both in the following layers; 2 = the default layer has only the first as a glyph and the second
    /// as a component base, the next layer has the second as a glyph
    pub coll: u8,
    /// very different glyph counts in the non-default layers (1 % .. 100 % of the names)
    pub uneven: bool,
    /// position of the default layer in layercontents.plist
    pub default_pos: usize,
    /// number of API operations between load and save
    pub ops: usize,
    /// 0 = plain file names; otherwise: all layers hold all names, a glyph has the SAME file name in every layer, and some
    /// `contents.plist` values carry a directory component (`../<other layer>/f`, `./f`, `sub/f`) at the first / middle /
    /// last position of a layer (which one: `dirs % 3`); most of them also put the last layer's files into `sub/` (then the save is refused, in both builds)
    pub dirs: u8,
}

/// two legal glyph names with the same `DefaultHasher::new()` (SipHash-1-3, zero key) value 5587adf19e07eef0:
/// boundary case for a name table that compares hashes instead of names.  It covers this one hash function only.
pub const COLL: [&str; 2] = ["g711c6db79da05b78", "gdde3a1201b0b8338"];

pub fn gen_tree(rng: &mut Rng, sh: &Shape) -> Vec<LayerSpec> {
    let mut names = name_pool(rng, sh.glyphs);
    let mut hot: Vec<String> = (0..(2 + rng.below(5))).map(|_| rng.pick(&names).clone()).collect();
    if sh.coll > 0 {
        names.push(COLL[0].to_string());
        names.push(COLL[1].to_string());
        hot.push(COLL[0].to_string());
        hot.push(COLL[1].to_string());
    }
    let lnames = [
        "public.default", "background", "Background", "bg", "layer 1", "Ä", "sketches", "hints", "old", "scratch",
        "review",
    ];
    let mut layers = Vec::new();
    let mut fileno = 0usize;
    for li in 0..sh.layers {
        let (lname, dir) = if li == 0 {
            (if rng.chance(1, 3) { "foreground".to_string() } else { lnames[0].to_string() }, "glyphs".to_string())
        } else {
            (if li < lnames.len() { lnames[li].to_string() } else { format!("layer {}", li) }, format!("glyphs.l{}", li))
        };
        let mut keys: Vec<String> = if li == 0 {
            names.clone()
        } else {
            let keep = if sh.dirs > 0 { 100 } else if sh.uneven { *rng.pick(&[1usize, 3, 10, 30, 100]) } else { 40 + rng.below(61) };
            let mut ks: Vec<String> = names.iter().filter(|_| rng.below(100) < keep).cloned().collect();
            for j in 0..(if sh.dirs > 0 { 0 } else { rng.below(4) }) {
                ks.push(format!("only{}.{}", li, j));
            }
            ks
        };
        if sh.coll > 0 {
            keys.retain(|k| k != COLL[0] && k != COLL[1]);
            let which: &[usize] = match (sh.coll, li) {
                (1, 0) => &[0, 1],
                (1, _) => match li % 3 {
                    1 => &[0],
                    2 => &[1],
                    _ => &[0, 1],
                },
                (_, 0) => &[0],
                (_, 1) => &[1],
                _ => &[1, 0],
            };
            for w in which {
                keys.push(COLL[*w].to_string());
            }
        }
        keys.sort();
        keys.dedup();
        let mut files: Vec<FileSpec> = Vec::new();
        for key in keys {
            let nc = *rng.pick(&[0usize, 0, 1, 1, 2, 3, 8]);
            let comps: Vec<String> = (0..nc)
                .map(|_| {
                    let r = rng.below(100);
                    if r < 70 {
                        rng.pick(&hot).clone()
                    } else if r < 95 {
                        rng.pick(&names).clone()
                    } else {
                        let n = rng.pick(&names).clone();
                        variant(rng, &n)
                    }
                })
                .filter(|c| !c.is_empty())
                .collect();
            let r = rng.below(100);
            let attr = if r < 80 {
                key.clone()
            } else if r < 92 {
                let v = variant(rng, &key);
                if v.is_empty() { key.clone() } else { v }
            } else {
                rng.pick(&names).clone()
            };
            fileno += 1;
            // file names that differ in case only would collide on some systems; keep them plain
            let fname = if sh.dirs > 0 {
                // the same file name for a glyph in every layer
                format!("k{:05}_.glif", names.iter().position(|n| *n == key).unwrap_or(fileno))
            } else {
                format!("g{:05}_.glif", fileno)
            };
            files.push(FileSpec { key, fname, attr, seed: rng.below(999_000) as u64, bad: 0, comps });
        }
        if sh.bad && !files.is_empty() && (li == sh.layers - 1 || rng.chance(1, 2)) {
            for _ in 0..(1 + rng.below(2)) {
                let i = rng.below(files.len());
                files[i].bad = 1 + rng.below(3) as u8;
            }
        }
        if sh.dup && files.len() >= 2 {
            // the first half of the keys shares its files with the second half (crafted contents.plist)
            let half = files.len() / 2;
            let n = 1 + rng.below(half);
            for i in 0..n {
                let target = files[i].fname.clone();
                let j = files.len() - 1 - i;
                files[j].fname = target;
                // the file on disk is written from the later entry: make both entries describe it
                files[j].attr = files[i].attr.clone();
                files[j].seed = files[i].seed;
                files[j].comps = files[i].comps.clone();
                files[j].bad = files[i].bad;
            }
        }
        layers.push(LayerSpec { name: lname, dir, files });
    }
    if sh.dirs > 0 {
        // directory components in contents.plist values (accepted on load: recorded C09 finding, shared by both builds)
        let nl = layers.len();
        for li in 0..nl {
            let n = layers[li].files.len();
            if n == 0 {
                continue;
            }
            let pos = match (sh.dirs as usize + li) % 3 {
                0 => 0,
                1 => n / 2,
                _ => n - 1,
            };
            let other = if li == 0 { 1 } else { 0 };
            let kind = if nl < 2 { 1 } else { li % 3 };
            match kind {
                // `../<other layer>/<same file name>`: the entry refers to the other layer's file of that glyph
                0 | 2 if nl >= 2 && (li > 0 || sh.dirs % 2 == 0) => {
                    let key = layers[li].files[pos].key.clone();
                    if let Some(src) = layers[other].files.iter().find(|f| f.key == key && !f.fname.contains('/')).cloned() {
                        let odir = layers[other].dir.clone();
                        let f = &mut layers[li].files[pos];
                        f.fname = format!("../{}/{}", odir, src.fname);
                        f.attr = src.attr;
                        f.seed = src.seed;
                        f.comps = src.comps;
                        f.bad = src.bad;
                    }
                }
                _ => {
                    let f = &mut layers[li].files[pos];
                    if !f.fname.contains('/') {
                        f.fname = format!("./{}", f.fname);
                    }
                }
            }
            if sh.dirs >= 2 && sh.dirs != 4 && li == nl - 1 && n >= 2 {
                // (nearly) every glif of the last layer sorted into one sub folder by a hand-edited contents.plist: the
                // unchanged code refuses such a save (the folder is not created) in both builds, with the same error kind
                for f in layers[li].files.iter_mut() {
                    if !f.fname.contains('/') {
                        f.fname = format!("sub/{}", f.fname);
                    }
                }
            }
        }
    }
    if sh.default_pos > 0 && layers.len() > 1 {
        let d = layers.remove(0);
        let p = sh.default_pos.min(layers.len());
        layers.insert(p, d);
    }
    layers
}

/// a history through the public API: names that exist, names that sort early (so that an `entry` glyph shifts many
/// positions), names used before in the history (remove then insert again, entry then insert / rename / remove)
pub fn gen_ops(rng: &mut Rng, layers: &[LayerSpec], n: usize) -> String {
    if n == 0 {
        return String::new();
    }
    let mut ops = Vec::new();
    let mut used: Vec<(usize, String)> = Vec::new();
    let fresh = ["0first", "A0", "a0new", "mid.new", "n5x", "zz.last", ".early", "G"];
    for i in 0..n {
        let li = if rng.chance(2, 3) { layers.iter().position(|l| l.dir == "glyphs").unwrap_or(0) } else { rng.below(layers.len()) };
        let keys: Vec<&String> = layers[li].files.iter().map(|f| &f.key).collect();
        let pick_name = |rng: &mut Rng, used: &Vec<(usize, String)>| -> String {
            let r = rng.below(100);
            if r < 35 && !keys.is_empty() {
                (*rng.pick(&keys)).clone()
            } else if r < 60 && used.iter().any(|u| u.0 == li) {
                let mine: Vec<&(usize, String)> = used.iter().filter(|u| u.0 == li).collect();
                rng.pick(&mine).1.clone()
            } else if r < 90 {
                format!("{}{}", rng.pick(&fresh), if rng.chance(1, 2) { String::new() } else { format!("{}", i) })
            } else if !keys.is_empty() {
                let k = (*rng.pick(&keys)).clone();
                variant(rng, &k)
            } else {
                "solo".to_string()
            }
        };
        let name = pick_name(rng, &used);
        if name.is_empty() {
            continue;
        }
        let seed = rng.below(999_000);
        // the first operation of every history is an `entry` insertion of a name that sorts early
        let kind = if i == 0 { 3 } else { rng.below(6) };
        let op = match kind {
            0 => format!("ig.{}.{}.{}", li, hexs(&name), seed),
            1 => format!("rg.{}.{}", li, hexs(&name)),
            2 => {
                let new = pick_name(rng, &used);
                if new.is_empty() {
                    continue;
                }
                used.push((li, new.clone()));
                format!("mg.{}.{}.{}", li, hexs(&name), hexs(&new))
            }
            4 | 5 => {
                let other = pick_name(rng, &used);
                if other.is_empty() {
                    continue;
                }
                format!("{}.{}.{}.{}", if kind == 4 { "sw" } else { "cp" }, li, hexs(&name), hexs(&other))
            }
            _ => {
                let nm = if i == 0 { rng.pick(&fresh).to_string() } else { name.clone() };
                used.push((li, nm.clone()));
                format!("eo.{}.{}.{}", li, hexs(&nm), seed)
            }
        };
        used.push((li, name));
        ops.push(op);
    }
    // names that get the SAME file name unless the clash check works (illegal characters become `_`, capitals get a `_`),
    // non-ASCII capitals included; the first in name order is BIG, so that a parallel save racing two workers on one file would show
    let clash = [("É*", "É_"), ("Ä?", "Ä_"), ("A*", "A_"), ("Öx|", "Öx_"), ("é*", "é_")];
    if n >= 2 && rng.chance(1, 2) {
        let li = layers.iter().position(|l| l.dir == "glyphs").unwrap_or(0);
        let (a, b) = *rng.pick(&clash);
        let big = format!("ig.{}.{}.{}", li, hexs(a), 999_000 + rng.below(1000));
        let small = format!("ig.{}.{}.{}", li, hexs(b), rng.below(900_000));
        if rng.chance(1, 2) {
            ops.push(big);
            ops.push(small);
        } else {
            ops.push(small);
            ops.push(big);
        }
    }
    format!("O:{}", ops.join(";"))
}

/// another font for the same process: glyphs named like things the main font only mentions (dangling component
/// bases, `extra` = e.g. its group names), like some of its glyphs, and near misses
pub fn gen_prelude(rng: &mut Rng, main: &[LayerSpec], extra: &[String]) -> Vec<LayerSpec> {
    let mut keys: Vec<String> = extra.to_vec();
    let main_keys: Vec<&String> = main.iter().flat_map(|l| l.files.iter().map(|f| &f.key)).collect();
    let main_comps: Vec<&String> = main.iter().flat_map(|l| l.files.iter().flat_map(|f| f.comps.iter())).collect();
    for c in main_comps.iter().take(400) {
        if !main_keys.contains(c) || rng.chance(1, 8) {
            keys.push((*c).clone());
        }
    }
    for _ in 0..(3 + rng.below(10)) {
        if !main_keys.is_empty() {
            let k = (*rng.pick(&main_keys)).clone();
            keys.push(if rng.chance(1, 2) { k } else { variant(rng, &k) });
        }
    }
    keys.retain(|k| !k.is_empty());
    keys.sort();
    keys.dedup();
    let files: Vec<FileSpec> = keys
        .iter()
        .enumerate()
        .map(|(i, k)| FileSpec {
            key: k.clone(),
            fname: format!("p{:04}_.glif", i),
            attr: k.clone(),
            seed: rng.below(999_000) as u64,
            bad: 0,
            comps: (0..rng.below(3)).filter_map(|_| if main_keys.is_empty() { None } else { Some((*rng.pick(&main_keys)).clone()) }).collect(),
        })
        .collect();
    vec![LayerSpec { name: "public.default".to_string(), dir: "glyphs".to_string(), files }]
}

/// a UFO 2 with unprefixed kerning groups: (layers, G token, K token, names for the other font)
pub fn gen_v2(rng: &mut Rng) -> (Vec<LayerSpec>, String, String, Vec<String>) {
    let sh = Shape { glyphs: 8 + rng.below(50), layers: 1, bad: false, dup: false, coll: 0, uneven: false, default_pos: 0, ops: 0, dirs: 0 };
    let mut layers = gen_tree(rng, &sh);
    layers[0].name = "public.default".to_string();
    let keys: Vec<String> = layers[0].files.iter().map(|f| f.key.clone()).collect();
    let dangling: Vec<String> =
        layers[0].files.iter().flat_map(|f| f.comps.iter()).filter(|c| !keys.contains(c)).cloned().collect();
    let attrs: Vec<String> = layers[0].files.iter().map(|f| f.attr.clone()).filter(|a| !keys.contains(a)).collect();
    // names that are glyphs of the OTHER font only
    let other: Vec<String> = ["O.round", "H.left", "grpA", "kernX", "o.round", "n.right", "T.top"].iter().map(|s| s.to_string()).collect();
    let mut cands1: Vec<String> = vec![other[0].clone(), other[1].clone(), other[2].clone(), "@MMK_L_a".to_string(), "left1".to_string()];
    let mut cands2: Vec<String> = vec![other[3].clone(), other[4].clone(), other[5].clone(), "@MMK_R_b".to_string(), "right1".to_string()];
    if let Some(d) = dangling.first() {
        cands1.push(d.clone());
    }
    if let Some(d) = dangling.last() {
        cands2.push(d.clone());
    }
    if let Some(a) = attrs.first() {
        cands1.push(a.clone());
    }
    cands1.push(keys[rng.below(keys.len())].clone()); // a group named like one of its own glyphs: never upconverted
    cands2.retain(|c| !cands1.contains(c));
    let mut pick = |rng: &mut Rng, c: &Vec<String>| -> Vec<String> {
        let mut v: Vec<String> = c.iter().filter(|_| rng.chance(2, 3)).cloned().collect();
        if v.is_empty() {
            v.push(c[0].clone());
        }
        v.sort();
        v.dedup();
        v
    };
    let g1 = pick(rng, &cands1);
    let g2 = pick(rng, &cands2);
    let mut groups: Vec<(String, Vec<String>)> = Vec::new();
    for side in [&g1, &g2] {
        let mut ks = keys.clone();
        for k in (1..ks.len()).rev() {
            ks.swap(k, rng.below(k + 1));
        }
        let mut it = ks.into_iter();
        for g in side.iter() {
            let n = 1 + rng.below(3);
            let ms: Vec<String> = (0..n).filter_map(|_| it.next()).collect();
            groups.push((g.clone(), ms));
        }
    }
    let gtok = format!(
        "G:{}",
        groups.iter().map(|(g, ms)| format!("{}={}", hexs(g), ms.iter().map(|m| hexs(m)).collect::<Vec<_>>().join("+"))).collect::<Vec<_>>().join(";")
    );
    let mut firsts = g1.clone();
    firsts.push(keys[rng.below(keys.len())].clone());
    let mut seconds = g2.clone();
    seconds.push(keys[rng.below(keys.len())].clone());
    firsts.sort();
    firsts.dedup();
    seconds.sort();
    seconds.dedup();
    let mut pairs = Vec::new();
    for a in &firsts {
        for b in &seconds {
            if rng.chance(2, 3) {
                pairs.push(format!("{}.{}={}", hexs(a), hexs(b), rng.range(-200, 200)));
            }
        }
    }
    if pairs.is_empty() {
        pairs.push(format!("{}.{}=-10", hexs(&firsts[0]), hexs(&seconds[0])));
    }
    let mut extra = other;
    extra.extend(g1.iter().cloned());
    extra.extend(g2.iter().cloned());
    extra.retain(|e| !e.starts_with('@'));
    (layers, gtok, format!("K:{}", pairs.join(";")), extra)
}

fn emit(out: &mut dyn Write, scratch: &Path, sseed: u64, reps: usize, layers: &[LayerSpec], ops: &str) {
    emit_x(out, scratch, sseed, reps, layers, ops, &[], &[])
}

fn emit_x(
    out: &mut dyn Write,
    scratch: &Path,
    sseed: u64,
    reps: usize,
    layers: &[LayerSpec],
    ops: &str,
    extra: &[String],
    pre: &[LayerSpec],
) {
    let mut input = vec!["C19".to_string(), format!("s{}", sseed), format!("r{}", reps)];
    input.extend(extra.iter().cloned());
    input.extend(layers.iter().map(layer_tok));
    input.extend(pre.iter().map(|l| layer_tok(l).replacen("L:", "A:", 1)));
    if !ops.is_empty() {
        input.push(ops.to_string());
    }
    let toks: Vec<&str> = input.iter().map(|s| s.as_str()).collect();
    let obs = observe(&toks[1..], scratch, 0);
    writeln!(out, "{} => {}", input.join(" "), obs).unwrap();
}

pub fn gen(tier: &str, seed: u64, out: &mut dyn Write) {
    if par_binary().is_none() {
        eprintln!("C19: the parallel harness binary is missing (HARNESS_PAR unset and no <target>-par build)");
        std::process::exit(3);
    }
    let mut rng = Rng::new(seed ^ 0xC19C19);
    let scratch = scratch();
    let (reps, ntrees) = if tier == "thorough" { (500, 36) } else { (20, 36) };
    for t in 0..ntrees {
        let (glyphs, maxl) = match t % 6 {
            0 => (2 + rng.below(13), 4),
            1 | 2 => (30 + rng.below(120), 4),
            3 | 4 => (150 + rng.below(250), 3),
            _ => (400 + rng.below(300), 2),
        };
        // every 6th tree (offset 2): 5-8 layers of very different sizes, the default layer somewhere in the middle
        let many = t % 6 == 2;
        let layers = if many { 5 + rng.below(4) } else { 1 + rng.below(maxl) };
        let dup = t % 12 == 7;
        let bad = t % 9 == 4;
        let sh = Shape {
            glyphs: if many { glyphs.min(160) } else { glyphs },
            layers,
            bad,
            dup,
            coll: if t % 5 == 1 { 1 + (t / 5 % 2) as u8 } else { 0 },
            uneven: many || rng.chance(1, 4),
            default_pos: if many || rng.chance(1, 3) { rng.below(layers) } else { 0 },
            ops: if !dup && !bad && t % 2 == 0 { 1 + rng.below(if t % 4 == 0 { 6 } else { 30 }) } else { 0 },
            dirs: 0,
        };
        let layers = gen_tree(&mut rng, &sh);
        let ops = gen_ops(&mut rng, &layers, sh.ops);
        // every 4th tree: another font is loaded in the same process before every load
        let pre = if t % 4 == 3 { gen_prelude(&mut rng, &layers, &[]) } else { Vec::new() };
        emit_x(out, &scratch, rng.next() % 1_000_000, reps, &layers, &ops, &[], &pre);
    }
    // more layers than the small-sort threshold of the standard library (32), default layer second / middle / last
    for (i, n) in [33usize, 41, 49, 70].iter().enumerate() {
        let pos = match i % 3 {
            0 => n - 1,
            1 => n / 2,
            _ => 1,
        };
        let sh = Shape { glyphs: 3 + rng.below(10), layers: *n, bad: false, dup: false, coll: 0, uneven: true, default_pos: pos, ops: 0, dirs: 0 };
        let layers = gen_tree(&mut rng, &sh);
        emit(out, &scratch, rng.next() % 1_000_000, reps, &layers, "");
    }
    // directory components in contents.plist values, layers sharing file names, layer sizes around rayon's splitting thresholds
    for (i, n) in [1usize, 2, 63, 64, 65, 257].iter().enumerate() {
        let sh = Shape {
            glyphs: *n,
            layers: 2 + (i % 2),
            bad: false,
            dup: false,
            coll: 0,
            uneven: false,
            default_pos: if i % 3 == 2 { 1 } else { 0 },
            ops: 0,
            dirs: (i + 1) as u8,
        };
        let layers = gen_tree(&mut rng, &sh);
        emit(out, &scratch, rng.next() % 1_000_000, reps, &layers, "");
    }
    // UFO 2 with unprefixed kerning groups, after a font whose glyphs are named like those groups
    for i in 0..4 {
        let (layers, g, k, extra) = gen_v2(&mut rng);
        let pre = if i == 3 { Vec::new() } else { gen_prelude(&mut rng, &layers, &extra) };
        emit_x(out, &scratch, rng.next() % 1_000_000, reps, &layers, "", &["V2".to_string(), g, k], &pre);
    }
    rm_rf(&scratch);
}
